#!/usr/bin/env python3
"""Run the repository's own test-suite (the BASELINE.json command) on /repo (or argv[1] = a
worktree) and compare with the stable-pass list: every baseline test must still pass."""
import json, os, subprocess, sys, tempfile, xml.etree.ElementTree as ET
repo = sys.argv[1] if len(sys.argv) > 1 else "/repo"
base = json.load(open("/root/.vp/BASELINE.json"))
stable = set(base["stable_pass"])
fd, xml = tempfile.mkstemp(suffix=".xml"); os.close(fd)
env = dict(os.environ)
if repo != "/repo":
    env["PYTHONPATH"] = os.path.join(repo, "src")
env.pop("SDROBERT_PYDROBERT_PYTORCH_VERIF", None)
cmd = ["/venv/bin/python", "-m", "pytest", "-q", "-p", "no:cacheprovider", "--timeout=900",
       "--continue-on-collection-errors", "--junitxml=" + xml] + sys.argv[2:]
r = subprocess.run(cmd, cwd=repo, env=env, capture_output=True, text=True)
passed, failed = set(), set()
for tc in ET.parse(xml).getroot().iter("testcase"):
    tid = "%s::%s" % (tc.get("classname"), tc.get("name"))
    bad = any(ch.tag in ("failure", "error", "skipped") for ch in tc)
    (failed if bad and any(ch.tag in ("failure", "error") for ch in tc) else passed if not bad else set()).add(tid)
os.remove(xml)
missing = sorted(stable - passed)
newly = sorted(passed - stable)
print(r.stdout.strip().splitlines()[-1] if r.stdout.strip() else r.stderr[-500:])
print("baseline stable tests: %d, passing now: %d, missing: %d, passing beyond baseline: %d" % (len(stable), len(stable & passed), len(missing), len(newly)))
for m in missing[:40]:
    print("  MISSING", m)
for m in newly[:20]:
    print("  NEW-PASS", m)
sys.exit(1 if missing else 0)
