#!/bin/sh
# tools/sweep_seeds.sh in four lanes (by property), merged into seeded/SWEEP.md
cd "$(dirname "$0")/.." || exit 2
tmp=$(mktemp -d /tmp/vf_sweeppar_XXXXXX)
IDS="C16 C01 C02" OUT=$tmp/a.md JOBS=4 sh tools/sweep_seeds.sh > /dev/null 2>&1 &
IDS="C03 C04 C05 C06 C07 C08" OUT=$tmp/b.md JOBS=4 sh tools/sweep_seeds.sh > /dev/null 2>&1 &
IDS="C09 C10 C11 C12 C13 C14" OUT=$tmp/c.md JOBS=4 sh tools/sweep_seeds.sh > /dev/null 2>&1 &
IDS="C15 C17 C18 C19 C20" OUT=$tmp/d.md JOBS=4 sh tools/sweep_seeds.sh > /dev/null 2>&1 &
wait
out=seeded/SWEEP.md
head -4 $tmp/a.md > $out
cat $tmp/a.md $tmp/b.md $tmp/c.md $tmp/d.md | grep '^| C' | sort -t'|' -k3,3 -k2,2V >> $out
rm -rf $tmp
grep -c '^| C' $out; grep '^| C' $out | grep -v '| yes | 1 |'
