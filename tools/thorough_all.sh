#!/bin/sh
for i in 01 02 03 04 05 06 07 08 09 10 11 12 13 14 15 16 17 18 19 20; do
  s=$(date +%s)
  ./check C$i --tier thorough --jobs ${JOBS:-10} 2>&1 | grep -E "tier=|VIOLATION|HARNESS|WARNING" | cut -c1-300
  echo "C$i wall=$(( $(date +%s) - s ))s"
done
