#!/bin/sh
# Quietness: every quick check at several seeds on the unchanged tree; prints anything that is not a clean exit 0
cd "$(dirname "$0")/.." || exit 2
for s in ${SEEDS:-0 2 7 12345 99}; do
  for i in $(seq -w 1 20); do
    out=$(VERIF_SEED=$s ./check C$i --no-evidence --jobs ${JOBS:-8} 2>&1); rc=$?
    echo "seed=$s C$i rc=$rc $(echo "$out" | grep -E 'tier=' | sed 's/.*: //')"
    if [ $rc -ne 0 ]; then echo "$out" | grep -E "VIOLATION|HARNESS|sub-check" | cut -c1-600; fi
  done
done
