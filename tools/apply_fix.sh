#!/bin/sh
# usage: tools/apply_fix.sh <diff> <commit message (without the "fix: " prefix)>
set -e
d=$(readlink -f "$1"); shift
cd /repo
test -z "$(git status --porcelain --untracked-files=no)" || { echo "/repo not clean"; exit 1; }
git apply --index "$d"
git commit -q -m "fix: $*"
git log --oneline | head -1
