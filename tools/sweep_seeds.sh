#!/bin/sh
# Re-run every seeded change against the quick tier at /repo's current HEAD; writes seeded/SWEEP.md
cd "$(dirname "$0")/.." || exit 2
out=${OUT:-seeded/SWEEP.md}
echo "# Seeded changes vs quick tier (tools/sweep_seeds.sh), /repo HEAD $(git -C /repo rev-parse --short HEAD), VERIF_SEED=${VERIF_SEED:-1}" > $out
echo >> $out
echo "| seeded change | property | applies | exit | sub-checks reporting |" >> $out
echo "|---|---|---|---|---|" >> $out
for d in seeded/C*/; do
  n=$(basename $d); id=${n%-*}
  case " ${IDS:-$id} " in *" $id "*) ;; *) continue ;; esac
  wt=$(mktemp -d /tmp/vf_sweep_XXXXXX); rmdir $wt
  git -C /repo worktree add -q --detach $wt HEAD || exit 2
  if git -C $wt apply "$(pwd)/$d/patch.diff" 2>/dev/null; then
    log=$(VERIF_REPO_SRC=$wt/src PYTHONHASHSEED=0 /venv/bin/python -m vf.run $id --no-evidence --jobs ${JOBS:-8} 2>&1)
    rc=$?
    subs=$(echo "$log" | sed -n 's/^  sub-check \([^:]*\):.*/\1/p' | sort -u | tr '\n' ' ')
    echo "| $n | $id | yes | $rc | $subs |" >> $out
  else
    echo "| $n | $id | NO | - | |" >> $out
  fi
  git -C /repo worktree remove --force $wt
  rm -rf found/$id
done
cat $out
