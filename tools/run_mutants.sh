#!/bin/sh
# usage: tools/run_mutants.sh <ID> [jobs]   -> rewrites mutants/<ID>/RESULTS.auto.md
id=$1; jobs=${2:-8}
cd "$(dirname "$0")/.." || exit 2
out=mutants/$id/RESULTS.auto.md
echo "# $id mutants against the quick tier (tools/run_mutants.sh, /repo HEAD $(git -C /repo rev-parse --short HEAD))" > $out
echo >> $out
echo "| mutant | exit | sub-checks reporting |" >> $out
echo "|---|---|---|" >> $out
for m in mutants/$id/*.diff; do
  log=$(tools/mutant.sh $m $id --jobs $jobs 2>&1)
  rc=$(echo "$log" | sed -n 's/^mutant .* exit \([0-9]*\)$/\1/p')
  subs=$(echo "$log" | sed -n 's/^  sub-check \([^:]*\):.*/\1/p' | sort -u | tr '\n' ' ')
  echo "| $(basename $m) | $rc | $subs |" >> $out
done
cat $out
