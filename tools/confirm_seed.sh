#!/bin/sh
# usage: tools/confirm_seed.sh <seed-dir> <ID> <name> [test files...]
# Confirms a seeded change independently: patch applies, demo exits 1 with it and 0 without,
# the listed repository tests pass with it; then runs the quick check of <ID> against it.
# Writes /verif/seeded/<name>/{patch.diff,demo.py,notes.md,confirm.log} (meta.json is written by hand).
sd=$(readlink -f "$1"); id=$2; name=$3; shift 3
cd "$(dirname "$0")/.." || exit 2
out=$(pwd)/seeded/$name; mkdir -p $out
cp $sd/patch.diff $sd/demo.py $out/; [ -f $sd/notes.md ] && cp $sd/notes.md $out/
wt=$(mktemp -d /tmp/vf_seed_XXXXXX); rmdir $wt
git -C /repo worktree add -q --detach $wt HEAD || exit 2
{
echo "## confirm $name ($(date -u +%FT%TZ)) repo HEAD $(git -C /repo rev-parse --short HEAD)"
if ! git -C $wt apply $out/patch.diff; then echo "PATCH-DOES-NOT-APPLY"; git -C /repo worktree remove --force $wt; exit 3; fi
echo "### demo with change (expect exit 1)"
( cd $wt && PYTHONPATH=$wt/src OMP_NUM_THREADS=1 timeout 1200 /venv/bin/python $out/demo.py 2>&1 | tail -15 )
PYTHONPATH=$wt/src OMP_NUM_THREADS=1 timeout 1200 /venv/bin/python $out/demo.py >/dev/null 2>&1; echo "demo-with-change exit=$?"
echo "### demo without change (expect exit 0)"
PYTHONPATH=/repo/src OMP_NUM_THREADS=1 timeout 1200 /venv/bin/python $out/demo.py >/dev/null 2>&1; echo "demo-without-change exit=$?"
if [ $# -gt 0 ]; then
  echo "### repository tests with change: $*"
  ( cd $wt && PYTHONPATH=$wt/src OMP_NUM_THREADS=1 timeout 3000 /venv/bin/python -m pytest -q -p no:cacheprovider "$@" 2>&1 | tail -3 )
fi
echo "### quick check of $id against the change"
VERIF_REPO_SRC=$wt/src PYTHONHASHSEED=0 /venv/bin/python -m vf.run $id --no-evidence --jobs 8 2>&1 | grep -E "VIOLATION|sub-check|tier=|HARNESS" | cut -c1-400
} 2>&1 | tee $out/confirm.log
git -C /repo worktree remove --force $wt
