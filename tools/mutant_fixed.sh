#!/bin/sh
# usage: tools/mutant_fixed.sh <patch-file> <ID> [extra check args]
# Like tools/mutant.sh, but first applies the proposed repairs fixes/<ID>-*.diff to the scratch worktree,
# so that a mutant is judged against the *repaired* tree (on which the check is quiet) while the repairs
# are not yet merged into /repo.
set -u
patch=$(readlink -f "$1"); id=$2; shift 2
here=$(cd "$(dirname "$0")/.." && pwd)
wt=$(mktemp -d /tmp/vf_mut_XXXXXX)
rmdir "$wt"
git -C /repo worktree add -q --detach "$wt" HEAD || exit 2
for f in "$here"/fixes/"$id"-*.diff; do
  [ -f "$f" ] || continue
  git -C "$wt" apply "$f" || { echo "FIX-DOES-NOT-APPLY $f"; git -C /repo worktree remove --force "$wt"; exit 3; }
done
if ! git -C "$wt" apply "$patch"; then
  echo "PATCH-DOES-NOT-APPLY $patch"; git -C /repo worktree remove --force "$wt"; exit 3
fi
cd "$here" || exit 2
VERIF_REPO_SRC="$wt/src" PYTHONHASHSEED=0 /venv/bin/python -m vf.run "$id" --no-evidence "$@"
rc=$?
git -C /repo worktree remove --force "$wt"
echo "mutant $(basename "$patch") on $id (repairs applied): exit $rc"
exit $rc
