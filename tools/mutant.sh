#!/bin/sh
# usage: tools/mutant.sh <patch-file> <ID> [extra check args]
# Applies the patch to a scratch worktree of /repo under /tmp, runs the quick check of <ID>
# against it (VERIF_REPO_SRC), prints the verdict, removes the worktree.
set -u
patch=$(readlink -f "$1"); id=$2; shift 2
wt=$(mktemp -d /tmp/vf_mut_XXXXXX)
rmdir "$wt"
git -C /repo worktree add -q --detach "$wt" HEAD || exit 2
if ! git -C "$wt" apply "$patch"; then
  echo "PATCH-DOES-NOT-APPLY $patch"; git -C /repo worktree remove --force "$wt"; exit 3
fi
cd "$(dirname "$0")/.." || exit 2
VERIF_REPO_SRC="$wt/src" PYTHONHASHSEED=0 /venv/bin/python -m vf.run "$id" --no-evidence "$@"
rc=$?
git -C /repo worktree remove --force "$wt"
echo "mutant $(basename "$patch") on $id: exit $rc"
exit $rc
