#!/usr/bin/env python3
"""Regenerate MANIFEST.json from vf/props/meta.json and the property modules present."""
import json, os, sys
root = os.path.dirname(os.path.dirname(os.path.abspath(__file__)))
mdir = os.path.join(root, "vf/props/meta")
meta = {f[:-5]: json.load(open(os.path.join(mdir, f))) for f in os.listdir(mdir) if f.endswith(".json")}
glob = meta.pop("_global")
props = [json.loads(l) for l in open(os.path.join(root, "properties.jsonl"))]
hooks_commits = glob.get("hooks_commits", [])
checks, na = [], []
for p in props:
    pid = p["id"]
    m = meta.get(pid)
    have = os.path.exists(os.path.join(root, "vf/props/%s.py" % pid.lower()))
    if not (m and have) or m.get("not_applicable") or pid not in glob.get("ready", []):
        na.append({"property_id": pid, "reason": (m or {}).get("not_applicable") or "check not built yet (work in progress; design in DESIGN.md section 2)"})
        continue
    checks.append({
        "property_id": pid,
        "quick_cmd": "./check %s --tier quick" % pid,
        "thorough_cmd": "./check %s --tier thorough" % pid,
        "evidence_file": "/verif/evidence/%s.json" % pid,
        "replay_cmd_template": "./check %s --replay {path}" % pid,
        "engine": "vf",
        "level_claimed": {
            "category": m.get("level", "exploration"),
            "text": m["level_text"],
            "design_ref": "DESIGN.md section 2, %s" % pid,
        },
        "level_note": m["level_note"],
        "technique": m["technique"],
    })
man = {
    "version": 1,
    "setup_cmd": "./setup.sh",
    "hooks": {
        "guard": "SDROBERT_PYDROBERT_PYTORCH_VERIF",
        "enable": "no source hooks are needed: the harness replaces module attributes (torch.rand, torch.distributed rank/world, multiprocessing pool, file-system calls seen from pydrobert.torch.training) for the duration of a case; the guard variable is unused by /repo",
        "baseline_off_cmd": "cd /repo && /venv/bin/python -m pytest -ra -q -p no:cacheprovider --timeout=900 --continue-on-collection-errors",
        "source_commits": hooks_commits,
        "add_only": True,
    },
    "engines": [{
        "name": "vf",
        "path": "/verif/vf",
        "serves_properties": [c["property_id"] for c in checks],
        "kind_free_text": "Hypothesis-driven generated-input search (plus complete enumeration of small finite spaces) against explicit oracles: reference models, brute-force enumeration, round trips, differential and metamorphic relations; failing cases are shrunk and stored as JSON replay files",
    }],
    "checks": checks,
    "notes": glob.get("notes", ""),
    "not_applicable": na,
}
json.dump(man, open(os.path.join(root, "MANIFEST.json"), "w"), indent=1)
print("checks:", [c["property_id"] for c in checks], "not claimed:", [n["property_id"] for n in na])
