#!/bin/sh
# usage: IDS="C03 C05" [JOBS=n] sh tools/thorough_some.sh
for id in $IDS; do
  s=$(date +%s)
  ./check $id --tier thorough --jobs ${JOBS:-10} 2>&1 | grep -E "tier=|VIOLATION|HARNESS|WARNING" | cut -c1-300
  echo "$id wall=$(( $(date +%s) - s ))s"
done
