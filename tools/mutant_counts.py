#!/venv/bin/python
"""usage: tools/mutant_counts.py <ID> <patch-file>... [--jobs N]

For each mutant: scratch worktree of /repo HEAD + proposed repairs fixes/<ID>-*.diff + the mutant; every quick
unit (sub-check, shard) of <ID> is run as a worker; prints, per sub-check, whether it reported a violation and
after how many evaluated cases (the worker stops generating at the first failure). Worktrees are removed.
"""
from __future__ import annotations

import glob
import json
import os
import subprocess
import sys
import tempfile

VERIF = os.path.dirname(os.path.dirname(os.path.abspath(__file__)))


def sh(*a, **k):
    return subprocess.run(a, capture_output=True, text=True, **k)


def main():
    args = sys.argv[1:]
    jobs = 4
    if "--jobs" in args:
        i = args.index("--jobs")
        jobs = int(args[i + 1])
        del args[i:i + 2]
    pid, patches = args[0].upper(), args[1:]
    listing = sh(sys.executable, "-c",
                 "import json; from vf import run; subs=run.load_prop(%r); "
                 "print('@@'+json.dumps([[s.name,s.quick,s.exhaustive] for s in subs]))" % pid, cwd=VERIF)
    subs = json.loads([l for l in listing.stdout.splitlines() if l.startswith("@@")][0][2:])
    for patch in patches:
        wt = tempfile.mkdtemp(prefix="vf_mut_", dir="/tmp")
        os.rmdir(wt)
        sh("git", "-C", "/repo", "worktree", "add", "-q", "--detach", wt, "HEAD")
        out_dir = tempfile.mkdtemp(prefix="vf_mutout_", dir="/dev/shm" if os.path.isdir("/dev/shm") else None)
        try:
            ok = True
            for f in sorted(glob.glob(os.path.join(VERIF, "fixes", pid + "-*.diff"))) + [os.path.abspath(patch)]:
                r = sh("git", "-C", wt, "apply", f)
                if r.returncode:
                    print("%s: DOES-NOT-APPLY %s" % (os.path.basename(patch), f))
                    ok = False
                    break
            if not ok:
                continue
            units = []
            for name, quick, exhaustive in subs:
                nsh = 2 if (exhaustive or quick >= 1500) else 1
                for shd in range(nsh):
                    units.append((name, shd, nsh))
            env = dict(os.environ, VERIF_REPO_SRC=os.path.join(wt, "src"), PYTHONHASHSEED="0", OMP_NUM_THREADS="1")
            running, results = [], {}
            pending = list(units)
            while pending or running:
                while pending and len(running) < jobs:
                    name, shd, nsh = pending.pop(0)
                    out = os.path.join(out_dir, "%s-%d.json" % (name, shd))
                    p = subprocess.Popen([sys.executable, "-m", "vf.run", pid, "--worker", "--unit", name, "--tier", "quick",
                                          "--shard", str(shd), "--nshards", str(nsh), "--out", out], cwd=VERIF, env=env,
                                         stdout=subprocess.DEVNULL, stderr=subprocess.DEVNULL)
                    running.append((p, name, shd, out))
                p, name, shd, out = running.pop(0)
                p.wait()
                try:
                    with open(out) as f:
                        r = json.load(f)
                    results.setdefault(name, []).append((shd, r["evaluations"], bool(r["violations"]), r.get("harness_error")))
                except Exception as e:  # noqa
                    results.setdefault(name, []).append((shd, -1, False, "no result: %s" % e))
            print("%s:" % os.path.basename(patch))
            for name, _, _ in subs:
                parts = []
                for shd, ev, viol, herr in sorted(results.get(name, [])):
                    parts.append("shard %d: %s after %d cases%s" % (shd, "VIOLATION" if viol else "no violation", ev,
                                                                     " HARNESS-ERROR" if herr else ""))
                print("   %-22s %s" % (name, "; ".join(parts)))
        finally:
            sh("git", "-C", "/repo", "worktree", "remove", "--force", wt)
            subprocess.run(["rm", "-rf", out_dir])


if __name__ == "__main__":
    main()
