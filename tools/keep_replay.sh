#!/bin/sh
# usage: tools/keep_replay.sh <seeded-name> <ID> <sub-check> <replay-name> "<note>"
# Runs <sub-check> against the seeded change in a scratch worktree and stores the (shrunk) case that reports it as
# replays/<ID>/<replay-name>.json, so that the class it stands for is exercised by every quick run, whatever the seed.
n=$1; id=$2; sub=$3; name=$4; note=$5
cd "$(dirname "$0")/.." || exit 2
mkdir -p replays/$id
wt=$(mktemp -d /tmp/vf_keep_XXXXXX); rmdir $wt
git -C /repo worktree add -q --detach $wt HEAD || exit 2
git -C $wt apply "$(pwd)/seeded/$n/patch.diff" || { git -C /repo worktree remove --force $wt; exit 3; }
tmpf=$(mktemp -d /tmp/vf_keepf_XXXXXX)
out=$(VERIF_REPO_SRC=$wt/src PYTHONHASHSEED=0 /venv/bin/python -m vf.run $id --only $sub --no-evidence --jobs 8 2>&1)
f=$(echo "$out" | sed -n "s/^VIOLATION property=$id replay=\(found\/$id\/$sub-[0-9a-f]*\.json\)$/\1/p" | head -1)
git -C /repo worktree remove --force $wt
if [ -z "$f" ]; then echo "$n: $sub reported nothing"; rm -rf $tmpf; exit 1; fi
python3 - "$f" "replays/$id/$name.json" "$note" "$id" "$sub" <<'PY'
import json, sys
src, dst, note, pid, sub = sys.argv[1:6]
d = json.load(open(src))
json.dump({"case": d["case"], "note": note, "property": pid, "subcheck": sub}, open(dst, "w"), indent=1, sort_keys=True)
print("wrote", dst)
PY
rm -rf $tmpf
./check $id --replay replays/$id/$name.json 2>&1 | tail -1
