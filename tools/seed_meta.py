#!/usr/bin/env python3
"""tools/seed_meta.py <name> <property> <needs text> [<strengthening note>]  -> seeded/<name>/meta.json from confirm.log"""
import json, os, re, sys
name, pid, needs = sys.argv[1:4]
note = sys.argv[4] if len(sys.argv) > 4 else ""
root = os.path.dirname(os.path.dirname(os.path.abspath(__file__)))
d = os.path.join(root, "seeded", name)
log = open(os.path.join(d, "confirm.log")).read()
blocks = log.split("## confirm ")
last = blocks[-1]
subs = sorted(set(re.findall(r"replay=found/%s/([A-Za-z_0-9]+)-" % pid, last)))
meta = {
    "property": pid,
    "breaks": needs.split("||")[0].strip(),
    "needs_to_manifest": needs.split("||")[1].strip() if "||" in needs else needs,
    "origin": "written by a fresh sub-agent given only the property text and a scratch worktree (no access to /verif)",
    "what_i_ran": {
        "tool": "tools/confirm_seed.sh (scratch worktree of /repo HEAD under /tmp, removed afterwards)",
        "demo_with_change_exit": int(re.search(r"demo-with-change exit=(\d+)", last).group(1)),
        "demo_without_change_exit": int(re.search(r"demo-without-change exit=(\d+)", last).group(1)),
        "repository_tests_with_change": (re.findall(r"### repository tests with change: (.*)\n(?:.*\n)*?(.*(?:passed|failed).*)\n", last) or [["not re-run in the last confirmation (see earlier block of confirm.log)", ""]])[0],
        "sub_agent_reported_full_suite": "see notes.md",
    },
    "detected_by_quick_check": bool(subs),
    "detecting_subchecks": subs,
    "strengthening": note,
}
json.dump(meta, open(os.path.join(d, "meta.json"), "w"), indent=1)
print(name, meta["detected_by_quick_check"], subs)
