#!/usr/bin/env python3
"""Create a mutant patch: tools/mkmut.py <ID> <slug> <repo-relative file> <old> <new> [occurrence]
The replacement is applied to /repo's working-tree version of the file (old must occur; the
n-th occurrence, default the only one) and written as mutants/<ID>/<slug>.diff (git-apply format)."""
import difflib, os, sys
pid, slug, rel, old, new = sys.argv[1:6]
occ = int(sys.argv[6]) if len(sys.argv) > 6 else None
src = open(os.path.join("/repo", rel)).read()
n = src.count(old)
if n == 0:
    sys.exit("old text not found")
if n > 1 and occ is None:
    sys.exit("old text occurs %d times; give an occurrence index (1-based)" % n)
idx = -1
for _ in range(occ or 1):
    idx = src.index(old, idx + 1)
mut = src[:idx] + new + src[idx + len(old):]
diff = "".join(difflib.unified_diff(src.splitlines(True), mut.splitlines(True), "a/" + rel, "b/" + rel))
root = os.path.dirname(os.path.dirname(os.path.abspath(__file__)))
os.makedirs(os.path.join(root, "mutants", pid), exist_ok=True)
out = os.path.join(root, "mutants", pid, slug + ".diff")
open(out, "w").write(diff)
print(out)
