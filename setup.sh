#!/bin/sh
# Idempotent, offline. The checks need only hypothesis beside the repository's own packages.
cd "$(dirname "$0")" || exit 1
if /venv/bin/python -c "import hypothesis" 2>/dev/null; then
  echo "hypothesis present in /venv"
else
  /venv/bin/pip install --no-index --find-links /opt/veriftools/wheels hypothesis \
   || /venv/bin/pip install --no-index --find-links /opt/veriftools/wheels --target ./.deps hypothesis \
   || { echo "cannot install hypothesis"; exit 1; }
fi
/venv/bin/python -c "import sys; sys.path.append('.deps'); import hypothesis, torch, numpy, pydrobert.torch; print('ok', hypothesis.__version__, torch.__version__, numpy.__version__)"
