"""Shared Hypothesis strategies. Everything produced is plain JSON data."""
from __future__ import annotations

from hypothesis import strategies as st


def dyadic(q: int, lo: float, hi: float):
    """Multiples of 1/q in [lo, hi] (exact in float32 for small q)."""
    return st.integers(int(round(lo * q)), int(round(hi * q))).map(lambda k: k / q)


def int_matrix(rows, cols, lo, hi):
    return st.lists(st.lists(st.integers(lo, hi), min_size=cols, max_size=cols), min_size=rows, max_size=rows)


def weighted(*pairs):
    """one_of with integer weights: weighted((3, stratA), (1, stratB))."""
    # st.one_of de-duplicates identical strategy objects, so the weighting is done on indices
    idx = []
    for i, (w, _) in enumerate(pairs):
        idx.extend([i] * w)
    strategies = [s for _, s in pairs]
    return st.sampled_from(idx).flatmap(lambda i: strategies[i])
