"""Helpers shared by C12 and C14: plain-data tensor specs, writing and reading back data directories.

A *spec* is plain JSON data describing one stored tensor:

  feat: {"T": int, "F": int, "dtype": str, "rank": 2|1|3}            (values are a fixed function of the shape)
  ali : {"dtype": str, "vals": [int...], "rank": 1|0|2}
  ref : {"dtype": str, "dim": 1|2|0|3, "width": int, "rows": [[tok, start, end]...]}

Every spec may carry "layout": one of LAYOUTS - the memory layout of the tensor that is saved (``torch.save``
keeps the view structure, so the library loads a tensor with the same strides / storage offset).

A *stored tensor* (what is on disk) is {"dtype": "torch.int64", "shape": [...], "data": nested list}.
Oracles only ever see stored tensors.
"""
from __future__ import annotations

import contextlib
import os
import shutil
import tempfile
import warnings

import torch
from hypothesis import strategies as st


def wdraw(draw, *pairs):
    """Draw from one of the (weight, strategy) pairs; weights are respected (sampled_from over an
    expanded index list - ``st.one_of`` would de-duplicate repeated strategies)."""
    idx = [i for i, (w, _) in enumerate(pairs) for _ in range(w)]
    return draw(pairs[draw(st.sampled_from(idx))][1])


DTYPES = {
    "float32": torch.float32,
    "float64": torch.float64,
    "float16": torch.float16,
    "int64": torch.int64,
    "int32": torch.int32,
    "uint8": torch.uint8,
    "bool": torch.bool,
}


def stored(t: torch.Tensor) -> dict:
    return {"dtype": str(t.dtype), "shape": list(t.shape), "data": t.tolist()}


def stored_to_tensor(s: dict) -> torch.Tensor:
    dt = getattr(torch, s["dtype"].split(".", 1)[1])
    return torch.tensor(s["data"], dtype=dt).reshape(s["shape"])


LAYOUTS = ["own", "offset", "colslice", "transposed", "strided"]


def with_layout(t: torch.Tensor, layout) -> torch.Tensor:
    """A tensor equal to ``t`` (shape, dtype, values) with the requested memory layout:

    own        - its own contiguous storage (``t`` itself)
    offset     - a row slice of a larger tensor: contiguous, non-zero storage offset
    colslice   - the last axis cut out of a wider tensor (1-D: one column of a matrix): non-contiguous, offset
    transposed - axes 0 and 1 swapped in storage (1-D: like colslice): non-contiguous, offset 0
    strided    - every other row of a larger tensor: non-contiguous, offset

    The cells of the larger tensor outside the view hold garbage that no valid tensor contains (NaN for floating
    point, -12345 / 251 / True otherwise), so that reading the storage with the wrong offset or strides shows.
    Scalars are returned unchanged."""
    if layout in (None, "own") or t.dim() == 0:
        return t
    if t.dtype.is_floating_point:
        junk = float("nan")
    elif t.dtype == torch.bool:
        junk = True
    elif t.dtype == torch.uint8:
        junk = 251
    else:
        junk = -12345
    n = t.size(0)
    rest = tuple(t.shape[1:])
    if layout == "offset":
        v = t.new_full((n + 3,) + rest, junk)[2:2 + n]
    elif layout == "strided":
        v = t.new_full((2 * n + 1,) + rest, junk)[1::2]
    elif layout == "colslice" or (layout == "transposed" and t.dim() == 1):
        if t.dim() == 1:
            v = t.new_full((n + 1, 3), junk)[1:, 1]
        else:
            v = t.new_full(tuple(t.shape[:-1]) + (t.size(-1) + 2,), junk)[..., 1:-1]
    elif layout == "transposed":
        v = t.new_full((t.size(1), n) + tuple(t.shape[2:]), junk).transpose(0, 1)
    else:
        raise ValueError("unknown layout %r" % (layout,))
    assert v.shape == t.shape, (layout, v.shape, t.shape)
    v.copy_(t)
    return v


def feat_tensor(spec) -> torch.Tensor:
    T, F, rank = spec["T"], spec["F"], spec.get("rank", 2)
    base = spec.get("base", 0)
    # exact in float16/32/64 and in int64: multiples of 1/4 below 2**9
    t = (torch.arange(T * F, dtype=torch.float64).reshape(T, F) + base) / 4
    if rank == 1:
        t = t[:, 0] if F else t.sum(1)
    elif rank == 3:
        t = t.unsqueeze(-1)
    return with_layout(t.to(DTYPES[spec["dtype"]]), spec.get("layout"))


def ali_tensor(spec) -> torch.Tensor:
    vals, rank = spec["vals"], spec.get("rank", 1)
    t = torch.tensor(vals, dtype=torch.int64).reshape(len(vals))
    if rank == 0:
        t = t[0] if len(vals) else torch.tensor(0)
    elif rank == 2:
        t = t.unsqueeze(-1)
    return with_layout(t.to(DTYPES[spec["dtype"]]), spec.get("layout"))


def ref_tensor(spec) -> torch.Tensor:
    rows, dim, width = spec["rows"], spec.get("dim", 2), spec.get("width", 3)
    t = torch.tensor(rows, dtype=torch.int64).reshape(len(rows), 3)
    if dim == 1:
        t = t[:, 0]
    elif dim == 0:
        t = t[0, 0] if len(rows) else torch.tensor(0)
    else:
        if width < 3:
            t = t[:, :width]
        elif width > 3:
            t = torch.cat([t, torch.full((len(rows), width - 3), -1, dtype=torch.int64)], 1)
        if dim == 3:
            t = t.unsqueeze(-1)
    return with_layout(t.to(DTYPES[spec["dtype"]]), spec.get("layout"))


def _scratch_base():
    """Memory-backed scratch space when there is one (directory churn on the disk-backed /tmp costs ~25 ms
    per case here, 13x more); VERIF_SCRATCH overrides; None = tempfile's default."""
    base = os.environ.get("VERIF_SCRATCH")
    if base:
        return base
    if os.path.isdir("/dev/shm") and os.access("/dev/shm", os.W_OK | os.X_OK):
        return "/dev/shm"
    return None


@contextlib.contextmanager
def scratch_root():
    root = tempfile.mkdtemp(prefix="vf_", dir=_scratch_base())
    try:
        yield root
    finally:
        shutil.rmtree(root, ignore_errors=True)


@contextlib.contextmanager
def quiet():
    with warnings.catch_warnings():
        warnings.simplefilter("ignore")
        yield


def fname(case, uid):
    return case.get("prefix", "") + uid + case.get("suffix", ".pt")


def write_dir(data_dir, case):
    """Write the directory a C12 case describes.  Returns nothing; see ``read_dir``."""
    os.makedirs(os.path.join(data_dir, "feat"))
    if case.get("ali_dir", True):
        os.makedirs(os.path.join(data_dir, "ali"))
    if case.get("ref_dir", True):
        os.makedirs(os.path.join(data_dir, "ref"))
    for i, u in enumerate(case["utts"]):
        uid = u.get("id", "u%d" % i)
        fn = fname(case, uid)
        if u.get("feat") is not None:
            torch.save(feat_tensor(u["feat"]), os.path.join(data_dir, "feat", fn))
        if case.get("ali_dir", True) and u.get("ali") is not None:
            torch.save(ali_tensor(u["ali"]), os.path.join(data_dir, "ali", fn))
        if case.get("ref_dir", True) and u.get("ref") is not None:
            torch.save(ref_tensor(u["ref"]), os.path.join(data_dir, "ref", fn))
    if case.get("distract"):
        # files that do not carry the prefix/suffix must be invisible to the data set
        for sub in ("feat", "ali", "ref"):
            p = os.path.join(data_dir, sub)
            if os.path.isdir(p):
                with open(os.path.join(p, "notes.txt"), "w") as f:
                    f.write("not a tensor\n")
                if case.get("prefix"):
                    torch.save(torch.zeros(3), os.path.join(p, "zz" + "u0" + case.get("suffix", ".pt")))
                if case.get("suffix", ".pt") != ".pt":
                    torch.save(torch.zeros(3), os.path.join(p, case.get("prefix", "") + "u0.pt"))


def read_dir(data_dir, case):
    """Everything on disk: {"feat/<file>": stored tensor | {"bytes": n}} for every file below data_dir."""
    out = {}
    pre, suf = case.get("prefix", ""), case.get("suffix", ".pt")
    for sub in sorted(os.listdir(data_dir)):
        p = os.path.join(data_dir, sub)
        if not os.path.isdir(p):
            out[sub] = {"bytes": os.path.getsize(p)}
            continue
        for fn in sorted(os.listdir(p)):
            q = os.path.join(p, fn)
            if fn.startswith(pre) and fn.endswith(suf):
                out[sub + "/" + fn] = stored(torch.load(q))
            else:
                out[sub + "/" + fn] = {"bytes": os.path.getsize(q)}
    return out


def model_of(disk, case):
    """Oracle-side view of a directory listing: which utterances form the data set and their tensors.

    Documented discovery rule: an utterance belongs to the data set when a file
    ``<prefix><utt><suffix>`` exists in feat/ and in each of ali/, ref/ that *is present with at
    least one matching file* (a sub-directory without matching files counts as absent).
    Returns {"has_ali": bool, "has_ref": bool, "utts": {uid: {"feat":..,"ali":..|None,"ref":..|None}}}.
    """
    pre, suf = case.get("prefix", ""), case.get("suffix", ".pt")

    def ids(sub):
        out = {}
        for k, v in disk.items():
            if not k.startswith(sub + "/"):
                continue
            fn = k[len(sub) + 1:]
            if fn.startswith(pre) and fn.endswith(suf) and "dtype" in v:
                out[fn[len(pre):len(fn) - len(suf)]] = v
        return out

    feat, ali, ref = ids("feat"), ids("ali"), ids("ref")
    has_ali, has_ref = bool(ali), bool(ref)
    keep = set(feat)
    if has_ali:
        keep &= set(ali)
    if has_ref:
        keep &= set(ref)
    utts = {}
    for uid in sorted(keep):
        utts[uid] = {"feat": feat[uid], "ali": ali[uid] if has_ali else None, "ref": ref[uid] if has_ref else None}
    return {"has_ali": has_ali, "has_ref": has_ref, "utts": utts}


def apply_model(disk, case, model):
    """The listing ``disk`` with the data-set files replaced by the tensors of ``model``."""
    out = dict(disk)
    for uid, parts in model["utts"].items():
        fn = fname(case, uid)
        for sub in ("feat", "ali", "ref"):
            if parts.get(sub) is not None:
                out[sub + "/" + fn] = parts[sub]
    return out
