"""Shared helpers of C15 / C16 (training state controller).

* ``RefController``: pure-Python reference model of the control rules, written from the
  property statement with an *explicit* reference value (the validation metric at the epoch
  where the patience count was last reset) - no index arithmetic, no history look-ups.
* a tiny model / optimizer whose state encodes the epoch and depends on the learning rate,
* ``Session``: one training run driven epoch by epoch through the real controller,
* ``FaultInjector``: counts the file-system mutating calls made *by pydrobert.torch.training*
  (module attributes replaced by proxies for the duration of a ``with`` block, nothing global
  is touched) and kills the update before or after the k-th of them.
"""
from __future__ import annotations

import contextlib
import csv as _csv
import math
import os
import shutil
import tempfile
import warnings
from fractions import Fraction

import torch

from . import fakes

INF = float("inf")

FMTS = {
    # name: (model format, optimizer format, has epoch field)
    "default": ("model_{epoch:03d}.pt", "optim_{epoch:03d}.pt", True),
    "custom": ("m{epoch}.pt", "o-{epoch:05d}.pt", True),
    "subdir": ("ck/m_{epoch:02d}.pt", "ck/o_{epoch:02d}.pt", True),
    "noepoch": ("model.pt", "optim.pt", False),
    # other entries of the history in the names ("Entries from the state csv are used to format this string"),
    # model and optimizer in different directories
    "info": ("m_{epoch:03d}_lr{lr}.pt", "opt/o_{epoch:03d}_cd{es_patience_cd}_{rlr_patience_cd}.pt", True),
    # the same with format specifications (see ENABLE_INFO_SPEC_FMT in vf/props/c16.py)
    "info_spec": ("m_{epoch}_{lr:.3e}.pt", "o_{epoch}_{lr:.1e}_{val_met:.2e}.pt", True),
}
INFO_FMTS = ("info", "info_spec")


def representable5(x) -> bool:
    """True iff x survives the history file's 5 significant digits."""
    return float("%.4e" % x) == x


def num(x):
    """Metrics in a case are plain numbers or the strings "inf" / "-inf" / "nan" (JSON has no non-finite floats)."""
    return float(x) if isinstance(x, str) else x


def same_num(a, b) -> bool:
    a, b = num(a), num(b)
    if isinstance(a, float) and isinstance(b, float) and math.isnan(a) and math.isnan(b):
        return True
    return a == b


def canon_info(info) -> dict:
    """A history entry with NaN replaced by a token, so that entries compare with ``==`` (None = no such entry)."""
    if info is None:
        return None
    return {k: ("nan" if isinstance(v, float) and math.isnan(v) else v) for k, v in info.items()}


def lr0_of(cfg) -> float:
    if cfg["lr_mode"] == "param":
        return 10.0 ** cfg["lr_exp"]
    return 2.0 ** cfg["lr_exp"]


# ------------------------------------------------------------------ reference model


class RefController:
    """The rules of the statement, one explicit reference value per criterion.

    Early stopping: while the burn-in lasts nothing is counted (the count is held at full
    patience, the reference follows the metric). Afterwards an epoch *fails* when the metric
    does not undercut the reference by the threshold; ``patience`` consecutive failures stop
    training; a success resets the count and moves the reference to the current metric.
    Rate reduction: the same with burn-in and, after each firing, a cool-down during which
    nothing is counted; firing multiplies the rate by the factor unless the change is
    negligible (old - new <= 10**log10_epsilon).
    """

    def __init__(self, cfg, lr0):
        self.cfg = cfg
        self.epoch = 0
        self.es_resume = cfg["es_burn"]
        self.es_fails = 0
        self.es_ref = INF
        self.rlr_resume = cfg["rlr_burn"]
        self.rlr_fails = 0
        self.rlr_ref = INF
        self.lr = lr0
        self.es_fired = False
        self.rlr_fired = False     # criterion fired in the last update
        self.reduced = False       # ... and the rate was actually changed
        self.resets = 0            # number of genuine resets (a success after burn-in) so far
        self.fired_after_reset = False
        self.eps_boundary = False

    @staticmethod
    def _undercuts(ref, val, thr):
        return ref - val >= thr

    def update(self, val):
        c = self.cfg
        self.epoch += 1
        self.es_fired = self.rlr_fired = self.reduced = False
        # --- early stopping
        if self.es_resume > 0:
            self.es_resume -= 1
            self.es_ref = val
        elif c["es_thr"] > 0 and not self._undercuts(self.es_ref, val, c["es_thr"]):
            self.es_fails += 1
            if self.es_fails >= c["es_pat"]:
                self.es_fired = True
                if self.resets:
                    self.fired_after_reset = True
        else:
            if c["es_thr"] > 0:
                self.resets += 1
            self.es_fails = 0
            self.es_ref = val
        # --- learning rate
        if self.rlr_resume > 0:
            self.rlr_resume -= 1
            self.rlr_ref = val
        elif c["rlr_thr"] > 0 and not self._undercuts(self.rlr_ref, val, c["rlr_thr"]):
            self.rlr_fails += 1
            if self.rlr_fails >= c["rlr_pat"]:
                self.rlr_fired = True
                if self.resets:
                    self.fired_after_reset = True
                new = self.lr * c["factor"]
                if Fraction(self.lr) - Fraction(new) == Fraction(10) ** c["eps"]:
                    self.eps_boundary = True   # change exactly equal to epsilon: "not negligible" needs strictly more
                if Fraction(self.lr) - Fraction(new) > Fraction(10) ** c["eps"]:
                    self.lr = new
                    self.reduced = True
                self.rlr_fails = 0
                self.rlr_ref = val
                self.rlr_resume = c["rlr_cool"]
        else:
            if c["rlr_thr"] > 0:
                self.resets += 1
            self.rlr_fails = 0
            self.rlr_ref = val
        cont = True
        if c["num_epochs"] is not None and self.epoch >= c["num_epochs"]:
            cont = False
        if c["es_thr"] > 0 and self.es_fails >= c["es_pat"]:
            cont = False
        return cont

    def info(self):
        c = self.cfg
        return {
            "epoch": self.epoch,
            "es_resume_cd": self.es_resume,
            "es_patience_cd": c["es_pat"] - min(self.es_fails, c["es_pat"]),
            "rlr_resume_cd": self.rlr_resume,
            "rlr_patience_cd": c["rlr_pat"] - self.rlr_fails,
            "lr": self.lr,
        }


def ref_trajectory(cfg, vals):
    """(list of infos, list of cont, RefController) for a metric sequence, stopping at stop."""
    r = RefController(cfg, lr0_of(cfg))
    infos, conts = [], []
    for v in vals:
        cont = r.update(v)
        infos.append(r.info())
        conts.append(cont)
        if not cont:
            break
    return infos, conts, r


def best_epoch(vals):
    """Oracle for 'best epoch': lowest validation metric, earliest on ties (1-based; 0 if none)."""
    best, bv = 0, INF
    for i, v in enumerate(vals, 1):
        if v < bv:
            best, bv = i, v
    return best


# ------------------------------------------------------------------ model and optimizer


MODEL_KINDS = ("plain", "strided", "f64buf")


class Tiny(torch.nn.Module):
    """``tag`` is set to the epoch number before each update; ``w`` is trained by SGD with
    momentum, so it depends on every learning rate and on the restored optimizer state.

    Memory layouts / dtypes of the state (``kind``):

    * ``plain``: two float32 parameters owning their storage;
    * ``strided``: ``w`` is column 1 of a 2x3 tensor (stride 3, storage offset 1, non-contiguous) and ``tag`` is
      element 2 of a 4-vector (storage offset 2) - what a module holding views of one flat buffer has;
    * ``f64buf``: ``w`` is float64 and the module has two buffers that are state but not parameters: ``c`` (float64,
      1/3 - not representable in float32) and ``nsteps`` (int64, counts the training steps).
    """

    def __init__(self, kind="plain"):
        super().__init__()
        self.kind = kind
        if kind == "strided":
            self._w_base = torch.full((2, 3), -99.0)
            self._t_base = torch.full((4,), -98.0)
            self.w = torch.nn.Parameter(self._w_base[:, 1])
            self.tag = torch.nn.Parameter(self._t_base[2:3])
        elif kind == "f64buf":
            self.tag = torch.nn.Parameter(torch.zeros(1))
            self.w = torch.nn.Parameter(torch.zeros(2, dtype=torch.float64))
            self.register_buffer("c", torch.tensor([1.0 / 3.0], dtype=torch.float64))
            self.register_buffer("nsteps", torch.zeros((), dtype=torch.int64))
        else:
            self.tag = torch.nn.Parameter(torch.zeros(1))
            self.w = torch.nn.Parameter(torch.zeros(2))
        self.reset_parameters()

    def reset_parameters(self):
        with torch.no_grad():
            self.tag.zero_()
            self.w.zero_()
            if self.kind == "f64buf":
                self.c.fill_(1.0 / 3.0)
                self.nsteps.zero_()


def new_model_opt(cfg, scramble=0):
    m = Tiny(cfg.get("model", "plain"))
    if scramble:
        with torch.no_grad():
            m.tag.fill_(-7.0 - scramble)
            m.w.fill_(123.0 + scramble)
            if m.kind == "f64buf":
                m.c.fill_(9.0 + scramble)
                m.nsteps.fill_(-5 - scramble)
    lr0 = lr0_of(cfg)
    # with lr_mode == "param" the controller must overwrite this rate at epoch 0
    base = lr0 if cfg["lr_mode"] == "opt" else 0.375
    if cfg.get("groups", 1) == 2:
        groups = [{"params": [m.w]}, {"params": [m.tag], "lr": base * 2}]
    else:
        groups = [{"params": [m.w, m.tag]}]
    o = torch.optim.SGD(groups, lr=base, momentum=0.5)
    return m, o


def _g(x) -> float:
    """Gradient component derived from a metric: the metric itself on the small grid, else its binary mantissa
    (huge / tiny / non-finite metrics must not make the parameters overflow or become NaN)."""
    x = num(x)
    if not math.isfinite(x):
        return 0.25
    if abs(x) <= 16.0 and (x == 0.0 or abs(x) >= 2.0 ** -10):
        return float(x)
    return math.frexp(x)[0]


def train_step(m, o, epoch, train, val, salt=0):
    """``salt`` makes a repeated attempt at an epoch (after a crash) produce different parameters,
    as real training does; the metrics (hence the history) stay those of the case. The salt enters ``tag``, ``w``
    and the momentum buffer (in a very long history ``w`` can grow until a small salted step is rounded away)."""
    with torch.no_grad():
        m.tag.fill_(float(epoch) + 0.125 * salt)
        if m.kind == "f64buf":
            m.nsteps += 1
    m.tag.grad = None
    # from epoch 64 on the gradient alternates in sign, so that very long histories keep ``w`` bounded
    sign = -1.0 if (epoch >= 64 and epoch % 2) else 1.0
    m.w.grad = torch.tensor([sign * (_g(val) + 1.0 + 0.125 * salt), sign * (float(epoch % 64 if epoch >= 64 else epoch) - _g(train))],
                            dtype=m.w.dtype)
    o.step()


def snapshot(m, o):
    buf = o.state.get(m.w, {}).get("momentum_buffer")
    out = {
        "tag": m.tag.item(),
        "w": m.w.detach().tolist(),
        "buf": None if buf is None else buf.tolist(),
        "lrs": [g["lr"] for g in o.param_groups],
    }
    if m.kind == "f64buf":
        out["extra"] = [m.c.item(), int(m.nsteps.item())]
    return out


def model_part(snap) -> dict:
    """The part of a snapshot that ``load_model_for_epoch`` (model only) restores."""
    return {k: snap[k] for k in ("tag", "w", "extra") if k in snap}


_PARAMS_CACHE = {}
_PARAM_KEYS = ("num_epochs", "es_thr", "es_pat", "es_burn", "rlr_thr", "rlr_pat", "rlr_burn", "rlr_cool", "factor", "eps",
               "keep", "fmt", "lr_mode", "lr_exp")


def make_params(cfg):
    """The parameter object (never mutated by the controller) is built once per configuration."""
    key = tuple(cfg.get(k) for k in _PARAM_KEYS)
    p = _PARAMS_CACHE.get(key)
    if p is None:
        if len(_PARAMS_CACHE) > 64:
            _PARAMS_CACHE.clear()
        p = _PARAMS_CACHE[key] = _make_params(cfg)
    return p


def _make_params(cfg):
    from pydrobert.torch.training import TrainingStateParams

    mf, of, _ = FMTS[cfg.get("fmt", "default")]
    kw = dict(
        num_epochs=cfg["num_epochs"],
        early_stopping_threshold=cfg["es_thr"],
        early_stopping_patience=cfg["es_pat"],
        early_stopping_burnin=cfg["es_burn"],
        reduce_lr_threshold=cfg["rlr_thr"],
        reduce_lr_patience=cfg["rlr_pat"],
        reduce_lr_burnin=cfg["rlr_burn"],
        reduce_lr_cooldown=cfg["rlr_cool"],
        reduce_lr_factor=cfg["factor"],
        reduce_lr_log10_epsilon=cfg["eps"],
        keep_last_and_best_only=cfg.get("keep", True),
        saved_model_fmt=mf,
        saved_optimizer_fmt=of,
    )
    if cfg["lr_mode"] == "param":
        kw["log10_learning_rate"] = float(cfg["lr_exp"])
    return TrainingStateParams(**kw)


ENTRY_TYPES = {"int": int, "float": float, "str": str}


def make_controller(cfg, csv_path, state_dir, entries=()):
    """entries: list of [name, type name, fmt]."""
    from pydrobert.torch.training import TrainingStateController

    c = TrainingStateController(make_params(cfg), csv_path, state_dir, warn=False)
    for name, tname, fmt in entries:
        c.add_entry(name, ENTRY_TYPES[tname], fmt)
    return c


class Session:
    """One training run on (csv_path, state_dir); the controller can be discarded and rebuilt."""

    def __init__(self, cfg, root, use_csv=True, use_dir=True, entries=()):
        self.cfg = cfg
        self.root = root
        self.csv = os.path.join(root, "hist.csv") if use_csv else None
        self.sdir = os.path.join(root, "states") if use_dir else None
        self.entries = list(entries)
        self.ctl = None
        self.model = self.opt = None
        self.salt = 0

    def start(self, scramble=0):
        """What a training script does on start-up: build everything, load the last state."""
        self.ctl = make_controller(self.cfg, self.csv, self.sdir, self.entries)
        self.model, self.opt = new_model_opt(self.cfg, scramble)
        self.ctl.load_model_and_optimizer_for_epoch(self.model, self.opt)
        return self.ctl

    def rebuild_controller_only(self):
        self.ctl = make_controller(self.cfg, self.csv, self.sdir, self.entries)
        return self.ctl

    def epoch(self, train, val, /, explicit_epoch=False, **user):
        """One epoch of training and the controller's update. ``train`` / ``val`` as stored in the case (see
        :func:`num`); ``explicit_epoch`` passes the epoch number instead of letting the controller infer it."""
        e = self.ctl.get_last_epoch() + 1
        train_step(self.model, self.opt, e, train, val, self.salt)
        if explicit_epoch:
            return self.ctl.update_for_epoch(self.model, self.opt, num(train), num(val), e, **user)
        return self.ctl.update_for_epoch(self.model, self.opt, num(train), num(val), **user)

    def csv_bytes(self):
        if self.csv is None or not os.path.exists(self.csv):
            return None
        with open(self.csv, "rb") as f:
            return f.read()

    def files(self):
        out = []
        if self.sdir is None or not os.path.isdir(self.sdir):
            return out
        for d, _, fs in os.walk(self.sdir):
            for f in fs:
                out.append(os.path.relpath(os.path.join(d, f), self.sdir))
        return sorted(out)


def epoch_info(cfg, epoch) -> dict:
    """The history entry the statement's rules give for ``epoch`` of the case's history (reference model)."""
    r = RefController(cfg, lr0_of(cfg))
    for v in cfg["val"][:epoch]:
        r.update(num(v))
    return dict(r.info(), train_met=num(cfg["train"][epoch - 1]), val_met=num(cfg["val"][epoch - 1]))


def ckpt_names(cfg, epoch):
    fmt = cfg.get("fmt", "default")
    mf, of, _ = FMTS[fmt]
    info = epoch_info(cfg, epoch) if fmt in INFO_FMTS else {"epoch": epoch}
    return [os.path.normpath(mf.format(**info)), os.path.normpath(of.format(**info))]


# ------------------------------------------------------------------ long histories from a few integers

SIZES = (15, 16, 17, 31, 32, 33, 63, 64, 65, 127, 128, 129, 255, 256, 257, 1023, 1024, 1025, 2049)


def expand_ticks(n, start, segs, hi):
    """A metric history of ``n`` integer ticks in [0, hi], a pure function of its arguments.

    ``segs`` is a list of [mode, length, amp] used cyclically: 0 = improve by ``amp`` ticks per epoch, 1 = plateau,
    2 = worsen by ``amp`` per epoch, 3 = zig-zag (+amp, -amp, ...), 4 = one jump down by 8*amp then plateau,
    5 = one jump up by 8*amp then plateau.
    """
    out, t, i = [], int(start), 0
    while len(out) < n:
        mode, length, amp = segs[i % len(segs)]
        i += 1
        for j in range(max(1, length)):
            if len(out) >= n:
                break
            if mode == 0:
                t -= amp
            elif mode == 2:
                t += amp
            elif mode == 3:
                t += amp if j % 2 == 0 else -amp
            elif mode == 4 and j == 0:
                t -= 8 * amp
            elif mode == 5 and j == 0:
                t += 8 * amp
            t = min(hi, max(0, t))
            out.append(t)
    return out


def expand_history(cfg):
    """``val`` / ``train`` of a long-history case: cfg["n"] epochs from cfg["start"], cfg["segs"], cfg["q"] (tick size
    1/4 with ticks <= 3999, or 1 with ticks <= 99999: every value has at most 5 significant digits)."""
    q = cfg["q"]
    hi = 3999 if q == 0.25 else 99999
    ticks = expand_ticks(cfg["n"], cfg["start"], cfg["segs"], hi)
    val = [t * q for t in ticks]
    train = [((7 * i + cfg["start"]) % 33) / 4 for i in range(cfg["n"])]
    return val, train


@contextlib.contextmanager
def scratch():
    d = tempfile.mkdtemp(prefix="vf_")
    try:
        yield d
    finally:
        shutil.rmtree(d, ignore_errors=True)


@contextlib.contextmanager
def in_dir(path):
    """Run with ``path`` as working directory, so that a session rooted at "." sees the same
    path strings in every run (the controller iterates over a *set* of paths when cleaning up;
    with equal strings and PYTHONHASHSEED fixed by ./check the order is a function of the case)."""
    old = os.getcwd()
    os.chdir(path)
    try:
        yield
    finally:
        os.chdir(old)


@contextlib.contextmanager
def quiet():
    with warnings.catch_warnings():
        warnings.simplefilter("ignore")
        yield


# ------------------------------------------------------------------ crash injector


class Crash(BaseException):
    """The simulated death of the process (not an Exception: nothing may swallow it)."""


class _Proxy:
    def __init__(self, real, **over):
        self.__dict__["_real"] = real
        self.__dict__.update(over)

    def __getattr__(self, k):
        return getattr(self._real, k)


class FaultInjector:
    """Counts mutating file-system calls made from pydrobert.torch.training.

    Events, in call order: ``makedirs`` (detail says whether the directory was created),
    ``tmpfile`` (NamedTemporaryFile creates a file), ``save`` (torch.save writes it),
    ``replace`` (rename into place), ``open`` (the history file opened for appending; creates
    it if missing), ``writerow`` (header or row), ``remove`` (deletion of an old checkpoint).
    ``crash_at=k, when="before"|"after"`` raises :class:`Crash` around the k-th event.
    """

    def __init__(self, crash_at=None, when="before"):
        self.crash_at = crash_at
        self.when = when
        self.events = []
        self.crashed = False

    def _do(self, kind, detail, fn):
        idx = len(self.events)
        self.events.append([kind, detail])
        if idx == self.crash_at and self.when == "before":
            self.crashed = True
            raise Crash()
        r = fn()
        if idx == self.crash_at and self.when == "after":
            self.crashed = True
            raise Crash()
        return r

    @contextlib.contextmanager
    def installed(self):
        import pydrobert.torch.training as T

        inj = self

        def b(p):
            return os.path.basename(str(p))

        def replace(src, dst, *a, **k):
            return inj._do("replace", b(dst), lambda: os.replace(src, dst, *a, **k))

        def remove(p, *a, **k):
            return inj._do("remove", b(p), lambda: os.remove(p, *a, **k))

        def makedirs(p, *a, **k):
            detail = "exists" if os.path.isdir(p) else "creates"
            return inj._do("makedirs", detail, lambda: os.makedirs(p, *a, **k))

        def named_tmp(*a, **k):
            return inj._do("tmpfile", "", lambda: tempfile.NamedTemporaryFile(*a, **k))

        def save(obj, f, *a, **k):
            return inj._do("save", "", lambda: torch.save(obj, f, *a, **k))

        def open_(p, mode="r", *a, **k):
            if any(ch in mode for ch in "wax+"):
                detail = "exists" if os.path.exists(p) else "creates"
                return inj._do("open", detail, lambda: open(p, mode, *a, **k))
            return open(p, mode, *a, **k)

        class W:
            def __init__(self, w):
                self.w = w

            def writerow(self, row):
                kind = "header" if row and row[0] == "epoch" else "row"
                return inj._do("writerow", kind, lambda: self.w.writerow(row))

        def writer(f, *a, **k):
            return W(_csv.writer(f, *a, **k))

        with fakes.patched(
            T,
            os=_Proxy(os, replace=replace, remove=remove, makedirs=makedirs),
            tempfile=_Proxy(tempfile, NamedTemporaryFile=named_tmp),
            torch=_Proxy(torch, save=save),
            writer=writer,
            open=open_,
        ):
            yield self
