"""Memory layouts of one logical tensor (helper shared by the C06 / C18 / C20 checks).

``relayout(t, kind)`` returns a tensor with the shape, dtype and values of ``t`` that sits in memory
in a different way; the memory around the view is filled with junk (NaN for floating point, a
caller-chosen integer, alternating booleans) so that code which ignores strides or the storage
offset reads something visibly wrong.  Pure functions of their arguments.
"""
from __future__ import annotations

LAYOUTS = ["own", "offset", "col_slice", "transposed", "strided"]


def _junk_like(t, shape, junk):
    import torch

    if t.dtype.is_floating_point:
        return torch.full(shape, float("nan"), dtype=t.dtype)
    if t.dtype == torch.bool:
        n = 1
        for s in shape:
            n *= s
        return (torch.arange(n) % 2 == 0).reshape(shape)
    return torch.full(shape, junk, dtype=t.dtype)


def relayout(t, kind, k=1, junk=7):
    """own: contiguous, own storage; offset: rows k.. of a longer tensor (storage offset, contiguous);
    col_slice: columns k.. of a wider tensor (non-contiguous, storage offset); transposed: stored with
    the dimension order reversed and viewed back (non-contiguous); strided: every second entry along
    dim 0 of a tensor twice as long (non-contiguous)."""
    import torch

    t = t.contiguous()
    if kind == "own" or t.dim() == 0 or t.numel() == 0:
        return t
    if kind == "offset":
        shape = list(t.shape)
        shape[0] = k
        j = _junk_like(t, shape, junk)
        out = torch.cat([j, t, j], 0)[k:k + t.shape[0]]
    elif kind == "col_slice":
        shape = list(t.shape)
        shape[-1] = k
        j = _junk_like(t, shape, junk)
        out = torch.cat([j, t, j], -1)[..., k:k + t.shape[-1]]
    elif kind == "transposed":
        if t.dim() < 2:
            return relayout(t, "strided", k, junk)
        perm = list(range(t.dim()))[::-1]
        out = t.permute(perm).contiguous().permute(perm)
    elif kind == "strided":
        j = _junk_like(t, list(t.shape), junk)
        out = torch.stack([t, j], 1).reshape([2 * t.shape[0]] + list(t.shape[1:]))[::2]
    else:
        raise ValueError(kind)
    assert out.shape == t.shape and out.dtype == t.dtype
    return out


def describe(t):
    """Facts about a view, for class labels."""
    out = []
    if t.numel() and t.dim():
        if t.storage_offset():
            out.append("storage_offset")
        if not t.is_contiguous():
            out.append("non_contiguous")
        if 0 in [st for st, sz in zip(t.stride(), t.shape) if sz > 1]:
            out.append("stride_0")
    return out
