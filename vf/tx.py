"""Shared by C11 and C17: transcript generators (plain JSON), normalisers, reference
readers/writers for the text formats, scratch-directory and simulated-pool helpers.

Nothing here calls the functions under test.
"""
from __future__ import annotations

import contextlib
import os
import shutil
import tempfile
from decimal import ROUND_HALF_EVEN, Decimal

from hypothesis import strategies as st

from . import fakes

# ------------------------------------------------------------------ alphabets

_ASCII = [chr(c) for c in range(33, 127)]
_UNI = ["é", "ß", "λ", "中"]  # none of them is whitespace

TRN_DELIMS = set("{}/()")


def _alphabet(exclude, uni=True):
    return [c for c in _ASCII if c not in exclude] + (_UNI if uni else [])


def words(exclude, max_size=4, uni=True):
    """Non-empty strings without whitespace and without the characters in ``exclude``.

    Half of the draws come from a three-letter alphabet so that equal tokens occur."""
    full = _alphabet(exclude, uni)
    small = [c for c in "abc" if c not in exclude]
    return st.one_of(
        st.text(small, min_size=1, max_size=2),
        st.text(full, min_size=1, max_size=max_size),
    )


def words_with_inner_space(exclude, max_size=3):
    """Tokens with a non-ASCII space character strictly inside (NBSP, ideographic space, em space):
    not a delimiter of the trn format, which separates tokens by the ASCII blank only."""
    w = words(exclude, max_size=max_size, uni=False)
    return st.tuples(w, st.sampled_from(["\u00a0", "\u3000", "\u2003"]), w).map(lambda t: t[0] + t[1] + t[2])


FILE_ID_ALPHABET = list("abcdefghijklmnopqrstuvwxyzABCXYZ0123456789_-+=,.@%")


def file_ids(max_size=5):
    """Utterance ids usable as file names and free of every format's delimiters.

    No leading '.', no whitespace, no path separator, none of ``{}/();"``."""
    return st.text(FILE_ID_ALPHABET, min_size=1, max_size=max_size).filter(
        lambda s: not s.startswith(".") and not s.startswith("-"))


# ------------------------------------------------------------------ trn


def trn_transcript(tok, max_depth=3, max_items=5):
    """A transcript: list of items, item = token (str) or {"alt": [branch, ...]} with every
    branch a non-empty list of items; alternates nested to ``max_depth``."""

    def items(depth, lo, hi):
        if depth == 0:
            return st.lists(tok, min_size=lo, max_size=hi)
        alt = st.lists(items(depth - 1, 1, 3), min_size=1, max_size=3).map(lambda b: {"alt": b})
        return st.lists(st.one_of(tok, tok, tok, alt), min_size=lo, max_size=hi)

    return st.one_of(*[items(d, 0, max_items) for d in range(0, max_depth + 1)])


def trn_depth(items):
    d = 0
    for x in items:
        if isinstance(x, dict):
            d = max(d, 1 + max(trn_depth(b) for b in x["alt"]))
    return d


def trn_to_api(items, wrap, top=True):
    """The structure handed to write_trn: top-level alternates are wrapped in a 3-tuple
    ``(alts, start, end)`` with numeric placeholders, nested ones are bare lists of lists."""
    out = []
    for x in items:
        if isinstance(x, dict):
            alts = [trn_to_api(b, wrap, False) for b in x["alt"]]
            out.append((alts, wrap[0], wrap[1]) if top else alts)
        else:
            out.append(x)
    return out


def trn_expected(items, top=True):
    """What read_trn documents: alternates as ([[...], [...]], -1, -1) (JSON: lists)."""
    out = []
    for x in items:
        if isinstance(x, dict):
            alts = [trn_expected(b, False) for b in x["alt"]]
            out.append([alts, -1, -1] if top else alts)
        else:
            out.append(x)
    return out


def trn_first(items):
    """Resolve every alternate to its first branch, recursively (--alt-handler first)."""
    out = []
    for x in items:
        if isinstance(x, dict):
            out.extend(trn_first(x["alt"][0]))
        else:
            out.append(x)
    return out


def trn_reference_line(items, utt, pad):
    """Independent serialiser: sclite trn syntax with ``pad`` (a cyclic list of small
    non-negative integers) extra blanks between the syntactic elements."""
    pos = [0]

    def sp(minimum=1):
        n = minimum + pad[pos[0] % len(pad)]
        pos[0] += 1
        return " " * n

    def ser(seq):
        s = ""
        for x in seq:
            if isinstance(x, dict):
                s += "{" + sp()
                s += ("/" + sp()).join(ser(b) for b in x["alt"])
                s += "}" + sp()
            else:
                s += x + sp()
        return s

    return sp(0) + ser(items) + "(" + utt + ")" + sp(0)


def plain(x):
    """tuples -> lists, recursively (for comparison with JSON expectations)."""
    if isinstance(x, (list, tuple)):
        return [plain(v) for v in x]
    return x


# ------------------------------------------------------------------ decimals


def dec_round(t, p):
    """Value of ``t`` printed with ``p`` decimals (round-half-even on the exact binary
    value, which is what every correctly rounding formatter produces), as a Decimal."""
    return Decimal(t).quantize(Decimal(1).scaleb(-p), rounding=ROUND_HALF_EVEN)


def dec_str(t, p):
    d = dec_round(t, p)
    s = format(d, "f")
    if s.startswith("-") and d == 0:
        s = s[1:]
    return s


# ------------------------------------------------------------------ scratch dirs / pools


@contextlib.contextmanager
def scratch():
    d = tempfile.mkdtemp(prefix="vf_")
    try:
        yield d
    finally:
        shutil.rmtree(d, ignore_errors=True)


def write_text(path, text):
    with open(path, "w") as f:
        f.write(text)


def read_bytes(path):
    with open(path, "rb") as f:
        return f.read()


def dir_bytes(d):
    """{relative path: bytes} of every regular file below ``d``."""
    out = {}
    for root, _, files in os.walk(d):
        for fn in files:
            p = os.path.join(root, fn)
            out[os.path.relpath(p, d)] = read_bytes(p)
    return out


class InitPool(fakes.FakePool):
    """FakePool that honours Pool(processes, initializer, initargs) in-process."""


class InitContext:
    def __init__(self, order, log=None):
        self.order = order
        self.log = log if log is not None else []

    def Pool(self, processes=None, initializer=None, initargs=(), *a, **k):
        self.log.append(("Pool", processes))
        if initializer is not None:
            initializer(*initargs)
        return InitPool(self.order, self.log)


@contextlib.contextmanager
def simulated_pool(order, log=None):
    """torch.multiprocessing.get_context(...).Pool / torch.multiprocessing.Pool -> in-process
    pool whose completion order is ``order`` (see fakes.FakePool); the pool initializer
    is run in-process, as a real worker would run it."""
    import torch.multiprocessing as tmp

    ctx = InitContext(order, log)
    with fakes.patched(tmp, get_context=lambda *a, **k: ctx, Pool=ctx.Pool):
        yield ctx


def perm_of(order, n):
    keys = [(order[i % len(order)], i) for i in range(n)] if order else [(0, i) for i in range(n)]
    return [i for _, i in sorted(keys)]


# ------------------------------------------------------------------ deterministic expansion (size classes)

# sizes that straddle typical implementation thresholds (block sizes, chunk sizes, special long paths)
THRESHOLDS = [15, 16, 17, 31, 32, 33, 63, 64, 65, 127, 128, 129, 255, 256, 257, 1023, 1024, 1025, 2049]
THRESHOLDS_THOROUGH = THRESHOLDS + [4095, 4096, 4097, 8193]


def size_bucket(n):
    """Class label of a size: which threshold neighbourhood it lies in."""
    for lo, hi in ((15, 17), (31, 33), (63, 65), (127, 129), (255, 257), (1023, 1025)):
        if lo <= n <= hi:
            return "size_%d_%d" % (lo, hi)
    if n >= 2049:
        return "size_ge_2049"
    return "size_other"


def threshold_sizes(tier, cap=None):
    """A size drawn from the threshold list (4 in 5) or anywhere in 1..2100 (1 in 5)."""
    ths = [t for t in (THRESHOLDS_THOROUGH if tier == "thorough" else THRESHOLDS) if cap is None or t <= cap]
    return st.one_of(st.sampled_from(ths), st.sampled_from(ths), st.sampled_from(ths), st.sampled_from(ths),
                     st.integers(1, min(cap or 2100, 2100)))


class Lcg:
    """Tiny deterministic generator (64-bit LCG): the expansion of a case into a large input is a
    pure function of the integers stored in the case."""

    def __init__(self, seed):
        self.x = (int(seed) * 2654435761 + 12345) % (1 << 64)

    def next(self, n):
        self.x = (self.x * 6364136223846793005 + 1442695040888963407) % (1 << 64)
        return (self.x >> 33) % n

    def pick(self, seq):
        return seq[self.next(len(seq))]


UNI_SPACES = ["\u00a0", "\u3000", "\u2003", "\u1680", "\u202f", "\u205f", "\u2000"]
# boundaries of str.splitlines() that are neither "\n" nor "\r" nor blanks of the C locale: a text file is not
# split into lines at them
LINE_SEPS = ["\x85", "\u2028", "\u2029", "\x1c", "\x1d", "\x1e"]


def words_with_inner(chars, exclude, max_size=3):
    """Tokens with one of ``chars`` strictly inside (never first or last)."""
    w = words(exclude, max_size=max_size, uni=False)
    return st.tuples(w, st.sampled_from(list(chars)), w).map(lambda t: t[0] + t[1] + t[2])


def words_with_edge(chars, exclude, max_size=2):
    """Tokens that begin with, end with, or consist of one of ``chars``."""
    w = words(exclude, max_size=max_size, uni=False)
    c = st.sampled_from(list(chars))
    return st.one_of(st.tuples(c, w).map("".join), st.tuples(w, c).map("".join), c, st.tuples(c, w, c).map("".join))


# ------------------------------------------------------------------ memory layouts of tensors

LAYOUTS = ["own", "storage_offset", "row_slice", "col_slice", "transposed", "strided_rows"]


def as_layout(torch, t, layout, junk):
    """A tensor equal to ``t`` (at least 1-D) laid out as ``layout`` inside a larger tensor filled with ``junk``.
    Returns (view, base)."""
    if layout == "own" or t.numel() == 0:
        v = t.clone()
        return v, v
    if layout == "storage_offset":  # contiguous, but not at the start of its storage
        base = torch.full((t.numel() + 5,), junk, dtype=t.dtype)
        v = base[3:3 + t.numel()].view(t.shape)
    elif layout == "row_slice":  # rows k..k+R of a taller tensor
        base = torch.full((t.shape[0] + 3,) + tuple(t.shape[1:]), junk, dtype=t.dtype)
        v = base[2:2 + t.shape[0]]
    elif layout == "col_slice":  # columns of a wider tensor (1-D: one column of a matrix): strided rows, offset
        if t.ndim == 1:
            base = torch.full((t.shape[0], 3), junk, dtype=t.dtype)
            v = base[:, 1]
        else:
            base = torch.full((t.shape[0], t.shape[1] + 2), junk, dtype=t.dtype)
            v = base[:, 1:1 + t.shape[1]]
    elif layout == "transposed" and t.ndim == 2:  # column-major storage
        base = torch.full((t.shape[1], t.shape[0]), junk, dtype=t.dtype)
        v = base.t()
    else:  # every other row of a taller tensor
        base = torch.full((2 * t.shape[0] + 1,) + tuple(t.shape[1:]), junk, dtype=t.dtype)
        v = base[1::2]
    v.copy_(t)
    return v, base
