"""Memory layouts and deterministic expansions for the decoding properties (C04, C05, C07).

``relayout(t, kind)`` returns a tensor with the same shape, dtype and values as ``t`` but a
different memory layout; the surrounding storage is filled with garbage (NaN for floating
point, a large negative id for integers) so that code reading through a wrong offset or with
assumed-contiguous strides sees something that cannot pass for the data:

contiguous   own contiguous storage (storage offset 0)
offset       rows 1..-1 of a tensor with two extra leading rows/elements: contiguous strides, storage offset > 0
col_slice    columns 2..-1 of a tensor with three extra trailing columns: non-contiguous, storage offset 2
transposed   the dimensions are stored in reverse order and permuted back: non-contiguous, offset 0
strided      every second element (starting at 1) of a last dimension twice as long: stride 2, offset 1
"""
from __future__ import annotations

from . import core  # noqa: F401  (puts VERIF_REPO_SRC on sys.path before the library is imported)

import torch

LAYOUTS = ["contiguous", "offset", "col_slice", "transposed", "strided"]
# sampled_from lists: the first entry is what Hypothesis shrinks to
LAYOUT_CHOICES = ["contiguous", "offset", "transposed", "col_slice", "strided", "contiguous"]


def _garbage(dtype):
    if dtype.is_floating_point:
        return float("nan")
    if dtype == torch.bool:
        return True
    return -7777777


def relayout(t: "torch.Tensor", kind: str) -> "torch.Tensor":
    if kind == "contiguous" or t.dim() == 0:
        return t.clone()
    g = _garbage(t.dtype)
    shape = list(t.shape)
    if kind == "transposed" and t.dim() < 2:
        kind = "strided"
    if kind == "offset":
        big = torch.full([shape[0] + 2] + shape[1:], g, dtype=t.dtype)
        if t.dtype == torch.bool:
            big[0] = False
        big[1:-1] = t
        out = big[1:-1]
    elif kind == "col_slice":
        big = torch.full(shape[:-1] + [shape[-1] + 3], g, dtype=t.dtype)
        big[..., 2:-1] = t
        out = big[..., 2:-1]
    elif kind == "transposed":
        perm = list(range(t.dim()))[::-1]
        out = t.permute(perm).contiguous().permute(perm)
    elif kind == "strided":
        big = torch.full(shape[:-1] + [2 * shape[-1] + 1], g, dtype=t.dtype)
        big[..., 1::2] = t
        out = big[..., 1::2]
    else:
        raise ValueError(kind)
    assert out.shape == t.shape and out.dtype == t.dtype
    return out


def layout_classes(kinds):
    """Class labels for the layouts used in a case (one label per distinct non-default layout)."""
    return sorted({"layout_" + k for k in kinds if k and k != "contiguous"})


# ----------------------------------------------------------------------- sizes


THRESHOLDS = [15, 16, 17, 31, 32, 33, 63, 64, 65, 127, 128, 129, 255, 256, 257, 1023, 1024, 1025, 2049]


def thresholds(lo, hi):
    return [x for x in THRESHOLDS if lo <= x <= hi]


def size_class(prefix, n):
    """'<prefix>_ge_<threshold>' for the largest threshold family reached (16, 32, ..., 2048), or None."""
    for b in (2048, 1024, 256, 128, 64, 32, 16):
        if n >= b - 1:
            return "%s_about_%d" % (prefix, b)
    return None


def next_prime(n):
    def is_p(k):
        if k < 2:
            return False
        i = 2
        while i * i <= k:
            if k % i == 0:
                return False
            i += 1
        return True

    k = max(2, n)
    while not is_p(k):
        k += 1
    return k


def lcg_ints(seed, n, lo, hi):
    """n integers in [lo, hi], a pure function of (seed, n, lo, hi) (64-bit LCG, high bits)."""
    out = []
    x = (int(seed) * 6364136223846793005 + 1442695040888963407) % (1 << 64)
    span = hi - lo + 1
    for _ in range(n):
        x = (x * 6364136223846793005 + 1442695040888963407) % (1 << 64)
        out.append(lo + ((x >> 33) % span))
    return out


def np_mix(seed, *index_arrays):
    """Vectorised 64-bit mixing (splitmix64 finaliser) of broadcastable integer index arrays and a seed:
    a pure function of its arguments, returned as non-negative int64 (63 bits)."""
    import numpy as np

    with np.errstate(over="ignore"):
        x = np.uint64(int(seed) % (1 << 64)) * np.uint64(0x9E3779B97F4A7C15) + np.uint64(0x632BE59BD9B4E019)
        mults = [0xBF58476D1CE4E5B9, 0x94D049BB133111EB, 0xD6E8FEB86659FD93, 0xA0761D6478BD642F]
        for k, a in enumerate(index_arrays):
            x = x + (np.asarray(a).astype(np.uint64) + np.uint64(k + 1)) * np.uint64(mults[k % 4])
            x = x ^ (x >> np.uint64(30))
            x = x * np.uint64(0xBF58476D1CE4E5B9)
            x = x ^ (x >> np.uint64(27))
            x = x * np.uint64(0x94D049BB133111EB)
            x = x ^ (x >> np.uint64(31))
    return (x >> np.uint64(1)).astype(np.int64)


def threshold_sizes(lo, hi, extra=()):
    """Strategy: a size next to an implementation threshold, each threshold family (16, 32, 64, 128, 256, 1024, 2048)
    within [lo, hi] equally likely (then the value b-1 / b / b+1; only 2049 for the last family), plus `extra` values as
    families of their own."""
    from hypothesis import strategies as st

    fams = []
    for b in (16, 32, 64, 128, 256, 1024):
        vals = [v for v in (b, b + 1, b - 1) if lo <= v <= hi]
        if vals:
            fams.append(vals)
    if lo <= 2049 <= hi:
        fams.append([2049])
    for e in extra:
        fams.append([e])
    # large families first would make Hypothesis shrink towards them; keep the small ones first
    return st.sampled_from(list(range(len(fams)))).flatmap(lambda i: st.sampled_from(fams[i]))
