"""Reference computations for C18 (no import of the library under test).

* pooled mean / standard deviation with exact rational arithmetic
* delta features: explicit padding by index arithmetic + the regression formula, in float64 loops
* discounted returns: backward recursion in float64
"""
from __future__ import annotations

import math
from fractions import Fraction

import numpy as np


# ------------------------------------------------------------------ statistics


class Pool:
    """Exact running statistics of frames whose coefficients are integers / q."""

    def __init__(self, X, q):
        self.X, self.q = X, q
        self.n = 0
        self.s = [0] * X
        self.ss = [0] * X

    def add_frames(self, frames):
        """frames: iterable of length-X integer lists (numerators)."""
        for f in frames:
            self.n += 1
            for i, k in enumerate(f):
                self.s[i] += k
                self.ss[i] += k * k

    def mean(self):
        return [Fraction(s, self.q * self.n) for s in self.s]

    def meansq(self):
        return [Fraction(ss, self.q * self.q * self.n) for ss in self.ss]

    def var(self, bessel=False):
        m, m2 = self.mean(), self.meansq()
        v = [b - a * a for a, b in zip(m, m2)]
        if bessel:
            v = [x * Fraction(self.n, self.n - 1) for x in v]
        return v


def frames_of(arr, dim):
    """arr: integer ndarray; returns list of length-X lists, one per frame (all other indices)."""
    a = np.moveaxis(arr, dim, -1).reshape(-1, arr.shape[dim])
    return a.tolist()


def sqrt_fraction(v: Fraction) -> float:
    """float(sqrt(v)) to within 1 ulp or so (v >= 0)."""
    if v == 0:
        return 0.0
    # scale to keep precision: sqrt(p/q) = sqrt(p*q)/q
    p, q = v.numerator, v.denominator
    r = math.isqrt(p * q * (1 << 120))
    return r / (q * float(1 << 60))


# ------------------------------------------------------------------ deltas


def pad_index(j, T, mode):
    """Source index (or None for a constant) of position j in [-P, T+P) of the padded signal."""
    if 0 <= j < T:
        return j
    if mode == "constant":
        return None
    if mode == "replicate":
        return 0 if j < 0 else T - 1
    if mode == "reflect":  # edge value not repeated
        if j < 0:
            return -j
        return 2 * (T - 1) - j
    if mode == "circular":
        return j % T
    raise ValueError(mode)


def deltas_1d(x, order, width, mode, value):
    """x: 1-D float64 array of length T. Returns (d, a): d[u][t] the u-th order delta at time t for
    t in [0, T), and a[u][t] the same recursion on absolute values (a bound used to scale tolerances)."""
    T = len(x)
    P = order * width
    ext = np.empty(T + 2 * P, dtype=np.float64)
    for j in range(-P, T + P):
        src = pad_index(j, T, mode)
        ext[j + P] = value if src is None else x[src]
    denom = float(sum(w * w for w in range(-width, width + 1)))
    cur, cur_abs, off = ext, np.abs(ext), P  # cur[i] is the value at time i - off
    ds = [cur[off:off + T].copy()]
    das = [cur_abs[off:off + T].copy()]
    for u in range(1, order + 1):
        L = len(cur) - 2 * width
        nxt = np.zeros(L, dtype=np.float64)
        nxt_abs = np.zeros(L, dtype=np.float64)
        for i in range(L):
            acc = 0.0
            acc_abs = 0.0
            for w in range(-width, width + 1):
                acc += w * cur[i + width + w]
                acc_abs += abs(w) * cur_abs[i + width + w]
            nxt[i] = acc / denom
            nxt_abs[i] = acc_abs / denom
        cur, cur_abs, off = nxt, nxt_abs, off - width
        ds.append(cur[off:off + T].copy())
        das.append(cur_abs[off:off + T].copy())
    return ds, das


def deltas_nd(x, time_dim, order, width, mode, value):
    """x: float64 ndarray. Returns (D, A) with shape (order+1,) + x.shape."""
    xm = np.moveaxis(x, time_dim, -1)
    out = np.empty((order + 1,) + xm.shape, dtype=np.float64)
    out_abs = np.empty_like(out)
    for index in np.ndindex(*xm.shape[:-1]):
        ds, das = deltas_1d(xm[index], order, width, mode, value)
        for u in range(order + 1):
            out[(u,) + index] = ds[u]
            out_abs[(u,) + index] = das[u]
    # put time back
    out = np.moveaxis(out, -1, time_dim + 1)
    out_abs = np.moveaxis(out_abs, -1, time_dim + 1)
    return out, out_abs


def layout(D, dim, concatenate):
    """D: (order+1,) + shape. Lay the order axis out at `dim` (non-negative) by stacking or concatenation."""
    parts = [D[u] for u in range(D.shape[0])]
    if concatenate:
        return np.concatenate(parts, axis=dim)
    return np.stack(parts, axis=dim)


# ------------------------------------------------------------------ returns


def returns(r, gamma):
    """r: list (T) of lists (N) of floats, time first. Returns (R, S): R_t = r_t + gamma R_{t+1} and
    S_t = |r_t| + |gamma| S_{t+1} (scale for tolerances), both T x N in float64 (math.fsum-free, plain)."""
    T = len(r)
    N = len(r[0]) if T else 0
    R = [[0.0] * N for _ in range(T)]
    S = [[0.0] * N for _ in range(T)]
    for n in range(N):
        nxt = 0.0
        nxt_abs = 0.0
        for t in range(T - 1, -1, -1):
            nxt = r[t][n] + gamma * nxt
            nxt_abs = abs(r[t][n]) + abs(gamma) * nxt_abs
            R[t][n] = nxt
            S[t][n] = nxt_abs
    return R, S
