"""NumPy (float64) reference for soft attention (C20).  Does not import the library under test.

Shapes follow the documentation: query (A*, Q), key (B*, T, C*, K), value (B*, T, C*, D), mask
(B*, T, C*); ``p`` is the non-negative index of the sequence axis T in key.
"""
from __future__ import annotations

import numpy as np


def score(flavour, params, q, k, p):
    qe = np.expand_dims(q, p)
    if flavour == "dot":
        return params["scale"] * (qe * k).sum(-1)
    if flavour == "general":
        wk = k @ params["weight"].T
        if params.get("bias") is not None:
            wk = wk + params["bias"]
        return (qe * wk).sum(-1)
    if flavour == "concat":
        shape = np.broadcast_shapes(qe.shape[:-1], k.shape[:-1])
        cat = np.concatenate([np.broadcast_to(qe, shape + qe.shape[-1:]), np.broadcast_to(k, shape + k.shape[-1:])], -1)
        h = cat @ params["weight"].T
        if params.get("bias") is not None:
            h = h + params["bias"]
        return np.tanh(h) @ params["v"]
    raise ValueError(flavour)


def attend(e, m, v, p):
    """Masked softmax of e along p, then the weighted sum of v.  Returns (out, weights)."""
    shape = np.broadcast_shapes(e.shape, v.shape[:-1], m.shape if m is not None else ())
    e = np.broadcast_to(e, shape).astype(np.float64)
    if m is not None:
        e = np.where(np.broadcast_to(m, shape), e, -np.inf)
    mx = e.max(axis=p, keepdims=True)
    w = np.exp(e - mx)
    w = w / w.sum(axis=p, keepdims=True)
    out = (w[..., None] * np.broadcast_to(v, shape + v.shape[-1:])).sum(axis=p)
    return out, w


def single_head(flavour, params, q, k, v, m, p):
    e = score(flavour, params, q, k, p)
    return attend(e, m, v, p)[0]


def kept_bounds(v, m, e_shape, p):
    """Per output coordinate: smallest and largest value among the kept positions."""
    shape = np.broadcast_shapes(e_shape, v.shape[:-1], m.shape if m is not None else ())
    vf = np.broadcast_to(v, shape + v.shape[-1:]).astype(np.float64)
    if m is None:
        return vf.min(axis=p), vf.max(axis=p)
    mf = np.broadcast_to(m, shape)[..., None]
    lo = np.where(mf, vf, np.inf).min(axis=p)
    hi = np.where(mf, vf, -np.inf).max(axis=p)
    return lo, hi


def dropped_everywhere(m, own_shape, e_shape):
    """For a key/value whose shape without the feature axis is ``own_shape`` (same rank as e): True
    where the entry is masked for every output it takes part in."""
    own_shape = tuple(own_shape)
    shape = np.broadcast_shapes(tuple(e_shape), own_shape, m.shape)
    dropped = ~np.broadcast_to(m, shape)
    axes = tuple(i for i in range(len(shape)) if own_shape[i] == 1 and shape[i] != 1)
    if axes:
        dropped = dropped.all(axis=axes, keepdims=True)
    assert dropped.shape == own_shape
    return dropped


def multi_head(inner_flavour, inner_params, W, q, k, v, m, p, H):
    """W: dict with WQ, WK, WV, WC weight matrices (out, in) and bQ, bK, bV, bC (or None)."""

    def lin(x, w, b):
        y = x @ w.T
        return y if b is None else y + b

    qh = lin(q, W["WQ"], W["bQ"])
    kh = lin(k, W["WK"], W["bK"])
    vh = lin(v, W["WV"], W["bV"])
    qh = qh.reshape(qh.shape[:-1] + (H, qh.shape[-1] // H))
    kh = kh.reshape(kh.shape[:-1] + (H, kh.shape[-1] // H))
    vh = vh.reshape(vh.shape[:-1] + (H, vh.shape[-1] // H))
    mh = None if m is None else m[..., None]
    heads = single_head(inner_flavour, inner_params, qh, kh, vh, mh, p)  # (E*, H, d_v)
    cat = heads.reshape(heads.shape[:-2] + (heads.shape[-2] * heads.shape[-1],))
    return lin(cat, W["WC"], W["bC"])
