"""Reference arithmetic for C19: enumerable sample spaces, exact expectations and their exact
gradients in pure Python (float64 ``math``), independent of torch.distributions and of the
estimators under test.

A *space* describes B independent problems (the batch dimension of the proposal), each over
the same finite sample space S:

  bern_joint  n binary variables seen jointly by f   (Independent(Bernoulli(logits[B, n]), 1))
  bern_batch  one binary variable                     (Bernoulli(logits[B]))
  cat_index   one categorical, samples are indices    (Categorical(logits[B, V]))
  cat_onehot  one categorical, samples are one-hot    (OneHotCategorical(logits[B, V]))

Functions are tables ``tab[b][s]`` over S (so every function is reachable).
"""
from __future__ import annotations

import itertools
import math


def sigmoid(x):
    if x >= 0:
        return 1.0 / (1.0 + math.exp(-x))
    e = math.exp(x)
    return e / (1.0 + e)


def softmax(xs):
    m = max(xs)
    es = [math.exp(x - m) for x in xs]
    z = sum(es)
    return [e / z for e in es]


def space_points(kind, size):
    """List of the points of S; a point is a tuple of ints (bits, or a single category)."""
    if kind == "bern_joint":
        # index = sum_i bit_i * 2**i
        return [tuple((s >> i) & 1 for i in range(size)) for s in range(2 ** size)]
    if kind == "bern_batch":
        return [(0,), (1,)]
    return [(v,) for v in range(size)]


def point_probs(kind, size, logits_b):
    """P(s) for every point of S under the parameters of one batch element (float64)."""
    pts = space_points(kind, size)
    if kind in ("bern_joint", "bern_batch"):
        xs = list(logits_b if kind == "bern_joint" else [logits_b])
        ps = [sigmoid(x) for x in xs]
        qs = [sigmoid(-x) for x in xs]  # 1 - sigmoid(x) without the cancellation (logits of magnitude 40 and more)
        out = []
        for pt in pts:
            p = 1.0
            for bit, q1, q0 in zip(pt, ps, qs):
                p *= q1 if bit else q0
            out.append(p)
        return out
    return softmax(logits_b)


def expectation(kind, size, logits_b, values):
    """sum_s P(s) values[s]"""
    return sum(p * v for p, v in zip(point_probs(kind, size, logits_b), values))


def expectation_grad(kind, size, logits_b, values):
    """Exact gradient of ``expectation`` with respect to the logits of this batch element.

    Bernoulli: d/dtheta_i = sum_s values[s] P(s) (s_i - p_i);
    softmax:   d/dtheta_k = p_k (values[k] - E)."""
    probs = point_probs(kind, size, logits_b)
    pts = space_points(kind, size)
    if kind in ("bern_joint", "bern_batch"):
        th = logits_b if kind == "bern_joint" else [logits_b]
        ps = [sigmoid(x) for x in th]
        g = []
        for i in range(len(th)):
            g.append(sum(v * p * (pt[i] - ps[i]) for v, p, pt in zip(values, probs, pts)))
        return g if kind == "bern_joint" else g[0]
    e = sum(p * v for p, v in zip(probs, values))
    return [probs[k] * (values[k] - e) for k in range(size)]


def tuples(nspace, mc):
    """All mc-tuples of indices into S."""
    return list(itertools.product(range(nspace), repeat=mc))


# ------------------------------------------------------------------ relaxations (docstring formulas)


def logistic_z(theta, u):
    return theta + math.log(u) - math.log1p(-u)


def logistic_zcond(p, b, v):
    """Conditional relaxed sample of the docstring of LogisticBernoulli."""
    if b:
        return math.log(v / ((1.0 - v) * (1.0 - p)) + 1.0)
    return -math.log(v / ((1.0 - v) * p) + 1.0)


def second_derivative_bound(g, cells=2048):
    """max |g''| over (0, 1) estimated by central second differences on a fine grid (float64)."""
    h = 1.0 / cells
    best = 0.0
    prev2, prev1 = g(0.5 * h), g(1.5 * h)
    for i in range(2, cells):
        cur = g((i + 0.5) * h)
        d2 = abs(cur - 2.0 * prev1 + prev2) / (h * h)
        if d2 > best:
            best = d2
        prev2, prev1 = prev1, cur
    return best
