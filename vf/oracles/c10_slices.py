"""Reference implementations for C10, written from the documentation of SliceSpectData and
ChunkTokenSequencesBySlices one sequence at a time with plain loops.

Windows are triples (source, start, end).  Where the documentation leaves a boundary case
open the functions return a third verdict ("either") instead of guessing; ``match_optional``
then accepts both readings.
"""
from __future__ import annotations

KEEP, DROP, EITHER = "keep", "drop", "either"


# ------------------------------------------------------------------ policy "fixed"


def fixed_windows(length, window_type, valid_only, lobe):
    """Windows of one sequence of this length (list of (start, end))."""
    shift = lobe + 1
    size = 2 * lobe + 1 if window_type == "symmetric" else lobe + 1
    out = []
    if length <= 0:
        return out
    if valid_only:
        # "slices start at index 0 and as many slices as can be fit fully within the sequences"
        start = 0
        while start + size <= length:
            out.append((start, start + size))
            start += shift
        return out
    if window_type == "symmetric":
        start = (lobe + 1) // 2 - size // 2
        mid_of = lambda s: s + size // 2  # noqa: E731
    elif window_type == "causal":
        start = -lobe
        mid_of = lambda s: s + size - 1  # noqa: E731
    else:
        start = 0
        mid_of = lambda s: s  # noqa: E731
    # "slices are kept if their middle index lies before the end of the sequence"
    while mid_of(start) < length:
        out.append((start, start + size))
        start += shift
    return out


# ------------------------------------------------------------------ policy "ali"


def runs(seq):
    """Maximal runs of equal labels: a segment starts at t == 0 or where seq[t-1] != seq[t]."""
    out = []
    t0 = 0
    for t in range(1, len(seq) + 1):
        if t == len(seq) or seq[t] != seq[t - 1]:
            out.append((t0, t))
            t0 = t
    return out if len(seq) else []


def ali_windows(seq, window_type, valid_only, lobe):
    segs = runs(seq)
    M = len(segs)
    left = window_type in ("symmetric", "causal")
    right = window_type in ("symmetric", "future")
    out = []
    for m in range(M):
        lo = m - lobe if left else m
        hi = m + lobe if right else m
        if lo < 0 or hi > M - 1:
            if valid_only:
                continue  # "the slice is thrown out"
            lo, hi = max(lo, 0), min(hi, M - 1)  # "the furthest segment ... which also exists"
        out.append((segs[lo][0], segs[hi][1]))
    return out


# ------------------------------------------------------------------ policy "ref"


def ref_windows(triples, other_len, window_type, valid_only, lobe):
    """[(verdict, start, end)] for the counted triples of one sequence, in order.

    other_len None = no length known: the two conditions that mention it are not applied."""
    left = window_type in ("symmetric", "causal")
    right = window_type in ("symmetric", "future")
    out = []
    for _, s, e in triples:
        if s < 0 or e < 0:
            continue  # missing segment information
        if left:
            s -= lobe
        if right:
            e += lobe
        if s >= e:
            continue  # no empty or invalid slices
        verdict = KEEP
        if valid_only:
            if s < 0 or (other_len is not None and e > other_len):
                continue
        else:
            if e <= 0:
                continue
            if other_len is not None:
                if s > other_len:
                    continue
                if s == other_len:
                    # "the padded start begins after other_lens": the documentation does not say
                    # whether a window that begins exactly at the end counts as after it
                    verdict = EITHER
        out.append((verdict, s, e))
    return out


# ------------------------------------------------------------------ token chunking


def token_verdict(s, e, a, b, partial):
    """Is the token with segment [s, e) kept by the slice [a, b)?"""
    if s < 0 or e < 0:
        return DROP  # missing boundary: automatically excluded
    if e < s:
        # an inverted segment is not a segment; nothing is documented about it.  It can only be
        # kept if the naive comparison would keep it.
        naive = (a < e and b > s) if partial else (a <= s and b >= e)
        return EITHER if naive else DROP
    contained = a <= s and e <= b
    if not partial:
        return KEEP if contained else DROP
    # partial: "slice_start < ref_end and slice_end > ref_start"
    naive = a < e and b > s
    if s < e and a < b:
        return KEEP if naive else DROP
    # degenerate: an empty segment and / or an empty or inverted slice.  "Overlap" is not defined for
    # them; a token that is contained AND passes the overlap test is kept under every reading, one that
    # fails both is dropped under every reading, anything else is left open.
    if naive and contained:
        return KEEP
    if not naive and not contained:
        return DROP
    return EITHER


def match_optional(items, observed):
    """items: [(verdict, value)], observed: list of values.  True iff observed is obtained from
    items by keeping every KEEP, dropping every DROP and any subset of the EITHERs, in order."""
    items = [(v, x) for v, x in items if v != DROP]
    m = len(observed)
    # reach = the set of j such that the items consumed so far can produce observed[:j]
    # (kept sparse: its size is at most the number of EITHER items + 1, so long lists stay cheap)
    reach = {0}
    for v, x in items:
        new = set()
        for j in reach:
            if j < m and observed[j] == x:
                new.add(j + 1)
            if v == EITHER:
                new.add(j)
        if not new:
            return False
        reach = new
    return m in reach
