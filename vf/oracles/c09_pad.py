"""Reference implementations for C09: one sequence at a time, NumPy padding, Python slicing.

Nothing here looks at the library: a row of the batch is cut to its length, padded with
``numpy.pad`` (constant / reflect / edge) and sliced with ordinary Python slicing.
"""
from __future__ import annotations

import numpy as np

NP_MODE = {"constant": "constant", "reflect": "reflect", "replicate": "edge"}
NP_DTYPE = {"float32": np.float32, "float64": np.float64, "int64": np.int64, "int32": np.int32}


def make_x(N, T, trail, base=1, dtype="float32"):
    """Distinct entries: x[n, t, ...] = base + flat index (float64: plus 2^-30, so that the values are not
    representable in float32; every dtype holds them exactly)."""
    shape = (N, T) + tuple(trail)
    n = int(np.prod(shape)) if shape else 1
    x = np.arange(base, base + n, dtype=np.int64).reshape(shape)
    x = x.astype(NP_DTYPE[dtype])
    if dtype == "float64":
        x = x + 2.0 ** -30
    return x


def pad_row(seq, l, r, mode, value):
    """numpy.pad along axis 0 of one sequence (shape (len, *))."""
    width = [(int(l), int(r))] + [(0, 0)] * (seq.ndim - 1)
    if mode == "constant":
        return np.pad(seq, width, mode="constant", constant_values=value)
    if l == 0 and r == 0:
        return seq.copy()
    return np.pad(seq, width, mode=NP_MODE[mode])


def pad_legal(mode, length, l, r):
    """Is (l, r) a legal pad of a sequence of this length in this mode (documented domain)?"""
    if mode == "reflect":
        return l < length and r < length
    if mode == "replicate":
        return length >= 1
    return True


def slice_pads(start, end, length):
    """Pad amounts needed so that [start, end) lies inside the padded sequence.

    Empty and inverted slices need nothing (their result is the empty sequence)."""
    if end - start <= 0:
        return 0, 0
    return max(-start, 0), max(end - length, 0)


def chunk_row(seq, start, end, mode, value):
    """Expected chunk of one sequence: pad what the slice needs, then slice."""
    length = seq.shape[0]
    n = max(end - start, 0)
    if n == 0:
        return seq[:0].copy()
    l, r = slice_pads(start, end, length)
    padded = pad_row(seq, l, r, mode, value)
    out = padded[start + l:end + l]
    assert out.shape[0] == n, (out.shape, n)
    return out


def compact_row(seq, mask, padding_value):
    """Selected elements in order, then the padding value; returns (row, count)."""
    out = np.full_like(seq, padding_value)
    j = 0
    for i in range(seq.shape[0]):
        if mask[i]:
            out[j] = seq[i]
            j += 1
    return out, j
