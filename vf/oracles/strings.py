"""Scalar reference implementations for C01-C03 (pure Python, one pair at a time)."""
from __future__ import annotations

import itertools
from typing import List, Optional, Sequence, Tuple

INF = float("inf")


def counted_len(tokens: Sequence[int], eos: Optional[int], include_eos: bool) -> int:
    """Number of counted tokens: up to the first eos (+1 if it is counted and present)."""
    if eos is None:
        return len(tokens)
    for i, t in enumerate(tokens):
        if t == eos:
            return i + (1 if include_eos else 0)
    return len(tokens)


def wf_table(ref: Sequence[int], hyp: Sequence[int], ins: float, dele: float, sub: float) -> List[List[float]]:
    """Wagner-Fischer: D[i][j] = min cost of turning ref[:i] into hyp[:j]."""
    R, H = len(ref), len(hyp)
    D = [[0.0] * (H + 1) for _ in range(R + 1)]
    for i in range(1, R + 1):
        D[i][0] = D[i - 1][0] + dele
    for j in range(1, H + 1):
        D[0][j] = D[0][j - 1] + ins
    for i in range(1, R + 1):
        for j in range(1, H + 1):
            best = D[i - 1][j - 1] + (0.0 if ref[i - 1] == hyp[j - 1] else sub)
            best = min(best, D[i - 1][j] + dele, D[i][j - 1] + ins)
            D[i][j] = best
    return D


def wf_count_table(ref, hyp, ins, dele, sub):
    """Lexicographic DP: per cell (min cost, fewest edits, most edits) over ALL alignments
    achieving the minimal cost. Ties are decided by exact float equality: callers use
    dyadic costs so that sums are exact."""
    R, H = len(ref), len(hyp)
    C = [[None] * (H + 1) for _ in range(R + 1)]
    C[0][0] = (0.0, 0, 0)
    for i in range(1, R + 1):
        c, lo, hi = C[i - 1][0]
        C[i][0] = (c + dele, lo + 1, hi + 1)
    for j in range(1, H + 1):
        c, lo, hi = C[0][j - 1]
        C[0][j] = (c + ins, lo + 1, hi + 1)
    for i in range(1, R + 1):
        for j in range(1, H + 1):
            opts = []
            c, lo, hi = C[i - 1][j - 1]
            if ref[i - 1] == hyp[j - 1]:
                opts.append((c, lo, hi))
            else:
                opts.append((c + sub, lo + 1, hi + 1))
            c, lo, hi = C[i - 1][j]
            opts.append((c + dele, lo + 1, hi + 1))
            c, lo, hi = C[i][j - 1]
            opts.append((c + ins, lo + 1, hi + 1))
            m = min(o[0] for o in opts)
            best = [o for o in opts if o[0] == m]
            C[i][j] = (m, min(o[1] for o in best), max(o[2] for o in best))
    return C


def unit_levenshtein(ref, hyp) -> int:
    """Independent textbook two-row implementation with unit costs."""
    prev = list(range(len(hyp) + 1))
    for i, r in enumerate(ref, 1):
        cur = [i] + [0] * len(hyp)
        for j, h in enumerate(hyp, 1):
            cur[j] = min(prev[j] + 1, cur[j - 1] + 1, prev[j - 1] + (r != h))
        prev = cur
    return prev[len(hyp)]


def brute_edit_distance(ref, hyp, ins, dele, sub) -> float:
    """Exponential recursion straight from the definition (tiny inputs only)."""
    from functools import lru_cache

    ref, hyp = tuple(ref), tuple(hyp)

    @lru_cache(maxsize=None)
    def go(i, j):
        if i == len(ref):
            return (len(hyp) - j) * ins
        if j == len(hyp):
            return (len(ref) - i) * dele
        a = go(i + 1, j + 1) + (0.0 if ref[i] == hyp[j] else sub)
        b = go(i + 1, j) + dele
        c = go(i, j + 1) + ins
        return min(a, b, c)

    return go(0, 0)


# ------------------------------------------------------------------ optimal completion


def oc_targets_dp(ref, prefix, ins, dele, sub) -> List[int]:
    """Targets by the DP lemma: ref[j] for j < r with D[j][|p|] minimal over j in 0..r."""
    D = wf_table(ref, prefix, ins, dele, sub)
    k = len(prefix)
    col = [D[j][k] for j in range(len(ref) + 1)]
    m = min(col)
    return sorted({ref[j] for j in range(len(ref)) if col[j] == m})


def oc_targets_bruteforce(ref, prefix, alphabet, ins, dele, sub, extra_len=1) -> List[int]:
    """Definitional: t is a target iff min over completions s of d(ref, p+t+s) equals
    min over completions s of d(ref, p+s). Completions enumerated up to len(ref)+extra_len."""
    L = len(ref) + extra_len

    def best(p):
        b = INF
        for n in range(L + 1):
            for s in itertools.product(alphabet, repeat=n):
                d = wf_table(ref, list(p) + list(s), ins, dele, sub)[len(ref)][len(p) + n]
                if d < b:
                    b = d
        return b

    base = best(prefix)
    return sorted(t for t in alphabet if best(list(prefix) + [t]) == base)
