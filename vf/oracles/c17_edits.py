"""Reference for the error-rate command (C17): scalar dynamic programme carrying, per cell,
the minimal alignment cost and the smallest / largest number of edits (insertions,
deletions, substitutions) over all alignments of that cost.  Costs are expected on a
dyadic grid, so float sums and the equality test on costs are exact."""
from __future__ import annotations


def edit_bounds(ref, hyp, ins, dele, sub):
    """-> (min_cost, min_edits, max_edits) for turning ``ref`` into ``hyp``.

    ``dele``: a reference token with no counterpart; ``ins``: a hypothesis token with no
    counterpart; ``sub``: two different tokens aligned."""
    R, H = len(ref), len(hyp)
    prev = [(j * ins, j, j) for j in range(H + 1)]
    for i in range(1, R + 1):
        cur = [(i * dele, i, i)]
        for j in range(1, H + 1):
            cands = []
            c, lo, hi = prev[j]
            cands.append((c + dele, lo + 1, hi + 1))
            c, lo, hi = cur[j - 1]
            cands.append((c + ins, lo + 1, hi + 1))
            c, lo, hi = prev[j - 1]
            if ref[i - 1] == hyp[j - 1]:
                cands.append((c, lo, hi))
            else:
                cands.append((c + sub, lo + 1, hi + 1))
            best = min(c for c, _, _ in cands)
            at = [x for x in cands if x[0] == best]
            cur.append((best, min(x[1] for x in at), max(x[2] for x in at)))
        prev = cur
    return prev[H]


def unit_distance(ref, hyp):
    """Plain Levenshtein distance (independent of edit_bounds)."""
    R, H = len(ref), len(hyp)
    row = list(range(H + 1))
    for i in range(1, R + 1):
        new = [i]
        for j in range(1, H + 1):
            new.append(min(row[j] + 1, new[j - 1] + 1, row[j - 1] + (ref[i - 1] != hyp[j - 1])))
        row = new
    return row[H]


def banded_unit_distance(ref, hyp, band):
    """Levenshtein distance when it is known not to exceed ``band`` (``hyp`` was derived from ``ref`` by at most
    ``band`` single-token edits): an optimal alignment then never leaves the diagonals |i - j| <= band, so the
    programme restricted to that band is exact.  O(len * band); returns band + 1 if the premise fails."""
    R, H = len(ref), len(hyp)
    if abs(R - H) > band:
        return band + 1
    INF = band + 1
    prev = {j: j for j in range(0, min(H, band) + 1)}
    for i in range(1, R + 1):
        cur = {}
        for j in range(max(0, i - band), min(H, i + band) + 1):
            best = INF
            if j == 0:
                best = i
            else:
                if (j - 1) in prev:
                    best = min(best, prev[j - 1] + (ref[i - 1] != hyp[j - 1]))
                if (j - 1) in cur:
                    best = min(best, cur[j - 1] + 1)
            if j in prev:
                best = min(best, prev[j] + 1)
            cur[j] = min(best, INF)
        prev = cur
    return min(prev.get(H, INF), INF)
