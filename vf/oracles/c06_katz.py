"""Reference Katz back-off on plain dictionaries (C06), and an ARPA writer.

Nothing here imports the library under test.  Tables are ``tables[m-1][tuple_of_m_ids]
= (logp, logb)`` for m < n and ``= logp`` for m == n (keys are always tuples here, also
for unigrams).  Values are Python floats (possibly ``-inf`` for logp).
"""
from __future__ import annotations

import math

NEG_INF = float("-inf")


def index_to_tuple(index: int, m: int, base: int):
    """index in [0, base**m) -> tuple of m symbol positions (most significant first)."""
    out = []
    for _ in range(m):
        out.append(index % base)
        index //= base
    return tuple(reversed(out))


def level_sizes(tables):
    """Number of trie nodes per order once every suffix of a listed n-gram is present too."""
    n = len(tables)
    keys = [set(t) for t in tables]
    for m in range(n - 1, 0, -1):
        for k in keys[m]:
            keys[m - 1].add(k[1:])
    return [len(k) for k in keys]


def build_tables(spec, symbols, scale=1.0):
    """Expand the JSON table spec of a case into dictionaries.

    spec: list over orders m = 1..n of either
      {"entries": [[index, p8, b8], ...]}                   explicit entries
      {"excluded": [index, ...], "a": int, "b": int, "c": int, "inf_mod": int, "keep_mod": int, "keep_lt": int, "count": int or None}
                                                            tuples with (index+b) % keep_mod < keep_lt but the excluded
                                                            ones, values derived from the index
      {"gen": count, "a": int, "b": int, "c": int, "inf_mod": int, "fan": [symbol position, k] or None}
                                                            `count` entries at indices (j * a + b) mod base**m,
                                                            j = 0..count-1 (distinct when a is coprime to the base),
                                                            values derived from j; "fan" (order 2 only) adds the
                                                            bigrams (x, w0) for the first k symbols x, so that the
                                                            reverse-trie node of w0 has k direct descendants
    p8 is an integer number of eighths (<= 0) or None for -inf; b8 an integer number of
    eighths.  ``symbols`` lists the ids a key may use (vocabulary, plus sos when it is not
    in the vocabulary).  Every finite value is multiplied by ``scale`` (a power of two, so the
    products stay exact).  Returns list of dicts keyed by tuples of *ids*.
    """
    n = len(spec)
    base = len(symbols)
    tables = []
    for m, s in enumerate(spec, start=1):
        d = {}
        last = m == n
        if "entries" in s:
            for index, p8, b8 in s["entries"]:
                index %= base ** m
                key = tuple(symbols[i] for i in index_to_tuple(index, m, base))
                p = NEG_INF if p8 is None else p8 / 8.0 * scale
                d[key] = p if last else (p, b8 / 8.0 * scale)
        elif "gen" in s:
            a, b, c, inf_mod = s["a"], s["b"], s["c"], s.get("inf_mod", 0)
            total = base ** m
            for j in range(s["gen"]):
                index = (j * a + b) % total
                key = tuple(symbols[i] for i in index_to_tuple(index, m, base))
                p = -((j * c + a) % 65) / 8.0 * scale
                if inf_mod and (j + c) % inf_mod == 0:
                    p = NEG_INF
                bo = (((j * a + c) % 33) - 16) / 8.0 * scale
                d[key] = p if last else (p, bo)
            fan = s.get("fan")
            if fan and m == 2:
                w0, k = symbols[fan[0] % base], fan[1]
                for j, x in enumerate(symbols[:k]):
                    p = -((j * 5 + c) % 65) / 8.0 * scale
                    bo = (((j * 3 + a) % 33) - 16) / 8.0 * scale
                    d[(x, w0)] = p if last else (p, bo)
        else:
            excl = {i % base ** m for i in s["excluded"]}
            a, b, c, inf_mod = s["a"], s["b"], s["c"], s["inf_mod"]
            keep_mod, keep_lt = s.get("keep_mod", 1), s.get("keep_lt", 1)
            count = s.get("count")
            total = base ** m
            for index in range(total):
                if index in excl or (index + b) % keep_mod >= keep_lt:
                    continue
                if count is not None and (index * a + b) % total >= count:
                    continue
                key = tuple(symbols[i] for i in index_to_tuple(index, m, base))
                p = -((index * a + b) % 65) / 8.0 * scale
                if inf_mod and (index + c) % inf_mod == 0:
                    p = NEG_INF
                bo = (((index * c + a) % 33) - 16) / 8.0 * scale
                d[key] = p if last else (p, bo)
        tables.append(d)
    return tables


class Katz:
    """The recursion of the statement, with bookkeeping about which branches were used."""

    def __init__(self, tables):
        self.tables = tables
        self.n = len(tables)

    def _entry_logp(self, key):
        m = len(key)
        v = self.tables[m - 1].get(key)
        if v is None:
            return None
        return v if m == self.n else v[0]

    def _backoff(self, ctx):
        # ctx is a k-gram with k <= n - 1, so its table stores (logp, logb)
        v = self.tables[len(ctx) - 1].get(ctx)
        if v is None:
            return 0.0, False
        return v[1], True

    def logp(self, ctx, w, trace=None):
        """log P(w | ctx), ctx a tuple of at most n-1 ids (oldest first)."""
        key = tuple(ctx) + (w,)
        p = self._entry_logp(key)
        if p is not None and math.isfinite(p):
            if trace is not None:
                trace.add("hit_%d" % len(key))
                if len(key) == self.n:
                    trace.add("hit_top")
            return p
        if trace is not None:
            trace.add("listed_neginf" if p is not None else "missing_entry")
        if len(key) == 1:
            return NEG_INF
        b, present = self._backoff(tuple(ctx))
        if trace is not None:
            trace.add("ctx_present" if present else "ctx_absent")
            if present and b != 0.0:
                trace.add("nonzero_backoff_used")
        return b + self.logp(tuple(ctx)[1:], w, trace)

    def context(self, prefix, sos):
        """Left-pad with sos and keep the newest n-1 tokens."""
        k = self.n - 1
        if k == 0:
            return ()
        padded = [sos] * k + list(prefix)
        return tuple(padded[len(padded) - k:])

    def next_token(self, prefix, sos, V, trace=None):
        ctx = self.context(prefix, sos)
        return [self.logp(ctx, w, trace) for w in range(V)]


def fmt_log10(x8: int) -> str:
    """An eighth-valued number as a decimal literal the ARPA entry pattern admits."""
    s = "%.3f" % (x8 / 8.0)
    return s


def write_arpa(tables_text, style):
    """tables_text: list over orders of lists of (logp_str, [tokens], logb_str or None).

    ``style`` varies the layout within what the documented format allows: blank lines,
    leading junk before \\data\\, tabs vs spaces.
    """
    sep = "\t" if style.get("tabs") else " "
    lines = []
    if style.get("preamble"):
        lines += ["this is a comment line", ""]
    lines.append("\\data\\")
    for m, ents in enumerate(tables_text, start=1):
        if style.get("count_spaces"):
            lines.append("ngram  %d = %d" % (m, len(ents)))
        else:
            lines.append("ngram %d=%d" % (m, len(ents)))
    lines.append("")
    for m, ents in enumerate(tables_text, start=1):
        lines.append("\\%d-grams:" % m)
        for logp, toks, logb in ents:
            parts = [logp] + list(toks)
            if logb is not None:
                parts.append(logb)
            lines.append(sep.join(parts))
        if style.get("blank_between", True):
            lines.append("")
    lines.append("\\end\\")
    return "\n".join(lines) + "\n"
