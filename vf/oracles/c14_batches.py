"""Reference laws for bucketed batching and for collation (C14). Pure Python; no library code.

``bucket_laws`` states what the property says about a bucketing batch sampler as predicates over
(sampler order, yielded batches); ``bucket_model`` is the documented procedure ("yield as soon as the
bucket is full", leftovers at the end unless dropped) used to predict loader batches.
"""
from __future__ import annotations


class LawBroken(Exception):
    def __init__(self, what, observed=None, expected=None):
        super().__init__(what)
        self.what, self.observed, self.expected = what, observed, expected


def _need(cond, what, observed=None, expected=None):
    if not cond:
        raise LawBroken(what, observed, expected)


def bucket_laws(order, batches, idx2bucket, bucket2size, drop):
    """Raises LawBroken unless ``batches`` is a lossless single-bucket batching of ``order``.

    order: the indices the underlying sampler produced (repeats allowed);
    idx2bucket: dict index -> bucket id; bucket2size: dict bucket id -> batch size.
    Returns statistics for classification.
    """
    per_bucket_pos = {}
    for pos, idx in enumerate(order):
        per_bucket_pos.setdefault(idx2bucket[idx], []).append(pos)
    seen = {}  # bucket -> list of batches in yield order, with their yield rank
    for rank, batch in enumerate(batches):
        _need(len(batch) > 0, "an empty batch was yielded", batches, None)
        _need(all(i in idx2bucket for i in batch), "a batch holds an index the sampler cannot have produced", batch, None)
        bs = {idx2bucket[i] for i in batch}
        _need(len(bs) == 1, "a batch mixes buckets", [batch, sorted(map(repr, bs))], "single bucket")
        seen.setdefault(next(iter(bs)), []).append((rank, list(batch)))
    _need(set(seen) <= set(per_bucket_pos), "a batch of a bucket the sampler never produced", None, None)
    incomplete_used = 0
    events = []  # (completion position, yield rank) of full batches
    short_ranks = []
    for b, pos_list in per_bucket_pos.items():
        size = bucket2size[b]
        want = [order[p] for p in pos_list]
        got_batches = seen.get(b, [])
        got = [i for _, batch in got_batches for i in batch]
        n_full, rest = divmod(len(want), size)
        if drop:
            exp = want[:n_full * size]
            _need(got == exp, "bucket %r: concatenated batches are not the bucket's sub-sequence of the sampler order "
                  "minus a tail shorter than one batch" % (b,), got, exp)
        else:
            _need(got == want, "bucket %r: concatenated batches are not the bucket's sub-sequence of the sampler order" % (b,),
                  got, want)
        for j, (rank, batch) in enumerate(got_batches):
            last = j == len(got_batches) - 1
            if len(batch) == size:
                events.append((pos_list[(j + 1) * size - 1], rank))
            else:
                _need(last and not drop and len(batch) < size,
                      "bucket %r: a batch of size %d (bucket size %d) that is not a kept trailing batch" % (b, len(batch), size),
                      [len(x) for _, x in got_batches], size)
                short_ranks.append(rank)
                incomplete_used += 1
    events.sort()
    ranks = [r for _, r in events]
    _need(ranks == sorted(ranks), "full batches are not yielded in the order in which they became full", ranks, sorted(ranks))
    if short_ranks and ranks:
        _need(min(short_ranks) > max(ranks), "an incomplete batch was yielded before the end of the epoch",
              [short_ranks, ranks], None)
    return {"buckets_used": len(per_bucket_pos), "incomplete": incomplete_used,
            "dropped": sum(len(p) % bucket2size[b] for b, p in per_bucket_pos.items()) if drop else 0}


def bucket_model(order, idx2bucket, bucket2size, drop):
    """(full batches in the order they fill up, leftover batches - in no particular order)."""
    pending, full = {}, []
    for idx in order:
        b = idx2bucket[idx]
        cur = pending.setdefault(b, [])
        cur.append(idx)
        if len(cur) == bucket2size[b]:
            full.append(cur)
            del pending[b]
    return full, ([] if drop else [v for v in pending.values()])


def plain_model(order, size, drop):
    out = [list(order[i:i + size]) for i in range(0, len(order), size)]
    if drop and out and len(out[-1]) < size:
        out.pop()
    return out


def length_classes_ok(lengths, idx2bucket, num_buckets):
    """The declared assignment must be a function of length, monotone, into at most num_buckets classes."""
    by_len = {}
    for i, l in enumerate(lengths):
        by_len.setdefault(l, set()).add(idx2bucket[i])
    for l, bs in by_len.items():
        _need(len(bs) == 1, "utterances of equal length %d are put into different buckets" % l, sorted(map(repr, bs)), None)
    # disjoint, ordered length ranges
    ranges = {}
    for i, l in enumerate(lengths):
        b = idx2bucket[i]
        lo, hi = ranges.get(b, (l, l))
        ranges[b] = (min(lo, l), max(hi, l))
    rs = sorted(ranges.values())
    for (lo1, hi1), (lo2, hi2) in zip(rs, rs[1:]):
        _need(hi1 < lo2, "two buckets have overlapping length ranges", rs, None)
    _need(len(ranges) <= max(1, num_buckets), "more buckets than requested", len(ranges), num_buckets)
    return ranges


def clamp_window(feat, t, left, right, reverse):
    """rows of the context window centred at t: frame indices clamped to [0, T-1]"""
    T = len(feat)
    idx = [min(max(t + o, 0), T - 1) for o in range(-left, right + 1)]
    if reverse:
        idx = idx[::-1]
    return [feat[i] for i in idx]
