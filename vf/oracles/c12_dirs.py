"""Reference semantics of ``validate_spect_data_set`` and of the directory report, written from the
docstrings only (conditions 1-6.3.2, repairs 1-5 of ``validate_spect_data_set``; key definitions 1-10 of
``get-torch-spect-data-dir-info``).  Pure Python over *stored tensors*
({"dtype": "torch.int64", "shape": [...], "data": nested list}); no torch.

A defect is {"uid", "part", "code", "min_fix"}: ``min_fix`` is None when no tolerance repairs it,
otherwise the smallest tolerance that does (0 = any ``fix`` value repairs it).
"""
from __future__ import annotations

import copy

LONG = "torch.int64"
UPCASTABLE = {"torch.uint8", "torch.int32"}  # "bytes or 32-bit integers can be upcast to long tensors"


def _d(uid, part, code, min_fix):
    return {"uid": uid, "part": part, "code": code, "min_fix": min_fix}


def defects(model):
    """All departures from the documented conditions, each with the tolerance that repairs it."""
    out = []
    utts = model["utts"]
    feat_dtypes, widths, ref_dims = set(), set(), set()
    for uid, p in utts.items():
        feat = p["feat"]
        feat_dtypes.add(feat["dtype"])                       # 2. same dtype
        T = None
        if len(feat["shape"]) != 2:                          # 3. two dimensions
            out.append(_d(uid, "feat", "feat_rank", None))
        else:
            T = feat["shape"][0]
            widths.add(feat["shape"][1])                     # 4. same second dimension
        ali = p.get("ali")
        if ali is not None:
            if ali["dtype"] != LONG:                         # 5.1 long tensors (repair 2)
                out.append(_d(uid, "ali", "ali_dtype", 0 if ali["dtype"] in UPCASTABLE else None))
            if len(ali["shape"]) != 1:                       # 5.2 one dimension
                out.append(_d(uid, "ali", "ali_rank", None))
            elif T is not None:                              # 5.3 same number of frames (repair 5)
                L = ali["shape"][0]
                if L > T:
                    out.append(_d(uid, "ali", "ali_long", L - T))
                elif L < T:
                    out.append(_d(uid, "ali", "ali_short", None))
        ref = p.get("ref")
        if ref is not None:
            if ref["dtype"] != LONG:                         # 6.1
                out.append(_d(uid, "ref", "ref_dtype", 0 if ref["dtype"] in UPCASTABLE else None))
            nd = len(ref["shape"])
            if nd not in (1, 2):                             # 6.2 either 1 or 2
                out.append(_d(uid, "ref", "ref_rank", None))
            else:
                ref_dims.add(nd)
            if nd == 2:
                if ref["shape"][1] != 3:                     # 6.3.1
                    out.append(_d(uid, "ref", "ref_width", None))
                elif T is not None:                          # 6.3.2 (repairs 3, 4)
                    for i, (tok, s, e) in enumerate(ref["data"]):
                        if s < 0 and e < 0:
                            continue
                        if s < 0 or e < 0:
                            out.append(_d(uid, "ref", "ref_half:%d" % i, 0))
                        elif e < s:
                            out.append(_d(uid, "ref", "ref_reversed:%d" % i, None))
                        elif e > T:
                            # "exceeding the number of frames by at most fix ... only possible if the
                            # exclusive end remains above or at the inclusive start"
                            out.append(_d(uid, "ref", "ref_over:%d" % i, (e - T) if s <= T else None))
    if len(feat_dtypes) > 1:
        out.append(_d(None, "feat", "feat_dtype_mixed", None))
    if len(widths) > 1:
        out.append(_d(None, "feat", "feat_width_mixed", None))
    if len(ref_dims) > 1:
        out.append(_d(None, "ref", "ref_dim_mixed", None))
    return out


def repairable(ds, k):
    return all(d["min_fix"] is not None and d["min_fix"] <= k for d in ds)


def _repair_ali(ali, T, k):
    """Documented repairs applied to one alignment; None if something in it is not repairable."""
    a = copy.deepcopy(ali)
    if a["dtype"] != LONG:
        if a["dtype"] not in UPCASTABLE:
            return None
        a["dtype"] = LONG
    if len(a["shape"]) != 1 or T is None:
        return None
    L = a["shape"][0]
    if L < T or L > T + k:
        return None
    if L > T:
        a["data"] = a["data"][:T]
        a["shape"] = [T]
    return a


def _repair_ref(ref, T, k):
    r = copy.deepcopy(ref)
    if r["dtype"] != LONG:
        if r["dtype"] not in UPCASTABLE:
            return None
        r["dtype"] = LONG
    nd = len(r["shape"])
    if nd == 1:
        return r
    if nd != 2 or r["shape"][1] != 3 or T is None:
        return None
    for row in r["data"]:
        tok, s, e = row
        if s < 0 and e < 0:
            continue
        if s < 0 or e < 0:
            row[1] = row[2] = -1
        elif e < s:
            return None
        elif e > T:
            if s <= T and e - T <= k:
                row[2] = T
            else:
                return None
    return r


def repair_parts(model, k):
    """Per file: the repaired tensor, or None where the file cannot be repaired with tolerance k
    (global conditions - dtype/width/dimensionality agreement - are not looked at here)."""
    out = {}
    for uid, p in model["utts"].items():
        T = p["feat"]["shape"][0] if len(p["feat"]["shape"]) == 2 else None
        out[uid] = {
            "feat": copy.deepcopy(p["feat"]),
            "ali": None if p.get("ali") is None else _repair_ali(p["ali"], T, k),
            "ref": None if p.get("ref") is None else _repair_ref(p["ref"], T, k),
        }
    return out


def repaired(model, k):
    """The directory after a successful fix pass with tolerance k (caller checked ``repairable``)."""
    parts = repair_parts(model, k)
    new = {"has_ali": model["has_ali"], "has_ref": model["has_ref"], "utts": {}}
    for uid, p in model["utts"].items():
        q = parts[uid]
        if (p.get("ali") is not None and q["ali"] is None) or (p.get("ref") is not None and q["ref"] is None):
            raise AssertionError("oracle inconsistency: repairable() true but a part has no repair")
        new["utts"][uid] = q
    if defects(new):
        raise AssertionError("oracle inconsistency: repaired directory still has defects %r" % defects(new))
    return new


# ---------------------------------------------------------------- report


def report(model):
    """Key/value pairs of the documented report for a *valid* directory (all values integers).

    ``num_filts`` is only defined with at least one utterance.
    """
    utts = model["utts"]
    out = {"num_utterances": len(utts), "total_frames": sum(p["feat"]["shape"][0] for p in utts.values())}
    if utts:
        out["num_filts"] = next(iter(utts.values()))["feat"]["shape"][1]
    # alignments
    counts, segs = {}, {}
    for p in utts.values():
        if p.get("ali") is None:
            continue
        prev = None
        for c in p["ali"]["data"]:
            counts[c] = counts.get(c, 0) + 1
            if c != prev:                     # "a maximal run of instances"
                segs[c] = segs.get(c, 0) + 1
            prev = c
    max_ali = max(counts) if counts else -1
    out["max_ali_class"] = max_ali
    if max_ali >= 0:
        w = len(str(max_ali))
        for i in range(max_ali + 1):
            out["count_%0*d" % (w, i)] = counts.get(i, 0)
            out["segs_%0*d" % (w, i)] = segs.get(i, 0)
    # references
    rsegs, rcount, unbounded = {}, {}, set()
    total = 0
    for p in utts.values():
        ref = p.get("ref")
        if ref is None:
            continue
        if len(ref["shape"]) == 1:
            rows = [(t, -1, -1) for t in ref["data"]]
        else:
            rows = [tuple(r) for r in ref["data"]]
        for tok, s, e in rows:
            total += 1                         # "the sum of R over the data dir"
            rsegs[tok] = rsegs.get(tok, 0) + 1
            if s < 0 or e < 0:                 # "does not provide segment boundaries"
                unbounded.add(tok)
            else:
                rcount[tok] = rcount.get(tok, 0) + (e - s)
    out["total_tokens"] = total if model["has_ref"] else -1
    max_ref = max(rsegs) if rsegs else -1
    out["max_ref_class"] = max_ref
    if max_ref >= 0:
        w = len(str(max_ref))
        for i in range(max_ref + 1):
            out["rcount_%0*d" % (w, i)] = -1 if (i in unbounded or i not in rsegs) else rcount[i]
            out["rsegs_%0*d" % (w, i)] = rsegs.get(i, 0)
    return out
