"""Reference computations for CTC prefix search (C05), pure Python / float64.

Vocabulary 0..V-1, blank = V (the library's convention).  ``frames`` is a list of probability
vectors of length V+1 (softmax of the element's valid logits).

Extension score of label v after collapsed prefix l at frame t (class docstring of CTCPrefixSearch):
  no fusion / beta == 0 : p_t(v)
  shallow fusion        : p_t(v) * P_lm(v | l) ** beta
  valid mixture         : (1 - beta) * p_t(v) + beta * P_lm(v | l) * (1 - p_t(blank))
A repeat of the last emitted label without a blank in between is scored p_t(v) and does not
extend; a blank is scored p_t(blank).
"""
from __future__ import annotations

import itertools
import math
from typing import Callable, Dict, List, Optional, Sequence, Tuple


def softmax(xs: Sequence[float]) -> List[float]:
    m = max(xs)
    es = [math.exp(x - m) for x in xs]
    z = sum(es)
    return [e / z for e in es]


def make_ext(fusion: str, beta: float, lm_probs: Optional[Callable[[Tuple[int, ...]], List[float]]]):
    """Returns ext(p_t, v, prefix) -> extension score."""
    if fusion == "none" or beta == 0 or lm_probs is None:
        return lambda p, v, l: p[v]
    if fusion == "shallow":
        return lambda p, v, l: p[v] * lm_probs(l)[v] ** beta
    if fusion == "valid":
        return lambda p, v, l: (1.0 - beta) * p[v] + beta * lm_probs(l)[v] * (1.0 - p[-1])
    raise ValueError(fusion)


def exact_masses(frames, V, ext) -> Dict[Tuple[int, ...], float]:
    """Total weight of all alignments collapsing to each prefix, by complete enumeration."""
    out: Dict[Tuple[int, ...], float] = {}
    T = len(frames)
    for ali in itertools.product(range(V + 1), repeat=T):
        w = 1.0
        pre: Tuple[int, ...] = ()
        last = V  # previous alignment symbol (blank at the start)
        for t, a in enumerate(ali):
            p = frames[t]
            if a == V:
                w *= p[V]
            elif a == last:
                w *= p[a]
            else:
                w *= ext(p, a, pre)
                pre = pre + (a,)
            last = a
            if w == 0.0:
                break
        out[pre] = out.get(pre, 0.0) + w
    return out


def beam_reference(frames, V, width, ext, tie_rel=1e-6, tie_abs=0.0):
    """Standard prefix-beam recursion (blank / non-blank mass per prefix, merge on identical prefix,
    keep the ``width`` best by total mass).  Returns (list of (prefix, mass) best first, info)."""
    beam: Dict[Tuple[int, ...], List[float]] = {(): [0.0, 1.0]}  # prefix -> [nb, b]
    info = {"pruned": False, "ambiguous": False, "merge": False, "width_exceeds_live": False, "max_live": 1}
    for p in frames:
        new: Dict[Tuple[int, ...], List[float]] = {}

        def slot(l):
            if l not in new:
                new[l] = [0.0, 0.0]
            return new[l]

        for l, (nb, b) in beam.items():
            s = slot(l)
            s[1] += (nb + b) * p[V]
            if l:
                s[0] += nb * p[l[-1]]
            for v in range(V):
                m = (b if (l and l[-1] == v) else nb + b) * ext(p, v, l)
                lp = l + (v,)
                if lp in beam and m > 0.0:
                    info["merge"] = True
                slot(lp)[0] += m
        live = sorted(((nb + b, l) for l, (nb, b) in new.items() if nb + b > 0.0), key=lambda x: (-x[0], x[1]))
        info["max_live"] = max(info["max_live"], len(live))
        if len(live) < width:
            info["width_exceeds_live"] = True
        if len(live) > width:
            info["pruned"] = True
            a, b_ = live[width - 1][0], live[width][0]
            if a - b_ <= tie_rel * a + tie_abs:
                info["ambiguous"] = True
            live = live[:width]
        beam = {l: new[l] for _, l in live}
    res = sorted(((nb + b, l) for l, (nb, b) in beam.items()), key=lambda x: (-x[0], x[1]))
    return [(l, m) for m, l in res], info
