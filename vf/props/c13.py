"""C13 Epoch samplers are reproducible and split data exactly across processes."""
from __future__ import annotations

import itertools

from hypothesis import strategies as st

from ..core import Info, Violation, expect_raises, require, subcheck
from .. import fakes

MODES = ["raise", "drop", "uneven", "ignore"]


def _make(kind, N, init_epoch, base_seed, mode):
    from pydrobert.torch.data import EpochRandomSampler, EpochSequentialSampler

    ds = range(N)
    if kind == "random":
        return EpochRandomSampler(ds, init_epoch=init_epoch, base_seed=base_seed, on_uneven_distributed=mode)
    return EpochSequentialSampler(ds, init_epoch=init_epoch, on_uneven_distributed=mode)


def _ints(it):
    return [int(x) for x in it]


# ---------------------------------------------------------------- partition across ranks


def _partition_check(case):
    kind, N, W, mode, seed, epoch = (case[k] for k in ("kind", "N", "world", "mode", "seed", "epoch"))
    per_rank = []
    uneven = N % W != 0
    world_free = None
    for rank in range(W):
        with fakes.process_group(rank, W):
            if mode == "raise" and uneven:
                with expect_raises(ValueError, what="strict mode with N %% W != 0 (N=%d, W=%d)" % (N, W)):
                    _make(kind, N, epoch, seed, mode)
                continue
            s = _make(kind, N, epoch, seed, mode)
            declared = len(s)
            direct = _ints(s.get_samples_for_epoch(epoch))
            # documented: "Ignores the distributed environment. All replicas should return the same value."
            ignoring = _ints(s.get_samples_for_epoch_ignoring_distributed(epoch))
            got = _ints(iter(s))
            if world_free is None:
                with fakes.process_group(0, 1):
                    world_free = _ints(_make(kind, N, epoch, seed, "uneven").get_samples_for_epoch_ignoring_distributed(epoch))
            require(ignoring == world_free,
                    "get_samples_for_epoch_ignoring_distributed depends on the distributed environment (rank %d of %d, mode %s)" % (rank, W, mode),
                    ignoring, world_free)
            require(sorted(ignoring) == list(range(N)), "the epoch order ignoring the distributed environment is not a permutation of range(N)",
                    ignoring, N)
        require(got == direct, "iter() and get_samples_for_epoch disagree", got, direct)
        require(declared == len(got), "len(sampler) != number of indices yielded (rank %d)" % rank, declared, len(got))
        require(all(0 <= i < N for i in got), "index out of range", got, "0..%d" % (N - 1))
        require(len(set(got)) == len(got), "rank %d yields an index twice" % rank, got, None)
        per_rank.append(got)
    classes = ["mode_" + mode, "kind_" + kind]
    if uneven:
        classes.append("indivisible")
    if mode == "raise" and uneven:
        return Info(nontrivial=W >= 2, classes=classes + ["raised"])
    if mode == "ignore":
        full = per_rank[0]
        require(sorted(full) == list(range(N)), "ignore mode: rank 0 does not see the full epoch", full, N)
        for r, got in enumerate(per_rank):
            require(got == full, "ignore mode: rank %d differs from rank 0" % r, got, full)
        if kind == "seq":
            require(full == list(range(N)), "sequential order is not 0..N-1", full, None)
        return Info(nontrivial=W >= 2 and N >= 2, classes=classes)
    union = list(itertools.chain.from_iterable(per_rank))
    require(len(set(union)) == len(union), "two ranks share an index", per_rank, "pairwise disjoint")
    if mode == "drop":
        exp_each = N // W
        for r, got in enumerate(per_rank):
            require(len(got) == exp_each, "drop mode: rank %d count" % r, len(got), exp_each)
        require(len(union) == N - N % W, "drop mode: covered count", len(union), N - N % W)
        if kind == "seq":
            require(set(union) == set(range(N - N % W)), "drop mode (sequential): not the first N - N%W indices",
                    sorted(union), N - N % W)
    else:
        require(sorted(union) == list(range(N)), "ranks do not cover every index exactly once", per_rank, N)
    if kind == "seq":
        for r, got in enumerate(per_rank):
            require(got == sorted(got), "sequential sampler rank order not increasing", got, None)
    if kind == "seq":
        # documented for the sequential sampler: process r is responsible for r, r+W, r+2W, ...
        eff = N - (N % W if mode == "drop" else 0)
        for r, got in enumerate(per_rank):
            require(got == list(range(r, eff, W)), "sequential rank %d is not r, r+W, ..." % r, got, list(range(r, eff, W)))
    return Info(nontrivial=W >= 2 and uneven, classes=classes)


def _partition_enum(tier):
    maxN, maxW = (14, 4) if tier == "quick" else (40, 7)
    out = []
    for kind in ("random", "seq"):
        for N in range(0, maxN + 1):
            for W in range(1, maxW + 1):
                for mode in MODES:
                    out.append({"kind": kind, "N": N, "world": W, "mode": mode, "seed": 3 + N, "epoch": N % 3})
    return out


subcheck("C13", "partition_enum", _partition_enum, 0, 0, exhaustive=True,
         doc="every (kind, N<=14|40, W<=4|7, mode) at one seed/epoch, all ranks: disjoint, covering, len == yielded",
         required_classes=["indivisible", "mode_drop", "mode_uneven", "raised"])(_partition_check)


def _partition_strategy(tier):
    big = tier == "thorough"
    return st.fixed_dictionaries({
        "kind": st.sampled_from(["random", "seq"]),
        "N": st.one_of(st.integers(0, 40), st.integers(0, 300 if big else 80),
                       st.sampled_from([255, 256, 257, 1023, 1024, 1025, 4097] + ([65537] if big else []))),
        "world": st.integers(1, 7) if not big else st.integers(1, 17),
        "mode": st.sampled_from(MODES),
        "seed": st.one_of(st.integers(0, 10), st.integers(0, 2**31 - 1)),
        "epoch": st.one_of(st.integers(0, 5), st.integers(0, 10**6)),
    })


subcheck("C13", "partition_random", _partition_strategy, 600, 20000,
         doc="generated (kind, N, W, mode, seed, epoch): partition laws over all ranks",
         required_classes=["indivisible"])(_partition_check)


# ---------------------------------------------------------------- route independence


def _routes_strategy(tier):
    op = st.one_of(
        st.tuples(st.just("iter")),
        st.tuples(st.just("set"), st.integers(0, 8)),
        st.tuples(st.just("recreate"), st.integers(0, 8)),
        st.tuples(st.just("peek"), st.integers(0, 8)),
        # an iterator obtained now, partly consumed, and finished only after later operations
        st.tuples(st.just("open"), st.integers(0, 6)),
        st.tuples(st.just("open_peek"), st.integers(0, 8), st.integers(0, 6)),
        st.tuples(st.just("finish")),
    )
    return st.fixed_dictionaries({
        "kind": st.sampled_from(["random", "seq"]),
        "N": st.integers(0, 30),
        "world": st.integers(1, 5),
        "rank_frac": st.integers(0, 4),
        "mode": st.sampled_from(["drop", "uneven", "ignore", "raise"]),
        "seed": st.one_of(st.integers(0, 10), st.integers(0, 2**31 - 1)),
        "init_epoch": st.integers(0, 5),
        "ops": st.lists(op, min_size=1, max_size=10),
    })


@subcheck("C13", "routes", _routes_strategy, 800, 20000,
          doc="histories of iterate / set epoch / recreate-at-epoch / peek: order of epoch e depends on (seed, e) only",
          required_classes=["two_routes", "lazy_iterator_finished_after_other_calls"])
def _routes_check(case):
    kind, N, W, mode, seed = case["kind"], case["N"], case["world"], case["mode"], case["seed"]
    rank = case["rank_frac"] % W
    if mode == "raise" and N % W:
        N = N - N % W  # strict mode is only constructible when divisible
    seen = {}
    routes = {}

    def record(e, order, route):
        if e in seen:
            require(seen[e] == order, "epoch %d order differs between routes %s and %s" % (e, routes[e], route),
                    order, seen[e])
            if routes[e] != route:
                routes.setdefault("_multi", set()).add(e)
        else:
            seen[e] = order
            routes[e] = route

    pending = []  # (epoch, iterator, items taken so far, route)
    lazy_finished_late = False

    def finish_all():
        nonlocal lazy_finished_late
        for e, it, taken, route, opened_at in pending:
            taken.extend(_ints(it))
            record(e, taken, route)
            if opened_at < nops[0]:
                lazy_finished_late = True
        del pending[:]

    nops = [0]
    with fakes.process_group(rank, W):
        s = _make(kind, N, case["init_epoch"], seed, mode)
        cur = case["init_epoch"]
        for op in case["ops"]:
            nops[0] += 1
            if op[0] == "open":
                it = iter(s)
                taken = [int(next(it)) for _ in range(min(op[1], len(s)))]
                pending.append((cur, it, taken, "lazy-iterate", nops[0]))
                cur += 1
                require(s.epoch == cur, "epoch counter not advanced by one", s.epoch, cur)
            elif op[0] == "open_peek":
                it = iter(s.get_samples_for_epoch(op[1]))
                taken = []
                for _ in range(op[2]):
                    try:
                        taken.append(int(next(it)))
                    except StopIteration:
                        break
                pending.append((op[1], it, taken, "lazy-get_samples_for_epoch", nops[0]))
            elif op[0] == "finish":
                finish_all()
            elif op[0] == "iter":
                n_decl = len(s)
                order = _ints(iter(s))
                require(n_decl == len(order), "len(sampler) != yielded", n_decl, len(order))
                record(cur, order, "iterate")
                cur += 1
                require(s.epoch == cur, "epoch counter not advanced by one", s.epoch, cur)
            elif op[0] == "set":
                s.epoch = cur = op[1]
            elif op[0] == "recreate":
                s = _make(kind, N, op[1], seed, mode)
                cur = op[1]
                order = _ints(iter(s))
                record(cur, order, "created-at")
                cur += 1
            else:
                order = _ints(s.get_samples_for_epoch(op[1]))
                record(op[1], order, "get_samples_for_epoch")
                require(s.epoch == cur, "peeking changed the epoch counter", s.epoch, cur)
        finish_all()
        # from-zero route for every epoch seen
        z = _make(kind, N, 0, seed, mode)
        upto = max(seen) if seen else -1
        for e in range(upto + 1):
            order = _ints(iter(z))
            if e in seen:
                record(e, order, "from-zero")
    # content laws
    with fakes.process_group(0, 1):
        ref = _make(kind, N, 0, seed, "uneven")
        for e, order in seen.items():
            whole = _ints(ref.get_samples_for_epoch(e))
            require(sorted(whole) == list(range(N)), "epoch order is not a permutation of range(N)", whole, N)
            if mode == "ignore":
                require(order == whole, "ignore mode: rank does not see the whole epoch order", order, whole)
            else:
                require(len(set(order)) == len(order) and set(order) <= set(whole), "rank list is not a sub-list of the epoch", order, whole)
                if kind == "seq":
                    eff = N - (N % W if mode == "drop" else 0)
                    require(order == list(range(rank, eff, W)), "sequential rank %d/%d is not r, r+W, ..." % (rank, W), order, None)
    multi = routes.get("_multi", set())
    classes = []
    if multi:
        classes.append("two_routes")
    if W >= 2:
        classes.append("distributed")
    if lazy_finished_late:
        classes.append("lazy_iterator_finished_after_other_calls")
    return Info(nontrivial=bool(multi) and N >= 2, classes=classes)


def _seeds_strategy(tier):
    return st.fixed_dictionaries({
        "N": st.integers(2, 40),
        "seed": st.integers(0, 2**31 - 1),
        "epochs": st.lists(st.integers(0, 1000), min_size=2, max_size=4, unique=True),
    })


@subcheck("C13", "random_is_seeded", _seeds_strategy, 300, 5000,
          doc="two samplers with equal base seed agree on every epoch; a sampler without a seed draws it from torch's generator reproducibly")
def _seeds_check(case):
    import torch

    N, seed = case["N"], case["seed"]
    a = _make("random", N, 0, seed, "raise")
    b = _make("random", N, 0, seed, "raise")
    for e in case["epochs"]:
        oa, ob = _ints(a.get_samples_for_epoch(e)), _ints(b.get_samples_for_epoch(e))
        require(oa == ob, "equal (seed, epoch) gave different orders", oa, ob)
        require(sorted(oa) == list(range(N)), "not a permutation", oa, N)
    torch.manual_seed(seed)
    c = _make("random", N, 0, None, "raise")
    torch.manual_seed(seed)
    d = _make("random", N, 0, None, "raise")
    require(c.base_seed == d.base_seed, "unset seed not drawn reproducibly from torch generator", c.base_seed, d.base_seed)
    require(_ints(iter(c)) == _ints(iter(d)), "unseeded samplers differ after equal manual_seed", None, None)
    return Info(nontrivial=True, classes=["seeded"])
