"""C04 Beam search returns distinct, correctly scored, best-first paths per element."""
from __future__ import annotations

import itertools
import math

from hypothesis import strategies as st

from ..core import Info, Reject, close, require, subcheck
from .. import declm

NEG_INF = float("-inf")
CAP = 12  # step bound for searches without max_iters (harness guard, see declm.StepCap)


# ----------------------------------------------------------------------- helpers


def _norm_eos(eos, V):
    return None if eos is None else (eos + V) % V


def complete_sequences(V, eos, T):
    """All token sequences a search of at most T steps can end with: length T without eos, or
    ending in their first eos with length <= T."""
    out = []
    if eos is None:
        return [list(p) for p in itertools.product(range(V), repeat=T)]
    others = [v for v in range(V) if v != eos]
    for l in range(1, T + 1):
        for p in itertools.product(others, repeat=l - 1):
            out.append(list(p) + [eos])
    for p in itertools.product(others, repeat=T):
        out.append(list(p))
    if T == 0:
        return [[]]
    return out


def n_complete(V, eos, T):
    if eos is None:
        return V ** T
    if T == 0:
        return 1
    return sum((V - 1) ** (l - 1) for l in range(1, T + 1)) + (V - 1) ** T


def _fl(x):
    return float(x)


def run_search(case, conds, batch):
    """Call the real BeamSearch; returns (S, [per element: list of (tokens, len, score)], raw y rows)."""
    import torch
    from pydrobert.torch.modules import BeamSearch

    spec = case["lm"]
    lm = declm.HashLM(spec, cap=CAP if case["max_iters"] is None else None)
    search = BeamSearch(lm, case["width"], eos=case["eos"], finish_all_paths=case["finish_all"],
                        pad_value=case.get("pad_value", -1))
    if case.get("no_init") and batch is None and conds == [0]:
        init = None
    else:
        init = {"cond": torch.tensor(conds, dtype=torch.long)}
    y, lens, lp = search(init, batch, case["max_iters"])
    W = case["width"]
    if batch is None:
        require(y.dim() == 2 and tuple(lens.shape) == (W,) and tuple(lp.shape) == (W,),
                "unbatched result shapes", [list(y.shape), list(lens.shape), list(lp.shape)], ["(S,%d)" % W, [W], [W]])
        y, lens, lp = y.unsqueeze(1), lens.unsqueeze(0), lp.unsqueeze(0)
        N = 1
    else:
        N = batch
        require(y.dim() == 3 and tuple(y.shape[1:]) == (N, W) and tuple(lens.shape) == (N, W) and tuple(lp.shape) == (N, W),
                "batched result shapes", [list(y.shape), list(lens.shape), list(lp.shape)], [N, W])
    S = y.size(0)
    out = []
    for n in range(N):
        slots = []
        for k in range(W):
            L = int(lens[n, k])
            sc = float(lp[n, k])
            toks = [int(v) for v in y[: max(0, min(L, S)), n, k]]
            slots.append((toks, L, sc))
        out.append(slots)
    return S, out


def validate_element(case, cond, S, slots, classes):
    """The statement's validity predicates for one batch element. Returns the finite slots."""
    spec = case["lm"]
    V = spec["V"]
    eos = _norm_eos(case["eos"], V)
    T = case["max_iters"]
    finite = []
    seen_neg_inf = False
    prev_score = math.inf
    for k, (toks, L, sc) in enumerate(slots):
        require(not math.isnan(sc), "slot %d has a NaN score" % k, sc, "a number or -inf")
        require(sc <= prev_score, "scores are not ordered best first (slot %d)" % k, [s[2] for s in slots], "non-increasing")
        prev_score = sc
        if sc == NEG_INF:
            seen_neg_inf = True
            continue
        require(sc < math.inf, "slot %d has score +inf" % k, sc, "finite")
        require(not seen_neg_inf, "finite slot %d after a -inf slot" % k, [s[2] for s in slots], "-inf slots last")
        require(0 <= L <= S, "slot %d: reported length outside [0, S]" % k, L, S)
        if T is not None:
            require(L <= T, "slot %d: path longer than max_iters" % k, L, T)
        require(all(0 <= v < V for v in toks), "slot %d: token outside the vocabulary" % k, toks, V)
        if eos is not None:
            require(eos not in toks[:-1], "slot %d: eos before the last counted position" % k, toks, eos)
        else:
            require(L == T, "slot %d: without eos every path has max_iters tokens" % k, L, T)
        exp = declm.py_chain(spec, cond, toks)
        require(close(sc, exp, rel=1e-5, abs_=2e-5), "slot %d: reported log-probability != chained model log-probability" % k,
                sc, {"tokens": toks, "chain": exp})
        finite.append((tuple(toks), sc))
    require(len(finite) >= 1, "no slot with a finite score", [s[2] for s in slots], ">= 1 finite")
    paths = [p for p, _ in finite]
    require(len(set(paths)) == len(paths), "a path occurs twice among the finite slots", [list(p) for p in paths], "distinct")
    if eos is not None and T is None:
        # the search can only have stopped because the stopping rule was met
        if case["finish_all"]:
            bad = [list(p) for p in paths if not p or p[-1] != eos]
            require(not bad, "finish_all_paths: search without step limit ended with an unfinished path", bad, "all end in eos")
        else:
            p0 = paths[0]
            require(len(p0) > 0 and p0[-1] == eos, "search without step limit ended but the best path has no eos", list(p0), eos)
    if len(finite) < len(slots):
        classes.add("has_unusable_slots")
    if eos is not None:
        ends = [p and p[-1] == eos for p in paths]
        if any(ends) and not all(ends):
            classes.add("finished_and_unfinished_paths")
        if len({len(p) for p in paths if p and p[-1] == eos}) >= 2:
            classes.add("paths_finish_at_different_steps")
    return finite


def check_exhaustive(case, cond, finite):
    spec = case["lm"]
    V = spec["V"]
    eos = _norm_eos(case["eos"], V)
    T = case["max_iters"]
    exp = {tuple(p): declm.py_chain(spec, cond, p) for p in complete_sequences(V, eos, T)}
    # sequences the model gives probability zero cannot be told from unusable slots (documented)
    exp = {p: v for p, v in exp.items() if v > NEG_INF}
    got = dict(finite)
    require(set(got) == set(exp), "exhaustive regime: finite slots are not exactly the complete sequences",
            sorted(map(list, got)), sorted(map(list, exp)))
    for p, sc in got.items():
        require(close(sc, exp[p], rel=1e-5, abs_=2e-5), "exhaustive regime: score", sc, exp[p])


def is_exhaustive_regime(case):
    V = case["lm"]["V"]
    eos = _norm_eos(case["eos"], V)
    T = case["max_iters"]
    if T is None:
        return False
    if eos is not None and not case["finish_all"]:
        return False
    return case["width"] >= n_complete(V, eos, T)


# ---------------------------------------------------------------------- strategies


def _search_cases(tier, regime="any", batch_choices=(None, 1, 2, 3), eos_kinds=("pos", "none", "pos", "pos", "neg"),
                  contrast=False, zero_prob=False):
    maxT = 4 if tier == "quick" else 5
    Ts = [3, 0, 1, 2, 2, 3, 3] + [4] * 3 + ([5] * 3 if maxT >= 5 else [])

    @st.composite
    def _s(draw):
        spec = draw(declm.lm_specs(2 if zero_prob else 1, 4, max_cond=3, min_cond=2 if contrast else 1, zero_prob=zero_prob))
        V, C = spec["V"], len(spec["cond"])
        kind = draw(st.sampled_from(list(eos_kinds)))
        if kind == "none":
            eos = None
        elif kind == "pos":
            eos = draw(st.integers(0, V - 1))
        else:
            eos = draw(st.integers(-V, -1))
        finish_all = draw(st.booleans())
        if zero_prob:
            # with finish_all_paths a zero-probability path that never emits eos keeps the search alive after every
            # live path has finished; the documentation warns that such paths cannot be told from invalid ones
            finish_all = False
        T = draw(st.sampled_from(Ts))
        if regime == "exhaustive":
            T = min(T, 3 if V >= 4 else maxT)
            if eos is not None:
                finish_all = True
        max_iters = T
        if regime == "any" and eos is not None and draw(st.integers(0, 7)) == 7:
            max_iters = None
        nc = n_complete(V, _norm_eos(eos, V), T)
        if regime == "exhaustive":
            width = draw(st.sampled_from([nc, nc, nc + 1, nc + 3, 2 * nc + 1]))
        else:
            width = draw(st.one_of(st.sampled_from([2, 1, 3, 4]), st.integers(1, max(1, nc - 1)), st.integers(1, nc + 3),
                                   st.sampled_from([nc, nc + 1, nc + 5])))
        batch = draw(st.sampled_from(sorted(batch_choices, key=lambda b: (b != 2, b is not None, b))))
        conds = draw(st.lists(st.integers(0, C - 1), min_size=batch or 1, max_size=batch or 1))
        if contrast and eos is not None and V >= 2 and draw(st.sampled_from([True, True, False])):
            # one element that wants to stop at once next to one that does not: elements finish at different steps
            e = _norm_eos(eos, V)
            spec["cond"][0][e], spec["cond"][1][e] = 24, -24
            conds[:2] = draw(st.sampled_from([[0, 1], [1, 0]]))
        case = {"lm": spec, "width": width, "eos": eos, "finish_all": finish_all, "max_iters": max_iters,
                "batch": batch, "conds": conds, "pad_value": draw(st.sampled_from([-1, 0, 3, -100]))}
        if batch is None and conds == [0]:
            case["no_init"] = draw(st.booleans())
        return case

    return _s()


def _classes_for(case, extra):
    V = case["lm"]["V"]
    eos = _norm_eos(case["eos"], V)
    T = case["max_iters"]
    cl = set(extra)
    cl.add("eos_unset" if eos is None else "eos_set")
    if case["eos"] is not None and case["eos"] < 0:
        cl.add("eos_negative_index")
    cl.add("batch_none" if case["batch"] is None else "batch_%d" % case["batch"])
    if T is None:
        cl.add("max_iters_unset")
    elif T == 0:
        cl.add("max_iters_0")
    if eos is not None:
        cl.add("finish_all" if case["finish_all"] else "finish_first")
    if T is not None:
        nc = n_complete(V, eos, T)
        if case["width"] < nc:
            cl.add("width_prunes")
        elif case["width"] == nc:
            cl.add("width_exact")
        else:
            cl.add("width_beyond_exhaustive")
    if case["lm"]["M"] >= 2:
        cl.add("stateful_lm")
    return cl


def _nontrivial(cl):
    return bool(("width_prunes" in cl and "paths_finish_at_different_steps" in cl)
                or "elements_finish_at_different_steps" in cl
                or "width_beyond_exhaustive" in cl)


# ------------------------------------------------------------------------ sub-checks


def _validity_check(case):
    cl = set()
    S, elems = run_search(case, case["conds"], case["batch"])
    T = case["max_iters"]
    if T is not None:
        require(S <= T, "more sequence positions than max_iters", S, T)
    steps = set()
    for n, slots in enumerate(elems):
        finite = validate_element(case, case["conds"][n], S, slots, cl)
        if is_exhaustive_regime(case):
            check_exhaustive(case, case["conds"][n], finite)
            cl.add("exhaustive_regime")
        steps.add(max(len(p) for p, _ in finite))
    if len(steps) >= 2:
        cl.add("elements_finish_at_different_steps")
    cl = _classes_for(case, cl)
    return Info(nontrivial=_nontrivial(cl), classes=sorted(cl))


subcheck("C04", "validity", lambda tier: _search_cases(tier, "any"), 1200, 30000,
         doc="generated (HashLM with state only in prev, width, eos incl. negative index, finish_all_paths, max_iters 0..4|5 or "
             "unset, batch None/1..3): every finite slot in range, stops at first eos, distinct, score == pure-Python chain of the "
             "model, best first, -inf last; full set in the exhaustive regime",
         required_classes=["width_prunes", "width_beyond_exhaustive", "eos_set", "eos_unset", "finish_all", "finish_first",
                           "paths_finish_at_different_steps", "stateful_lm", "batch_none", "max_iters_0"])(_validity_check)

subcheck("C04", "exhaustive", lambda tier: _search_cases(tier, "exhaustive"), 500, 10000,
         doc="forced exhaustive regime (eos unset, or eos set with finish_all_paths; max_iters = T; width >= number of complete "
             "sequences): finite slots == enumerated complete sequences with their chained scores",
         required_classes=["exhaustive_regime", "width_exact", "width_beyond_exhaustive"])(_validity_check)


def _zero_prob_check(case):
    info = _validity_check(case)
    if case["lm"].get("ninf"):
        info.classes.append("zero_probability_tokens")
    return info


subcheck("C04", "zero_prob_lm", lambda tier: _search_cases(tier, "any", zero_prob=True), 600, 12000,
         doc="language models that give some tokens probability exactly zero (-inf log-probability): a slot with a finite score "
             "must still carry the chained log-probability of its path (so no zero-probability sequence may come back with a "
             "finite score); exhaustive regime compared on the positive-probability sequences",
         required_classes=["zero_probability_tokens", "width_beyond_exhaustive"])(_zero_prob_check)


def _match_lists(a, b, what, tol=1e-4):
    """Two result lists (finite slots, best first) for the same element: equal score vectors; a slot whose
    score is separated by more than tol from every other score of both lists must hold the same path in
    both (paths inside a near-tie group may legitimately be ordered or chosen differently)."""
    sa, sb = [s for _, s in a], [s for _, s in b]
    require(len(sa) == len(sb) and all(close(x, y, rel=1e-5, abs_=2e-5) for x, y in zip(sa, sb)),
            what + ": score vectors differ", sa, sb)
    for i, (p, s) in enumerate(a):
        alone = all(abs(s - s2) > tol for j, s2 in enumerate(sa) if j != i) and \
            all(abs(s - s2) > tol for j, s2 in enumerate(sb) if j != i)
        if alone:
            require(b[i][0] == p, what + ": slot %d holds different paths" % i, list(p), list(b[i][0]))


def _independence_cases(tier):
    base = _search_cases(tier, "any", batch_choices=(2, 3), eos_kinds=("pos", "none", "pos", "pos", "pos", "neg"),
                        contrast=True)

    @st.composite
    def _s(draw):
        case = draw(base)
        C = len(case["lm"]["cond"])
        case["partner"] = draw(st.integers(0, C - 1))
        return case

    return _s()


@subcheck("C04", "batch_independence", _independence_cases, 700, 15000,
          doc="element n of a batched search == solo search (batch_size=1 and batch_size unset) of that element == the same element "
              "searched next to a different partner; finite slots validated in all runs",
          required_classes=["elements_finish_at_different_steps", "partner_changes_step_count"])
def _independence_check(case):
    cl = set()
    conds = case["conds"]
    S, elems = run_search(case, conds, case["batch"])
    fin = [validate_element(case, conds[n], S, slots, cl) for n, slots in enumerate(elems)]
    lens_b = [[L for _, L, _ in slots] for slots in elems]
    solo_steps = set()
    for n in range(len(conds)):
        S1, e1 = run_search(case, [conds[n]], 1)
        f1 = validate_element(case, conds[n], S1, e1[0], set())
        _match_lists(fin[n], f1, "element %d batched vs batch_size=1" % n)
        S0, e0 = run_search(case, [conds[n]], None)
        f0 = validate_element(case, conds[n], S0, e0[0], set())
        _match_lists(fin[n], f0, "element %d batched vs unbatched" % n)
        solo_steps.add(S1)
        if S1 != S:
            cl.add("solo_shorter_than_batch")
    if len(solo_steps) >= 2:
        cl.add("elements_finish_at_different_steps")
    # a different partner for element 0
    Sp, ep = run_search(case, [conds[0], case["partner"]], 2)
    fp = validate_element(case, conds[0], Sp, ep[0], set())
    _match_lists(fin[0], fp, "element 0 next to another partner")
    if Sp != S:
        cl.add("partner_changes_step_count")
    cl = _classes_for(case, cl)
    return Info(nontrivial=_nontrivial(cl), classes=sorted(cl))


# ---------------------------------------------------------------- the step function


def _advance_cases(tier):
    @st.composite
    def _s(draw):
        N = draw(st.integers(1, 2))
        Kp = draw(st.integers(1, 3))
        V = draw(st.integers(1, 3))
        S = draw(st.integers(0, 3))
        width = draw(st.integers(1, Kp * V + 2))
        ext = draw(st.lists(st.lists(st.lists(st.integers(-40, 0), min_size=V, max_size=V), min_size=Kp, max_size=Kp),
                            min_size=N, max_size=N))
        prev = draw(st.lists(st.lists(st.one_of(st.integers(-40, 0), st.integers(-40, 0), st.none()), min_size=Kp, max_size=Kp),
                             min_size=N, max_size=N))
        y = draw(st.lists(st.lists(st.lists(st.integers(0, max(V - 1, 0)), min_size=Kp, max_size=Kp), min_size=N, max_size=N),
                          min_size=S, max_size=S))
        lens_kind = draw(st.sampled_from(["none", "full", "mixed"]))
        if lens_kind == "none":
            lens = None
        elif lens_kind == "full":
            lens = [[S] * Kp for _ in range(N)]
        else:
            lens = draw(st.lists(st.lists(st.integers(0, S), min_size=Kp, max_size=Kp), min_size=N, max_size=N))
        return {"N": N, "Kp": Kp, "V": V, "S": S, "width": width, "ext": ext, "prev": prev, "y": y, "lens": lens}

    return _s()


@subcheck("C04", "advance", _advance_cases, 1500, 30000,
          doc="beam_search_advance on dyadic (k/4) scores incl. -inf prefixes, y_prev_lens unset/full/ragged: returned scores == top-width "
              "of prefix+extension sums (exact), each slot consistent with its source (prefix copied, token appended, length+1, next_src)",
          required_classes=["ragged_lens", "fills_beyond_candidates", "prunes"])
def _advance_check(case):
    import torch
    from pydrobert.torch.functional import beam_search_advance

    N, Kp, V, S, W = case["N"], case["Kp"], case["V"], case["S"], case["width"]
    ext = torch.tensor(case["ext"], dtype=torch.float32).view(N, Kp, V) / 4
    prevl = [[NEG_INF if v is None else v / 4 for v in row] for row in case["prev"]]
    prev = torch.tensor(prevl, dtype=torch.float32).view(N, Kp)
    y = torch.tensor(case["y"], dtype=torch.long).view(S, N, Kp)
    lens = None if case["lens"] is None else torch.tensor(case["lens"], dtype=torch.long).view(N, Kp)
    y_next, y_next_lens, lp_next, src = beam_search_advance(ext, W, prev, y, lens)
    require(tuple(lp_next.shape) == (N, W) and tuple(y_next_lens.shape) == (N, W) and tuple(src.shape) == (N, W)
            and tuple(y_next.shape[1:]) == (N, W) and y_next.size(0) in (S, S + 1),
            "result shapes", [list(t.shape) for t in (y_next, y_next_lens, lp_next, src)], [N, W])
    K = min(W, Kp * V)
    cl = set()
    for n in range(N):
        cand = sorted((prevl[n][k] + case["ext"][n][k][v] / 4 for k in range(Kp) for v in range(V)), reverse=True)
        got = [float(x) for x in lp_next[n]]
        require(got[:K] == cand[:K], "scores are not the top-width candidate sums, best first", got, cand[:K])
        require(all(g == NEG_INF for g in got[K:]), "slots beyond the possible candidates must carry -inf", got[K:], "-inf")
        used = set()
        for k in range(K):
            s = int(src[n, k])
            L = int(y_next_lens[n, k])
            require(0 <= s < Kp, "next_src out of range", s, Kp)
            Lp = S if case["lens"] is None else case["lens"][n][s]
            require(L == Lp + 1, "length of slot %d is not its source's length + 1" % k, L, Lp + 1)
            require(L <= y_next.size(0), "length exceeds the returned tensor", L, y_next.size(0))
            toks = [int(v) for v in y_next[:L, n, k]]
            src_toks = [case["y"][t][n][s] for t in range(Lp)]
            require(toks[:-1] == src_toks, "prefix of slot %d is not its source path" % k, toks, src_toks)
            v = toks[-1]
            require(0 <= v < V, "appended token out of range", v, V)
            require((s, v) not in used, "the same (source, token) candidate was taken twice", [s, v], None)
            used.add((s, v))
            require(got[k] == prevl[n][s] + case["ext"][n][s][v] / 4, "score of slot %d is not prefix + extension score" % k,
                    got[k], prevl[n][s] + case["ext"][n][s][v] / 4)
    if case["lens"] is not None and any(len(set(r)) > 1 for r in case["lens"]):
        cl.add("ragged_lens")
    if W > Kp * V:
        cl.add("fills_beyond_candidates")
    if W < Kp * V:
        cl.add("prunes")
    if any(v is None for r in case["prev"] for v in r):
        cl.add("neg_inf_prefix")
    return Info(nontrivial=("prunes" in cl or "fills_beyond_candidates" in cl) and Kp >= 2, classes=sorted(cl))
