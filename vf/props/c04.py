"""C04 Beam search returns distinct, correctly scored, best-first paths per element."""
from __future__ import annotations

import itertools
import math

from hypothesis import strategies as st

from ..core import Info, Reject, close, require, subcheck
from .. import declm
from .. import declayout as dl

NEG_INF = float("-inf")
CAP = 12  # step bound for searches without max_iters (harness guard, see declm.StepCap)


# ----------------------------------------------------------------------- helpers


def _norm_eos(eos, V):
    return None if eos is None else (eos + V) % V


def complete_sequences(V, eos, T):
    """All token sequences a search of at most T steps can end with: length T without eos, or
    ending in their first eos with length <= T."""
    out = []
    if eos is None:
        return [list(p) for p in itertools.product(range(V), repeat=T)]
    others = [v for v in range(V) if v != eos]
    for l in range(1, T + 1):
        for p in itertools.product(others, repeat=l - 1):
            out.append(list(p) + [eos])
    for p in itertools.product(others, repeat=T):
        out.append(list(p))
    if T == 0:
        return [[]]
    return out


def n_complete(V, eos, T):
    if eos is None:
        return V ** T
    if T == 0:
        return 1
    return sum((V - 1) ** (l - 1) for l in range(1, T + 1)) + (V - 1) ** T


def _fl(x):
    return float(x)


def build_search(case, spec=None):
    """A fresh (HashLM, BeamSearch) pair for the case."""
    from pydrobert.torch.modules import BeamSearch

    spec = spec or case["lm"]
    lm = declm.make_lm(spec, cap=CAP if case["max_iters"] is None else None)
    search = BeamSearch(lm, case["width"], eos=case["eos"], finish_all_paths=case["finish_all"],
                        pad_value=case.get("pad_value", -1))
    return lm, search


def run_search(case, conds, batch, search=None, spec=None):
    """Call the real BeamSearch; returns (S, [per element: list of (tokens, len, score)]).
    `search` = an existing module to be used again (call-pattern classes); otherwise a fresh one."""
    import torch

    if search is None:
        _, search = build_search(case, spec)
    if case.get("no_init") and batch is None and conds == [0]:
        init = None
    else:
        # the initial state is handed to the model as it is: any memory layout of it must do
        init = {"cond": dl.relayout(torch.tensor(conds, dtype=torch.long), case.get("cond_layout", "contiguous"))}
        if "fusion" in (spec or case["lm"]):
            init = declm.initial_state(spec or case["lm"], conds)
    y, lens, lp = search(init, batch, case["max_iters"])
    W = case["width"]
    if batch is None:
        require(y.dim() == 2 and tuple(lens.shape) == (W,) and tuple(lp.shape) == (W,),
                "unbatched result shapes", [list(y.shape), list(lens.shape), list(lp.shape)], ["(S,%d)" % W, [W], [W]])
        y, lens, lp = y.unsqueeze(1), lens.unsqueeze(0), lp.unsqueeze(0)
        N = 1
    else:
        N = batch
        require(y.dim() == 3 and tuple(y.shape[1:]) == (N, W) and tuple(lens.shape) == (N, W) and tuple(lp.shape) == (N, W),
                "batched result shapes", [list(y.shape), list(lens.shape), list(lp.shape)], [N, W])
    S = y.size(0)
    out = []
    lens_l, lp_l = lens.tolist(), lp.tolist()
    for n in range(N):
        slots = []
        for k in range(W):
            L = int(lens_l[n][k])
            sc = float(lp_l[n][k])
            toks = y[: max(0, min(L, S)), n, k].tolist() if sc > NEG_INF else []
            slots.append((toks, L, sc))
        out.append(slots)
    return S, out


def validate_element(case, cond, S, slots, classes, spec=None, chain=None, rel=1e-5):
    """The statement's validity predicates for one batch element. Returns the finite slots.
    `chain(cond, tokens)` = the from-scratch log-probability of a path (default: declm.py_chain on the case's model)."""
    spec = spec or case["lm"]
    if chain is None:
        def chain(c, toks):
            return declm.py_chain(spec, c, toks)
    V = spec["V"]
    eos = _norm_eos(case["eos"], V)
    T = case["max_iters"]
    finite = []
    seen_neg_inf = False
    prev_score = math.inf
    scores = [s[2] for s in slots]
    for k, (toks, L, sc) in enumerate(slots):
        require(not math.isnan(sc), "slot %d has a NaN score" % k, sc, "a number or -inf")
        require(sc <= prev_score, "scores are not ordered best first (slot %d)" % k, scores, "non-increasing")
        prev_score = sc
        if sc == NEG_INF:
            seen_neg_inf = True
            continue
        require(sc < math.inf, "slot %d has score +inf" % k, sc, "finite")
        require(not seen_neg_inf, "finite slot %d after a -inf slot" % k, scores, "-inf slots last")
        require(0 <= L <= S, "slot %d: reported length outside [0, S]" % k, L, S)
        if T is not None:
            require(L <= T, "slot %d: path longer than max_iters" % k, L, T)
        require(all(0 <= v < V for v in toks), "slot %d: token outside the vocabulary" % k, toks, V)
        if eos is not None:
            require(eos not in toks[:-1], "slot %d: eos before the last counted position" % k, toks, eos)
        else:
            require(L == T, "slot %d: without eos every path has max_iters tokens" % k, L, T)
        exp = chain(cond, toks)
        # (absolute part: about 2^-24 per float32 log-softmax term, however small the term - it matters for long paths only)
        require(close(sc, exp, rel=rel, abs_=2e-5 + len(toks) * 2.4e-7), "slot %d: reported log-probability != chained model log-probability" % k,
                sc, {"tokens": toks, "chain": exp})
        finite.append((tuple(toks), sc))
    require(len(finite) >= 1, "no slot with a finite score", scores, ">= 1 finite")
    paths = [p for p, _ in finite]
    require(len(set(paths)) == len(paths), "a path occurs twice among the finite slots", [list(p) for p in paths], "distinct")
    if eos is not None and T is None:
        # the search can only have stopped because the stopping rule was met
        if case["finish_all"]:
            bad = [list(p) for p in paths if not p or p[-1] != eos]
            require(not bad, "finish_all_paths: search without step limit ended with an unfinished path", bad, "all end in eos")
        else:
            p0 = paths[0]
            require(len(p0) > 0 and p0[-1] == eos, "search without step limit ended but the best path has no eos", list(p0), eos)
    if len(finite) < len(slots):
        classes.add("has_unusable_slots")
    if eos is not None:
        ends = [p and p[-1] == eos for p in paths]
        if any(ends) and not all(ends):
            classes.add("finished_and_unfinished_paths")
        if len({len(p) for p in paths if p and p[-1] == eos}) >= 2:
            classes.add("paths_finish_at_different_steps")
    return finite


def check_exhaustive(case, cond, finite, spec=None, chain=None):
    spec = spec or case["lm"]
    if chain is None:
        def chain(c, toks):
            return declm.py_chain(spec, c, toks)
    V = spec["V"]
    eos = _norm_eos(case["eos"], V)
    T = case["max_iters"]
    exp = {tuple(p): chain(cond, p) for p in complete_sequences(V, eos, T)}
    # sequences the model gives probability zero cannot be told from unusable slots (documented)
    exp = {p: v for p, v in exp.items() if v > NEG_INF}
    got = dict(finite)
    require(set(got) == set(exp), "exhaustive regime: finite slots are not exactly the complete sequences",
            sorted(map(list, got)), sorted(map(list, exp)))
    for p, sc in got.items():
        require(close(sc, exp[p], rel=1e-5, abs_=2e-5), "exhaustive regime: score", sc, exp[p])


def is_exhaustive_regime(case, V=None):
    V = V or case["lm"]["V"]
    eos = _norm_eos(case["eos"], V)
    T = case["max_iters"]
    if T is None:
        return False
    if eos is not None and not case["finish_all"]:
        return False
    return case["width"] >= n_complete(V, eos, T)


# ---------------------------------------------------------------------- strategies


def _search_cases(tier, regime="any", batch_choices=(None, 1, 2, 3), eos_kinds=("pos", "none", "pos", "pos", "neg"),
                  contrast=False, zero_prob=False):
    maxT = 4 if tier == "quick" else 5
    Ts = [3, 0, 1, 2, 2, 3, 3] + [4] * 3 + ([5] * 3 if maxT >= 5 else [])

    @st.composite
    def _s(draw):
        spec = draw(declm.lm_specs(2 if zero_prob else 1, 4, max_cond=3, min_cond=2 if contrast else 1, zero_prob=zero_prob))
        V, C = spec["V"], len(spec["cond"])
        kind = draw(st.sampled_from(list(eos_kinds)))
        if kind == "none":
            eos = None
        elif kind == "pos":
            eos = draw(st.integers(0, V - 1))
        else:
            eos = draw(st.integers(-V, -1))
        finish_all = draw(st.booleans())
        if zero_prob:
            # with finish_all_paths a zero-probability path that never emits eos keeps the search alive after every
            # live path has finished; the documentation warns that such paths cannot be told from invalid ones
            finish_all = False
        T = draw(st.sampled_from(Ts))
        if regime == "exhaustive":
            T = min(T, 3 if V >= 4 else maxT)
            if eos is not None:
                finish_all = True
        max_iters = T
        if regime == "any" and eos is not None and draw(st.integers(0, 7)) == 7:
            max_iters = None
        nc = n_complete(V, _norm_eos(eos, V), T)
        if regime == "exhaustive":
            width = draw(st.sampled_from([nc, nc, nc + 1, nc + 3, 2 * nc + 1]))
        else:
            width = draw(st.one_of(st.sampled_from([2, 1, 3, 4]), st.integers(1, max(1, nc - 1)), st.integers(1, nc + 3),
                                   st.sampled_from([nc, nc + 1, nc + 5])))
        batch = draw(st.sampled_from(sorted(batch_choices, key=lambda b: (b != 2, b is not None, b))))
        conds = draw(st.lists(st.integers(0, C - 1), min_size=batch or 1, max_size=batch or 1))
        extreme = None
        if draw(st.sampled_from([0, 0, 0, 0, 1])):
            # extreme but legal magnitudes: condition rows scaled to logits of up to about +-1e6 (still exact in float32),
            # i.e. next-token log-probabilities down to about -2e6 and probabilities that round to exactly 1
            extreme = draw(st.sampled_from([10, 14, 18]))
            spec["cond"] = [[v * 2 ** extreme for v in row] for row in spec["cond"]]
        if contrast and eos is not None and V >= 2 and draw(st.sampled_from([True, True, False])):
            # one element that wants to stop at once next to one that does not: elements finish at different steps
            e = _norm_eos(eos, V)
            spec["cond"][0][e], spec["cond"][1][e] = 24, -24
            conds[:2] = draw(st.sampled_from([[0, 1], [1, 0]]))
        case = {"lm": spec, "width": width, "eos": eos, "finish_all": finish_all, "max_iters": max_iters,
                "batch": batch, "conds": conds, "pad_value": draw(st.sampled_from([-1, 0, 3, -100, 2 ** 40, -2 ** 40]))}
        if batch is None and conds == [0]:
            case["no_init"] = draw(st.booleans())
        if extreme is not None:
            case["extreme"] = extreme
        case["cond_layout"] = draw(st.sampled_from(["contiguous", "offset", "strided", "contiguous"]))
        return case

    return _s()


def _classes_for(case, extra):
    V = case["lm"]["V"]
    eos = _norm_eos(case["eos"], V)
    T = case["max_iters"]
    cl = set(extra)
    cl.add("eos_unset" if eos is None else "eos_set")
    if case["eos"] is not None and case["eos"] < 0:
        cl.add("eos_negative_index")
    cl.add("batch_none" if case["batch"] is None else "batch_%d" % case["batch"])
    if T is None:
        cl.add("max_iters_unset")
    elif T == 0:
        cl.add("max_iters_0")
    if eos is not None:
        cl.add("finish_all" if case["finish_all"] else "finish_first")
    if T is not None:
        nc = n_complete(V, eos, T)
        if case["width"] < nc:
            cl.add("width_prunes")
        elif case["width"] == nc:
            cl.add("width_exact")
        else:
            cl.add("width_beyond_exhaustive")
    if case["lm"]["M"] >= 2:
        cl.add("stateful_lm")
    if case.get("extreme") is not None:
        cl.add("extreme_logits")
    if case.get("cond_layout", "contiguous") != "contiguous" and not case.get("no_init"):
        cl.add("initial_state_layout_" + case["cond_layout"])
    if abs(case.get("pad_value", -1)) > 2 ** 32:
        cl.add("huge_pad_value")
    return cl


def _nontrivial(cl):
    return bool(("width_prunes" in cl and "paths_finish_at_different_steps" in cl)
                or "elements_finish_at_different_steps" in cl
                or "width_beyond_exhaustive" in cl)


# ------------------------------------------------------------------------ sub-checks


def _validity_check(case):
    cl = set()
    S, elems = run_search(case, case["conds"], case["batch"])
    T = case["max_iters"]
    if T is not None:
        require(S <= T, "more sequence positions than max_iters", S, T)
    steps = set()
    for n, slots in enumerate(elems):
        finite = validate_element(case, case["conds"][n], S, slots, cl)
        if is_exhaustive_regime(case):
            check_exhaustive(case, case["conds"][n], finite)
            cl.add("exhaustive_regime")
        steps.add(max(len(p) for p, _ in finite))
    if len(steps) >= 2:
        cl.add("elements_finish_at_different_steps")
    cl = _classes_for(case, cl)
    return Info(nontrivial=_nontrivial(cl), classes=sorted(cl))


subcheck("C04", "validity", lambda tier: _search_cases(tier, "any"), 1200, 30000,
         doc="generated (HashLM with state only in prev, width, eos incl. negative index, finish_all_paths, max_iters 0..4|5 or "
             "unset, batch None/1..3): every finite slot in range, stops at first eos, distinct, score == pure-Python chain of the "
             "model, best first, -inf last; full set in the exhaustive regime. Also condition rows scaled by 2**10..2**18 (logits up to "
             "+-1e6, probabilities that round to exactly 0 / 1), pad values +-2**40, the initial state as an offset / strided view",
         required_classes=["width_prunes", "width_beyond_exhaustive", "eos_set", "eos_unset", "finish_all", "finish_first",
                           "paths_finish_at_different_steps", "stateful_lm", "batch_none", "max_iters_0", "extreme_logits",
                           "initial_state_layout_offset", "initial_state_layout_strided", "huge_pad_value"])(_validity_check)

subcheck("C04", "exhaustive", lambda tier: _search_cases(tier, "exhaustive"), 500, 10000,
         doc="forced exhaustive regime (eos unset, or eos set with finish_all_paths; max_iters = T; width >= number of complete "
             "sequences): finite slots == enumerated complete sequences with their chained scores",
         required_classes=["exhaustive_regime", "width_exact", "width_beyond_exhaustive"])(_validity_check)


def _zero_prob_check(case):
    info = _validity_check(case)
    if case["lm"].get("ninf"):
        info.classes.append("zero_probability_tokens")
    return info


subcheck("C04", "zero_prob_lm", lambda tier: _search_cases(tier, "any", zero_prob=True), 600, 12000,
         doc="language models that give some tokens probability exactly zero (-inf log-probability): a slot with a finite score "
             "must still carry the chained log-probability of its path (so no zero-probability sequence may come back with a "
             "finite score); exhaustive regime compared on the positive-probability sequences",
         required_classes=["zero_probability_tokens", "width_beyond_exhaustive"])(_zero_prob_check)


def _fusion_cases(tier):
    base = _search_cases(tier, "any", batch_choices=(None, 1, 2, 3))

    @st.composite
    def _s(draw):
        case = draw(base)
        s1 = case["lm"]
        V = s1["V"]
        s2 = draw(declm.lm_specs(V, V, max_cond=len(s1["cond"]), min_cond=len(s1["cond"])))
        beta = draw(st.sampled_from([0.5, 0.25, 1.0, -0.5, 2.0]))
        case["lm"] = {"V": V, "M": max(s1["M"], s2["M"]), "cond": s1["cond"], "fusion": [s1, s2, beta]}
        case["no_init"] = False
        case.pop("cond_layout", None)
        return case

    return _s()


def _fusion_check(case):
    info = _validity_check(case)
    s1, s2, beta = case["lm"]["fusion"]
    info.classes.append("fusion_both_stateful" if s1["M"] >= 2 and s2["M"] >= 2 else "fusion_some_stateless")
    return info


subcheck("C04", "fusion_lm", _fusion_cases, 500, 10000,
         doc="the library's own shallow-fusion language model (MixableShallowFusionLanguageModel over two HashLMs that keep "
             "their state under the same key names, beta in {-0.5 .. 2}) searched by BeamSearch: same validity predicates, the "
             "chain being log-softmax(first + beta * second) computed from scratch in pure Python",
         required_classes=["fusion_both_stateful", "width_prunes"])(_fusion_check)


def _match_lists(a, b, what, tol=1e-4):
    """Two result lists (finite slots, best first) for the same element: equal score vectors; a slot whose
    score is separated by more than tol from every other score of both lists must hold the same path in
    both (paths inside a near-tie group may legitimately be ordered or chosen differently)."""
    sa, sb = [s for _, s in a], [s for _, s in b]
    require(len(sa) == len(sb) and all(close(x, y, rel=1e-5, abs_=2e-5) for x, y in zip(sa, sb)),
            what + ": score vectors differ", sa, sb)
    for i, (p, s) in enumerate(a):
        # (tol plus a float32-relative part: with extreme magnitudes the scores themselves are only resolved to ~1e-7 relative)
        alone = all(abs(s - s2) > tol + 4e-6 * abs(s) for j, s2 in enumerate(sa) if j != i) and \
            all(abs(s - s2) > tol + 4e-6 * abs(s) for j, s2 in enumerate(sb) if j != i)
        if alone:
            require(b[i][0] == p, what + ": slot %d holds different paths" % i, list(p), list(b[i][0]))


def _independence_cases(tier):
    base = _search_cases(tier, "any", batch_choices=(2, 3), eos_kinds=("pos", "none", "pos", "pos", "pos", "neg"),
                        contrast=True)

    @st.composite
    def _s(draw):
        case = draw(base)
        C = len(case["lm"]["cond"])
        case["partner"] = draw(st.integers(0, C - 1))
        # call pattern: every run on a module of its own / all runs on one module (and one model object) /
        # the same with train()-eval() switches in between / the same after a search that died half-way
        case["pattern"] = draw(st.sampled_from(["fresh", "shared_module", "shared_module_modes", "abandoned_first"]))
        return case

    return _s()


def _same_results(a, b):
    return len(a) == len(b) and all(
        len(x) == len(y) and all(tx == ty and lx == ly and (sx == sy) for (tx, lx, sx), (ty, ly, sy) in zip(x, y))
        for x, y in zip(a, b))


@subcheck("C04", "batch_independence", _independence_cases, 700, 15000,
          doc="element n of a batched search == solo search (batch_size=1 and batch_size unset) of that element == the same element "
              "searched next to a different partner; finite slots validated in all runs. Call patterns: each run on a fresh module, "
              "or all runs on ONE BeamSearch/model object (optionally with train()/eval() switches, optionally after a search that "
              "was abandoned half-way), the first call repeated at the end and required to return exactly the same",
          required_classes=["elements_finish_at_different_steps", "partner_changes_step_count", "module_reused",
                            "train_eval_toggled", "abandoned_search"])
def _independence_check(case):
    import torch

    cl = set()
    conds = case["conds"]
    pattern = case.get("pattern", "fresh")
    shared = None
    toggle = [0]
    if pattern != "fresh":
        lm, shared = build_search(case)
        cl.add("module_reused")
        if pattern == "abandoned_first":
            # the model refuses the second step: the search dies inside its loop; the module is then used normally
            cap, lm.cap = lm.cap, 0
            try:
                # (other conditions than the judged calls use, same batch size)
                shared({"cond": torch.tensor([case["partner"]] * len(conds), dtype=torch.long)}, case["batch"],
                       max(case["max_iters"] or CAP, 2))
            except declm.StepCap:
                cl.add("abandoned_search")
            lm.cap = cap

    def run(cs, batch):
        if pattern == "shared_module_modes":
            toggle[0] += 1
            shared.train(toggle[0] % 2 == 0)
            cl.add("train_eval_toggled")
        return run_search(case, cs, batch, search=shared)

    S, elems = run(conds, case["batch"])
    fin = [validate_element(case, conds[n], S, slots, cl) for n, slots in enumerate(elems)]
    solo_steps = set()
    for n in range(len(conds)):
        S1, e1 = run([conds[n]], 1)
        f1 = validate_element(case, conds[n], S1, e1[0], set())
        _match_lists(fin[n], f1, "element %d batched vs batch_size=1" % n)
        S0, e0 = run([conds[n]], None)
        f0 = validate_element(case, conds[n], S0, e0[0], set())
        _match_lists(fin[n], f0, "element %d batched vs unbatched" % n)
        solo_steps.add(S1)
        if S1 != S:
            cl.add("solo_shorter_than_batch")
    if len(solo_steps) >= 2:
        cl.add("elements_finish_at_different_steps")
    # a different partner for element 0
    Sp, ep = run([conds[0], case["partner"]], 2)
    fp = validate_element(case, conds[0], Sp, ep[0], set())
    _match_lists(fin[0], fp, "element 0 next to another partner")
    if Sp != S:
        cl.add("partner_changes_step_count")
    if shared is not None:
        # the result of a call must not depend on what the module was used for before
        S2, elems2 = run(conds, case["batch"])
        require(S2 == S and _same_results(elems, elems2), "the same call on the same module returns something else the second time",
                [S2, elems2], [S, elems])
    cl = _classes_for(case, cl)
    return Info(nontrivial=_nontrivial(cl), classes=sorted(cl))


# ---------------------------------------------------------------- sizes at implementation thresholds


def _large_cases(tier):
    quick = tier == "quick"

    @st.composite
    def _s(draw):
        big = draw(st.sampled_from(["T", "width", "V", "batch"]))
        kind = draw(st.sampled_from(["pos", "none", "pos", "neg"]))
        M = draw(st.sampled_from([3, 5, 7, 2]))
        V = draw(st.sampled_from([3, 2, 4]))
        T = draw(st.sampled_from([3, 2, 4, 1]))
        width = draw(st.sampled_from([2, 1, 3, 4]))
        batch = draw(st.sampled_from([2, None, 1, 3]))
        if big == "width":
            width = draw(dl.threshold_sizes(15, 257 if quick else 2049, extra=[1025] if quick else []))
            # step limits on both sides of the point where the width covers all complete sequences
            t_full = max(1, int(math.ceil(math.log(width) / math.log(V)))) if V > 1 else 4
            T = max(1, min(draw(st.sampled_from([t_full, t_full - 1, t_full + 1, t_full + 2])), 11 if V == 2 else 7 if V == 3 else 6))
            batch = draw(st.sampled_from([None, 1, 2]))
        elif big == "V":
            V = draw(dl.threshold_sizes(15, 1025 if quick else 2049))
            width = draw(st.sampled_from([2, 1, 3, 5, V, V + 1, 17]))
            T = draw(st.sampled_from([2, 1, 3]))
        elif big == "batch":
            batch = draw(dl.threshold_sizes(15, 257 if quick else 1025))
            T = draw(st.sampled_from([3, 2, 4, 1]))
        else:
            T = draw(dl.threshold_sizes(15, 257 if quick else 1025))
            V = draw(st.sampled_from([2, 3]))
            batch = draw(st.sampled_from([2, None, 1]))
        if kind == "none":
            eos = None
        elif kind == "pos":
            eos = draw(st.sampled_from([0, V - 1, V // 2, min(16, V - 1)]))
        else:
            eos = draw(st.sampled_from([-1, -V]))
        late = None
        if big == "T" and eos is not None and draw(st.sampled_from([True, True, False])):
            # a model that counts its steps in its state (mult 1, one state per count) and all but forbids eos before a late
            # step: in a stationary model a path that ends late is always beaten by the ones that ended early and never survives
            late = min(T - 1, draw(st.sampled_from([127, 128, 126, 127, 128, 15, 16, 31, 63, 64, 255, 256, 1023, 1024])))
        return {"big": big, "late_eos": late, "lm_small": {"V": V, "M": M, "mult": draw(st.sampled_from([2, 1, 3])), "C": draw(st.integers(1, 3)),
                                         "seed": draw(st.integers(0, 2 ** 31 - 1))},
                "width": width, "eos": eos, "finish_all": draw(st.booleans()), "max_iters": T, "batch": batch,
                "cond_seed": draw(st.integers(0, 2 ** 31 - 1)), "eos_bias": draw(st.sampled_from([-8, 0, -12, -24, -48, 8, -4])),
                "pad_value": draw(st.sampled_from([-1, 0, 2 ** 40])),
                "cond_layout": draw(st.sampled_from(["contiguous", "offset", "strided"]))}

    return _s()


@subcheck("C04", "large_search", _large_cases, 450, 3000,
          doc="BeamSearch with ONE size at an implementation threshold: width (15/16/17 ... 257, 1025; thorough ... 2049), vocabulary "
              "(... 1025 | 2049), batch (... 257 | 1025) or max_iters (... 129, 257 | 1025); the HashLM table and the per-element "
              "conditions are expanded from generated seeds (pure function of the case). Same validity predicates on EVERY slot "
              "(chain by a cached pure-Python mirror, tolerance 4*S*2^-24 relative for long paths), the exhaustive regime when the "
              "complete sequences number <= 4096, and batched == solo for up to four elements at threshold positions. For long step limits "
              "also a model that counts its steps in its state and all but forbids eos before a late step (126/127/128, 255/256, ...): "
              "paths that END late survive in the beam",
          required_classes=["big_width", "big_V", "big_batch", "big_T", "about_16", "about_64", "about_256", "about_1024",
                            "width_prunes", "width_beyond_exhaustive", "exhaustive_regime", "solo_compared", "eos_after_127_steps"])
def _large_check(case):
    small = dict(case["lm_small"])
    late = case.get("late_eos")
    if late is not None:
        # states never wrap: the state after a path is V + 1 + sum(token + 1)
        small.update(M=small["V"] + 2 + small["V"] * case["max_iters"] + 1, mult=1)
    spec = declm.expand_spec(small)
    V, C = spec["V"], len(spec["cond"])
    e = _norm_eos(case["eos"], V)
    if late is not None:
        for s_ in range(spec["M"]):
            # (the fastest path adds V to the state per step: no path can end before step late + 1; with V == 2 there is one
            # token besides eos and every path ends exactly then)
            spec["table"][s_][e] = -160 if s_ < V + 1 + late * (V if V > 2 else (1 - e) + 1) else 40
    elif e is not None and case["eos_bias"]:
        # make the end-of-sequence token rare (or frequent) for condition 0, the opposite for condition 1: long paths, and
        # elements that finish at different steps
        for c in range(C):
            spec["cond"][c][e] += case["eos_bias"] if c % 2 == 0 else -case["eos_bias"]
    N = case["batch"] or 1
    conds = dl.lcg_ints(case["cond_seed"], N, 0, C - 1)
    pylm = declm.PyLM(spec)
    run_case = dict(case, lm=spec)
    cl = set()
    S, elems = run_search(run_case, conds, case["batch"], spec=spec)
    T = case["max_iters"]
    require(S <= T, "more sequence positions than max_iters", S, T)
    rel = max(1e-5, 4 * max(S, 1) * 2.0 ** -24)
    exhaustive = is_exhaustive_regime(run_case, V) and n_complete(V, e, T) <= 4096
    fin, steps = [], set()
    for n, slots in enumerate(elems):
        f = validate_element(run_case, conds[n], S, slots, cl, spec=spec, chain=pylm.chain, rel=rel)
        if exhaustive and n < 2:
            check_exhaustive(run_case, conds[n], f, spec=spec, chain=pylm.chain)
            cl.add("exhaustive_regime")
        fin.append(f)
        steps.add(max(len(p) for p, _ in f))
        if e is not None and any(len(p) >= 128 and p[-1] == e for p, _ in f):
            cl.add("eos_after_127_steps")
    if len(steps) >= 2:
        cl.add("elements_finish_at_different_steps")
    if case["batch"] is not None and N >= 2:
        for n in sorted({0, N - 1, min(N - 1, 15), min(N - 1, 16)})[:4]:
            S1, e1 = run_search(run_case, [conds[n]], 1, spec=spec)
            f1 = validate_element(run_case, conds[n], S1, e1[0], set(), spec=spec, chain=pylm.chain, rel=rel)
            _match_lists(fin[n], f1, "element %d batched vs batch_size=1" % n)
            cl.add("solo_compared")
    cl = _classes_for(run_case, cl)
    cl.discard("batch_%s" % case["batch"])
    cl.add("big_" + case["big"])
    size = {"width": case["width"], "V": V, "batch": N, "T": S}[case["big"]]
    sc = dl.size_class("x", size)
    if sc:
        cl.add(sc[2:])
    return Info(nontrivial=_nontrivial(cl), classes=sorted(cl))


# ---------------------------------------------------------------- the step function


GARBAGE_IDS = [-1, -7, 1 << 40, -(1 << 62), (1 << 63) - 1]


def _advance_cases(tier):
    @st.composite
    def _s(draw):
        N = draw(st.integers(1, 2))
        Kp = draw(st.integers(1, 3))
        V = draw(st.integers(1, 3))
        S = draw(st.integers(0, 3))
        width = draw(st.integers(1, Kp * V + 2))
        ext = draw(st.lists(st.lists(st.lists(st.integers(-40, 0), min_size=V, max_size=V), min_size=Kp, max_size=Kp),
                            min_size=N, max_size=N))
        prev = draw(st.lists(st.lists(st.one_of(st.integers(-40, 0), st.integers(-40, 0), st.none()), min_size=Kp, max_size=Kp),
                             min_size=N, max_size=N))
        y = draw(st.lists(st.lists(st.lists(st.integers(0, max(V - 1, 0)), min_size=Kp, max_size=Kp), min_size=N, max_size=N),
                          min_size=S, max_size=S))
        lens_kind = draw(st.sampled_from(["none", "full", "mixed", "mixed"]))
        if lens_kind == "none":
            lens = None
        elif lens_kind == "full":
            lens = [[S] * Kp for _ in range(N)]
        else:
            lens = draw(st.lists(st.lists(st.integers(0, S), min_size=Kp, max_size=Kp), min_size=N, max_size=N))
        case = {"N": N, "Kp": Kp, "V": V, "S": S, "width": width, "ext": ext, "prev": prev, "y": y, "lens": lens}
        # memory layout of each tensor argument (the values are the same)
        lay = st.sampled_from(dl.LAYOUT_CHOICES)
        case["layouts"] = {"ext": draw(lay), "prev": draw(lay), "y": draw(lay), "lens": draw(lay)}
        # stride-0 (expanded) views where the data is constant along a dimension
        if lens_kind == "full" and draw(st.booleans()):
            case["layouts"]["lens"] = "expanded"
        if Kp >= 2 and draw(st.sampled_from([False, False, True])):
            case["ext"] = [[list(e[0]) for _ in range(Kp)] for e in ext]
            case["layouts"]["ext"] = "expanded"
        # what is stored in y_prev past a prefix's length is documented as not valid: any id may sit there
        if lens_kind == "mixed":
            case["garbage"] = draw(st.sampled_from([None] + GARBAGE_IDS + GARBAGE_IDS))
        case["dtype"] = draw(st.sampled_from(["float32", "float32", "float64"]))
        # extreme but exactly representable magnitudes (scores k/4 with |k| up to 40 * 2**16)
        case["scale"] = draw(st.sampled_from([0, 0, 0, 8, 16]))
        return case

    return _s()


def _advance_core(case):
    import torch
    from pydrobert.torch.functional import beam_search_advance

    N, Kp, V, S, W = case["N"], case["Kp"], case["V"], case["S"], case["width"]
    lay = case.get("layouts", {})
    dtype = torch.float64 if case.get("dtype") == "float64" else torch.float32
    scale = 2 ** case.get("scale", 0)
    cl = set()
    ext_l = [[[v * scale for v in r] for r in e] for e in case["ext"]]
    prevl = [[NEG_INF if v is None else v * scale / 4 for v in row] for row in case["prev"]]
    if lay.get("ext") == "expanded":
        ext = (torch.tensor([e[0] for e in ext_l], dtype=dtype).view(N, 1, V) / 4).expand(N, Kp, V)
        cl.add("layout_expanded")
    else:
        ext = dl.relayout(torch.tensor(ext_l, dtype=dtype).view(N, Kp, V) / 4, lay.get("ext", "contiguous"))
    prev = dl.relayout(torch.tensor(prevl, dtype=dtype).view(N, Kp), lay.get("prev", "contiguous"))
    y = torch.tensor(case["y"], dtype=torch.long).view(S, N, Kp)
    if case.get("garbage") is not None and case["lens"] is not None:
        for n in range(N):
            for k in range(Kp):
                if case["lens"][n][k] < S:
                    y[case["lens"][n][k]:, n, k] = case["garbage"]
                    cl.add("garbage_past_prefix_length")
    y = dl.relayout(y, lay.get("y", "contiguous"))
    if case["lens"] is None:
        lens = None
    elif lay.get("lens") == "expanded":
        lens = torch.tensor(S, dtype=torch.long).expand(N, Kp)
        cl.add("layout_expanded")
    else:
        lens = dl.relayout(torch.tensor(case["lens"], dtype=torch.long).view(N, Kp), lay.get("lens", "contiguous"))
    y_next, y_next_lens, lp_next, src = beam_search_advance(ext, W, prev, y, lens)
    require(tuple(lp_next.shape) == (N, W) and tuple(y_next_lens.shape) == (N, W) and tuple(src.shape) == (N, W)
            and tuple(y_next.shape[1:]) == (N, W) and y_next.size(0) in (S, S + 1),
            "result shapes", [list(t.shape) for t in (y_next, y_next_lens, lp_next, src)], [N, W])
    require(lp_next.dtype == dtype, "dtype of the returned scores", str(lp_next.dtype), str(dtype))
    K = min(W, Kp * V)
    lp_l, src_l, len_l = lp_next.tolist(), src.tolist(), y_next_lens.tolist()
    y_l = y_next.permute(1, 2, 0).tolist()  # [n][k][t]
    for n in range(N):
        cand = sorted((prevl[n][k] + ext_l[n][k][v] / 4 for k in range(Kp) for v in range(V)), reverse=True)
        got = lp_l[n]
        require(got[:K] == cand[:K], "scores are not the top-width candidate sums, best first", got, cand[:K])
        require(all(g == NEG_INF for g in got[K:]), "slots beyond the possible candidates must carry -inf", got[K:], "-inf")
        used = set()
        for k in range(K):
            s = int(src_l[n][k])
            L = int(len_l[n][k])
            require(0 <= s < Kp, "next_src out of range", s, Kp)
            Lp = S if case["lens"] is None else case["lens"][n][s]
            require(L == Lp + 1, "length of slot %d is not its source's length + 1" % k, L, Lp + 1)
            require(L <= y_next.size(0), "length exceeds the returned tensor", L, y_next.size(0))
            toks = y_l[n][k][:L]
            src_toks = [case["y"][t][n][s] for t in range(Lp)]
            require(toks[:-1] == src_toks, "prefix of slot %d is not its source path" % k, toks, src_toks)
            v = toks[-1]
            require(0 <= v < V, "appended token out of range", v, V)
            require((s, v) not in used, "the same (source, token) candidate was taken twice", [s, v], None)
            used.add((s, v))
            require(got[k] == prevl[n][s] + ext_l[n][s][v] / 4, "score of slot %d is not prefix + extension score" % k,
                    got[k], prevl[n][s] + ext_l[n][s][v] / 4)
    if case["lens"] is not None and any(len(set(r)) > 1 for r in case["lens"]):
        cl.add("ragged_lens")
    if W > Kp * V:
        cl.add("fills_beyond_candidates")
    if W < Kp * V:
        cl.add("prunes")
    if any(v is None for r in case["prev"] for v in r):
        cl.add("neg_inf_prefix")
    cl.update(dl.layout_classes(lay.values()))
    if case.get("dtype") == "float64":
        cl.add("float64_scores")
    if case.get("scale"):
        cl.add("extreme_scores")
    return cl


@subcheck("C04", "advance", _advance_cases, 1500, 30000,
          doc="beam_search_advance on dyadic (k/4) scores incl. -inf prefixes, y_prev_lens unset/full/ragged: returned scores == top-width "
              "of prefix+extension sums (exact), each slot consistent with its source (prefix copied, token appended, length+1, next_src). "
              "Every tensor argument also as an offset / column-slice / transposed / strided / expanded (stride 0) view; out-of-range and "
              "huge ids stored past the prefix lengths; float64 scores; scores scaled by 2**8 / 2**16",
          required_classes=["ragged_lens", "fills_beyond_candidates", "prunes", "layout_offset", "layout_transposed",
                            "layout_col_slice", "layout_strided", "layout_expanded", "garbage_past_prefix_length",
                            "float64_scores", "extreme_scores"])
def _advance_check(case):
    cl = _advance_core(case)
    return Info(nontrivial=("prunes" in cl or "fills_beyond_candidates" in cl) and case["Kp"] >= 2, classes=sorted(cl))


def _advance_large_cases(tier):
    hi = 257 if tier == "quick" else 1025

    @st.composite
    def _s(draw):
        big = draw(st.sampled_from(["Kp", "V", "width", "N", "S"]))
        small = st.integers(1, 3)
        N, Kp, V, S = draw(st.integers(1, 2)), draw(small), draw(small), draw(st.integers(0, 3))
        if big == "Kp":
            Kp = draw(dl.threshold_sizes(15, hi))
            width = draw(st.sampled_from([Kp, 1, Kp - 1, Kp + 1, Kp * V, Kp * V + 2, 16, 17, 2 * Kp + 1]))
        elif big == "V":
            V = draw(dl.threshold_sizes(15, 4 * hi + 21))
            width = draw(st.sampled_from([V, 1, 2, V - 1, V + 1, Kp * V + 1, 16, 17]))
        elif big == "width":
            width = draw(dl.threshold_sizes(15, 4 * hi + 21, extra=[1025]))
            Kp = draw(st.integers(3, 40))
            # candidates (old width * V) on both sides of the width
            V = draw(st.sampled_from([-(-width // Kp), max(1, width // Kp), -(-width // Kp) + 1, draw(st.integers(3, 40))]))
            if draw(st.sampled_from([False, False, True])):
                # just past 1024 with enough candidates to fill the beam
                width, Kp = 1025, draw(st.integers(26, 40))
                V = -(-1025 // Kp) + draw(st.sampled_from([0, 1]))
        elif big == "N":
            N = draw(dl.threshold_sizes(15, hi))
            width = draw(st.integers(1, Kp * V + 1))
        else:
            S = draw(dl.threshold_sizes(15, hi))
            width = draw(st.integers(1, Kp * V + 1))
        lay = st.sampled_from(dl.LAYOUT_CHOICES)
        return {"big": big, "N": N, "Kp": Kp, "V": V, "S": S, "width": max(1, width), "seed": draw(st.integers(0, 2 ** 31 - 1)),
                "lens_kind": draw(st.sampled_from(["mixed", "none", "full", "mixed"])),
                "neg_inf_every": draw(st.sampled_from([0, 5, 2])),
                "layouts": {"ext": draw(lay), "prev": draw(lay), "y": draw(lay), "lens": draw(lay)},
                "dtype": draw(st.sampled_from(["float32", "float64"])), "garbage": draw(st.sampled_from([None, -1, 1 << 40]))}

    return _s()


def expand_advance_case(c):
    """The full step-function case as a pure function of the small one (64-bit LCG streams)."""
    N, Kp, V, S = c["N"], c["Kp"], c["V"], c["S"]
    e = dl.lcg_ints(c["seed"], N * Kp * V, -400, 0)
    ext = [[e[(n * Kp + k) * V:(n * Kp + k + 1) * V] for k in range(Kp)] for n in range(N)]
    p = dl.lcg_ints(c["seed"] + 1, N * Kp, -400, 0)
    ev = c["neg_inf_every"]
    prev = [[None if (ev and (n * Kp + k) % ev == ev - 1) else p[n * Kp + k] for k in range(Kp)] for n in range(N)]
    yy = dl.lcg_ints(c["seed"] + 2, S * N * Kp, 0, V - 1)
    y = [[yy[(t * N + n) * Kp:(t * N + n + 1) * Kp] for n in range(N)] for t in range(S)]
    if c["lens_kind"] == "none":
        lens = None
    elif c["lens_kind"] == "full":
        lens = [[S] * Kp for _ in range(N)]
    else:
        ll = dl.lcg_ints(c["seed"] + 3, N * Kp, 0, S)
        lens = [ll[n * Kp:(n + 1) * Kp] for n in range(N)]
    return {"N": N, "Kp": Kp, "V": V, "S": S, "width": c["width"], "ext": ext, "prev": prev, "y": y, "lens": lens,
            "layouts": c["layouts"], "dtype": c["dtype"], "garbage": c["garbage"], "scale": 0}


@subcheck("C04", "advance_large", _advance_large_cases, 500, 5000,
          doc="beam_search_advance with ONE dimension at an implementation-threshold size (old width, V, width, N or S in "
              "15/16/17 ... 255/256/257 (quick), ... 1023/1024/1025/2049 (V and width; all in the thorough tier)); the tensors are "
              "expanded from a generated seed by a 64-bit LCG (pure function of the case); same exact oracle as `advance`, every slot checked",
          required_classes=["big_Kp", "big_V", "big_width", "big_N", "big_S", "about_16", "about_64", "about_256", "prunes",
                            "fills_beyond_candidates", "ragged_lens"])
def _advance_large_check(case):
    full = expand_advance_case(case)
    cl = _advance_core(full)
    cl.add("big_" + case["big"])
    size = {"Kp": case["Kp"], "V": case["V"], "width": case["width"], "N": case["N"], "S": case["S"]}[case["big"]]
    sc = dl.size_class("x", size)
    if sc:
        cl.add(sc[2:])
    return Info(nontrivial=("prunes" in cl or "fills_beyond_candidates" in cl) and case["Kp"] >= 2, classes=sorted(cl))


# ------------------------------------------------------------------ searches without a step limit that end late


def _unbounded_cases(tier):
    quick = tier == "quick"

    @st.composite
    def _s(draw):
        return {"late": draw(st.sampled_from([130, 1030, 1100, 1023, 1024, 1025] + ([] if quick else [2050, 4100]))),
                "eos": draw(st.sampled_from([0, 1, -1])), "width": draw(st.sampled_from([1, 2, 3])),
                "finish_all": draw(st.booleans()), "batch": draw(st.sampled_from([None, 1, 2])),
                "lm_seed": draw(st.integers(0, 2 ** 31 - 1))}

    return _s()


@subcheck("C04", "search_unbounded", _unbounded_cases, 10, 100,
          doc="BeamSearch with eos set and NO step limit over a model that counts its steps and all but forbids eos before step "
              "130 .. 1100 (thorough .. 4100): the search must run until the stopping rule is met, however late; every finite slot "
              "validated against the chain (cached pure-Python mirror)",
          required_classes=["ended_after_1024_steps"])
def _unbounded_check(case):
    import torch
    from pydrobert.torch.modules import BeamSearch

    late, V = case["late"], 2
    Tcap = late + 40
    spec = declm.expand_spec({"V": V, "M": V + 2 + V * Tcap + 1, "mult": 1, "C": 1, "seed": case["lm_seed"]})
    e = case["eos"] % V
    inc = (1 - e) + 1
    for s_ in range(spec["M"]):
        spec["table"][s_][e] = -160 if s_ < V + 1 + late * inc else 160
    pylm = declm.PyLM(spec)
    lm = declm.HashLM(spec, cap=Tcap)
    search = BeamSearch(lm, case["width"], eos=case["eos"], finish_all_paths=case["finish_all"])
    N = case["batch"] or 1
    y, lens, lp = search({"cond": torch.zeros(N, dtype=torch.long)}, case["batch"], None)
    if case["batch"] is None:
        y, lens, lp = y.unsqueeze(1), lens.unsqueeze(0), lp.unsqueeze(0)
    cl = set()
    for n in range(N):
        prev = math.inf
        finite = 0
        for k in range(case["width"]):
            sc, L = float(lp[n, k]), int(lens[n, k])
            require(not math.isnan(sc) and sc <= prev, "scores not ordered best first / NaN", sc, prev)
            prev = sc
            if sc == NEG_INF:
                continue
            finite += 1
            toks = [int(v) for v in y[:L, n, k]]
            require(all(0 <= v < V for v in toks) and e not in toks[:-1], "path leaves the vocabulary or continues after eos", toks[-5:], e)
            exp = pylm.chain(0, toks)
            require(close(sc, exp, rel=max(1e-5, 4 * Tcap * 2.0 ** -24), abs_=2e-5 + L * 2.4e-7),
                    "slot %d: reported log-probability != chain over %d tokens" % (k, L), sc, exp)
            if k == 0 or case["finish_all"]:
                require(L >= 1 and toks[-1] == e, "search without a step limit stopped although slot %d has not emitted eos" % k,
                        {"len": L, "tail": toks[-3:]}, "ends in eos")
            if toks and toks[-1] == e and L > 1024:
                cl.add("ended_after_1024_steps")
        require(finite >= 1, "no finite slot", None, None)
    return Info(nontrivial=True, classes=sorted(cl) + ["width_%d" % case["width"]])


# ------------------------------------------------------------------ a language model in half precision


class _HalfLM(declm.HashLM):
    """HashLM whose parameters and outputs are bfloat16 / float16 (a model run in reduced precision)."""

    def __init__(self, spec, dtype):
        import torch

        super().__init__(spec)
        self.half_dtype = dtype
        self.scale = torch.nn.Parameter(torch.ones(1, dtype=dtype))

    def calc_idx_log_probs(self, hist, prev, idx):
        logits, cur = super().calc_idx_log_probs(hist, prev, idx)
        return (logits.to(self.half_dtype) * self.scale), cur


def _half_cases(tier):
    base = _search_cases(tier, "any", batch_choices=(None, 1, 2))

    @st.composite
    def _s(draw):
        case = draw(base)
        case["half"] = draw(st.sampled_from(["bfloat16", "float16"]))
        # (logits must be representable in half precision: undo the extreme-magnitude class)
        case["lm"]["cond"] = [[max(-16, min(16, x)) for x in r] for r in case["lm"]["cond"]]
        case.pop("extreme", None)
        if case["max_iters"] is None:
            case["max_iters"] = 4
        case["max_iters"] = draw(st.sampled_from([case["max_iters"], 8, 14]))
        case["width"] = min(case["width"], 6)
        case["no_init"] = False
        case.pop("cond_layout", None)
        return case

    return _s()


@subcheck("C04", "half_precision_lm", _half_cases, 300, 5000,
          doc="a language model whose parameters and next-token scores are bfloat16 / float16, searched for up to 14 steps: every "
              "finite slot's reported log-probability == the sum of the model's own per-step (half-precision) log-softmax values, "
              "accumulated exactly (the search must not accumulate in the model's reduced precision)",
          required_classes=["steps_ge_8"])
def _half_check(case):
    import torch
    from pydrobert.torch.modules import BeamSearch

    spec = case["lm"]
    V = spec["V"]
    dt = getattr(torch, case["half"])
    lm = _HalfLM(spec, dt)
    search = BeamSearch(lm, case["width"], eos=case["eos"], finish_all_paths=case["finish_all"], pad_value=case.get("pad_value", -1))
    conds = case["conds"]
    y, lens, lp = search({"cond": torch.tensor(conds, dtype=torch.long)}, case["batch"], case["max_iters"])
    if case["batch"] is None:
        y, lens, lp = y.unsqueeze(1), lens.unsqueeze(0), lp.unsqueeze(0)
    eos = _norm_eos(case["eos"], V)
    rows = {}

    def row(cond, toks):
        key = (cond, declm.py_state(spec, toks))
        if key not in rows:
            logits = torch.tensor(declm.py_next_logits(spec, cond, toks), dtype=torch.float32).to(dt)
            rows[key] = [float(x) for x in logits.log_softmax(-1).float()]
        return rows[key]

    cl = {"half_" + case["half"]}
    for n in range(len(conds)):
        prev = math.inf
        for k in range(case["width"]):
            sc, L = float(lp[n, k]), int(lens[n, k])
            require(not math.isnan(sc) and sc <= prev + 1e-6, "scores not ordered best first / NaN", sc, prev)
            prev = sc
            if sc == NEG_INF:
                continue
            toks = [int(v) for v in y[:L, n, k]]
            require(all(0 <= v < V for v in toks) and (eos is None or eos not in toks[:-1]), "invalid path", toks, None)
            exp = math.fsum(row(conds[n], toks[:s])[toks[s]] for s in range(L))
            require(abs(sc - exp) <= 1e-4 + 1e-6 * L * (1 + abs(exp)),
                    "slot %d: reported log-probability is not the exact sum of the model's per-step log-probabilities over %d steps" % (k, L),
                    sc, exp)
            if L >= 8:
                cl.add("steps_ge_8")
    return Info(nontrivial="steps_ge_8" in cl, classes=sorted(cl))


# ------------------------------------------------------------------ flat candidate indices beyond 2^24


def _huge_cases(tier):
    out = []
    for Kp, V in ((129, 2 ** 17 + 1), (33, 2 ** 19 + 3), (3, 2 ** 23 + 5)):
        for seed in (1, 2):
            out.append({"Kp": Kp, "V": V, "seed": seed, "width": 12})
    return out if tier == "thorough" else out[::2]


@subcheck("C04", "advance_huge", _huge_cases, 0, 0, exhaustive=True, timeout_s=3000,
          doc="beam_search_advance with old_width * V > 2^24 candidates: a handful of generated winning candidates (among them the last "
              "vocabulary token of high-rank prefixes, i.e. flat indices just below a multiple of V beyond 2^24) must come back "
              "with their own prefix, token, source index and exact score")
def _huge_check(case):
    import torch
    from pydrobert.torch.functional import beam_search_advance

    Kp, V, W, seed = case["Kp"], case["V"], case["width"], case["seed"]
    lp_t = torch.full((1, Kp, V), -1000.0)
    lp_prev = torch.zeros(1, Kp)                                                  # equal prefixes: candidate scores stay distinct
    y_prev = torch.arange(Kp, dtype=torch.long).view(1, 1, Kp) % 7               # one token per prefix: k % 7
    winners = {}
    x = seed
    for j in range(W):
        x = (x * 1103515245 + 12345) % (2 ** 31)
        k = Kp - 1 - (x % min(Kp, 5)) if j % 2 == 0 else x % Kp
        v = V - 1 if j % 3 != 2 else (x // 7) % V
        if (k, v) in winners:
            continue
        winners[(k, v)] = 100.0 - j * 0.5
        lp_t[0, k, v] = winners[(k, v)]
    exp = sorted(((s + float(lp_prev[0, k]), k, v) for (k, v), s in winners.items()), reverse=True)
    y_next, lens, lp_next, src = beam_search_advance(lp_t, W, lp_prev, y_prev)
    n = len(exp)
    beyond = False
    for r, (s, k, v) in enumerate(exp[:W]):
        got = (float(lp_next[0, r]), int(src[0, r]), int(y_next[-1, 0, r]), int(y_next[0, 0, r]))
        require(abs(got[0] - s) <= 1e-3 and got[1] == k and got[2] == v and got[3] == k % 7,
                "rank %d: (score, source, new token, prefix token) of the candidate at flat index %d" % (r, k * V + v), list(got),
                [s, k, v, k % 7])
        if k * V + v >= 2 ** 24:
            beyond = True
    return Info(nontrivial=beyond, classes=["flat_index_beyond_2^24"] if beyond else [])
