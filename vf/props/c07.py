"""C07 Sequence scores, random walks and greedy CTC decoding match their definitions."""
from __future__ import annotations

import itertools
import math

from hypothesis import strategies as st

from ..core import Info, close, require, subcheck
from .. import declm

NEG_INF = float("-inf")
CAP = 12


def _prod(xs):
    out = 1
    for x in xs:
        out *= x
    return out


def _unflatten(flat, shape):
    if not shape:
        return flat[0]
    if len(shape) == 1:
        return list(flat[: shape[0]])
    step = _prod(shape[1:])
    return [_unflatten(flat[i * step:(i + 1) * step], shape[1:]) for i in range(shape[0])]


# ================================================================ (a) sequence_log_probs, tensors


def _seq_definition(logit_rows, toks, V, eos):
    """sum of log-softmax of the chosen tokens up to and including the first eos; out-of-vocabulary skipped."""
    tot = 0.0
    for row, x in zip(logit_rows, toks):
        if 0 <= x < V:
            tot += declm.log_softmax(row)[x]
        if eos is not None and x == eos:
            break
    return tot


def _tensor_cases(tier):
    @st.composite
    def _s(draw):
        rank = draw(st.sampled_from([2, 3, 2, 4]))
        T = draw(st.sampled_from([3, 0, 1, 2, 4, 5]))
        V = draw(st.sampled_from([3, 1, 2, 4]))
        other = draw(st.lists(st.sampled_from([2, 1, 3, 0]), min_size=rank - 1, max_size=rank - 1))
        pos = draw(st.integers(0, rank - 1))
        shape = other[:pos] + [T] + other[pos:]
        dim = pos - rank if draw(st.booleans()) else pos
        eos = draw(st.sampled_from([1 % V, None, 0, V - 1, V, -1]))
        n = _prod(shape)
        hyp = draw(st.lists(st.integers(-2, V + 1), min_size=n, max_size=n))
        if eos is not None and draw(st.booleans()):
            # make eos frequent enough that it appears inside sequences
            mask = draw(st.lists(st.integers(0, 3), min_size=n, max_size=n))
            hyp = [eos if m == 0 else h for h, m in zip(hyp, mask)]
        logits = draw(st.lists(st.integers(-16, 16), min_size=n * V, max_size=n * V))
        return {"shape": shape, "dim": dim, "V": V, "eos": eos, "hyp": hyp, "logits": logits,
                "module": draw(st.booleans())}

    return _s()


@subcheck("C07", "seq_tensor", _tensor_cases, 1500, 40000,
          doc="sequence_log_probs on rank 2..4 token tensors (sequence dim anywhere, negative dims, T 0..5, tokens incl. out-of-vocabulary "
              "and negative ids, eos unset / in-vocabulary / out-of-vocabulary id) vs an explicit loop over the definition",
          required_classes=["eos_inside_with_tokens_after", "oov_tokens", "rank_4", "negative_dim", "empty_sequence_dim"])
def _tensor_check(case):
    import torch
    from pydrobert.torch.functional import sequence_log_probs
    from pydrobert.torch.modules import SequenceLogProbabilities

    shape, dim, V, eos = case["shape"], case["dim"], case["V"], case["eos"]
    rank = len(shape)
    pos = dim % rank
    T = shape[pos]
    hyp = torch.tensor(case["hyp"], dtype=torch.long).view(shape)
    logits = (torch.tensor(case["logits"], dtype=torch.float32) / 4).view(shape + [V])
    if case["module"]:
        got = SequenceLogProbabilities(dim, eos)(logits, hyp)
    else:
        got = sequence_log_probs(logits, hyp, dim, eos)
    out_shape = shape[:pos] + shape[pos + 1:]
    require(list(got.shape) == out_shape, "result shape", list(got.shape), out_shape)
    cl = set()
    hyp_l = _unflatten(case["hyp"], shape)
    log_l = _unflatten([v / 4 for v in case["logits"]], shape + [V])

    def pick(nested, idx):
        for i in idx:
            nested = nested[i]
        return nested

    for idx in itertools.product(*[range(s) for s in out_shape]):
        toks, rows = [], []
        for t in range(T):
            full = idx[:pos] + (t,) + idx[pos:]
            toks.append(pick(hyp_l, full))
            rows.append(pick(log_l, full))
        exp = _seq_definition(rows, toks, V, eos)
        g = float(got[idx]) if idx else float(got)
        require(close(g, exp, rel=1e-5, abs_=1e-5), "sequence log-probability differs from the definition at %s" % (list(idx),),
                g, {"tokens": toks, "expected": exp})
        if eos is not None and eos in toks[:-1]:
            after = toks[toks.index(eos) + 1:]
            if any(0 <= x < V and x != eos for x in after):
                cl.add("eos_inside_with_tokens_after")
        if any(not (0 <= x < V) for x in toks):
            cl.add("oov_tokens")
    cl.add("rank_%d" % rank)
    if dim < 0:
        cl.add("negative_dim")
    if T == 0:
        cl.add("empty_sequence_dim")
        if eos is not None:
            cl.add("empty_sequence_dim_with_eos")
    if eos is not None and not (0 <= eos < V):
        cl.add("eos_out_of_vocabulary")
    if eos is None:
        cl.add("eos_unset")
    return Info(nontrivial="eos_inside_with_tokens_after" in cl, classes=sorted(cl))


# ================================================================ (a') packed input


def _packed_cases(tier):
    @st.composite
    def _s(draw):
        N = draw(st.sampled_from([3, 1, 2, 4]))
        V = draw(st.sampled_from([3, 1, 2, 4]))
        T = draw(st.sampled_from([3, 1, 2, 4, 5]))
        lens = draw(st.lists(st.integers(1, T), min_size=N, max_size=N))
        sorted_ = draw(st.booleans())
        if sorted_:
            lens = sorted(lens, reverse=True)
        Tm = max(lens) if draw(st.booleans()) else T  # hyp may be longer than the longest sequence
        batch_first_hyp = draw(st.booleans())
        dim = (1 if batch_first_hyp else 0) - (2 if draw(st.booleans()) else 0)
        hyp = draw(st.lists(st.lists(st.integers(-2, V + 1), min_size=Tm, max_size=Tm), min_size=N, max_size=N))
        logits = draw(st.lists(st.lists(st.lists(st.integers(-16, 16), min_size=V, max_size=V), min_size=Tm, max_size=Tm),
                               min_size=N, max_size=N))
        return {"N": N, "V": V, "lens": lens, "enforce_sorted": sorted_, "dim": dim, "hyp": hyp, "logits": logits,
                "pass_unused_eos": draw(st.booleans())}

    return _s()


@subcheck("C07", "seq_packed", _packed_cases, 1000, 20000,
          doc="sequence_log_probs on a PackedSequence of logits (sorted / unsorted lengths, hyp as (T,N) or (N,T), dims given positively "
              "or negatively) == loop over the valid steps == the padded call with the positions beyond each length set to an "
              "out-of-vocabulary id",
          required_classes=["two_distinct_lengths", "unsorted_lengths", "negative_dim"])
def _packed_check(case):
    import torch
    from torch.nn.utils.rnn import pack_padded_sequence
    from pydrobert.torch.functional import sequence_log_probs

    N, V, lens, dim = case["N"], case["V"], case["lens"], case["dim"]
    Tm = len(case["hyp"][0])
    hyp_nt = torch.tensor(case["hyp"], dtype=torch.long).view(N, Tm)
    logits_ntv = (torch.tensor(case["logits"], dtype=torch.float32) / 4).view(N, Tm, V)
    packed = pack_padded_sequence(logits_ntv.transpose(0, 1), torch.tensor(lens), enforce_sorted=case["enforce_sorted"])
    hyp = hyp_nt if dim % 2 == 1 else hyp_nt.t().contiguous()
    # eos is documented to be ignored for packed input; only an id that never occurs inside a valid length is passed
    eos = None
    if case["pass_unused_eos"]:
        used = {case["hyp"][n][t] for n in range(N) for t in range(lens[n])}
        free = [v for v in range(V) if v not in used]
        eos = free[0] if free else None
    got = sequence_log_probs(packed, hyp, dim, eos)
    require(list(got.shape) == [N], "result shape (packed)", list(got.shape), [N])
    hyp_masked = hyp_nt.clone()
    for n in range(N):
        hyp_masked[n, lens[n]:] = -1
    padded = sequence_log_probs(logits_ntv, hyp_masked, 1, eos)
    for n in range(N):
        rows = [[v / 4 for v in case["logits"][n][t]] for t in range(lens[n])]
        exp = _seq_definition(rows, case["hyp"][n][: lens[n]], V, None)
        require(close(float(got[n]), exp, rel=1e-5, abs_=1e-5), "packed: element %d differs from the definition" % n,
                float(got[n]), exp)
        require(close(float(got[n]), float(padded[n]), rel=1e-5, abs_=1e-5), "packed and padded input disagree (element %d)" % n,
                float(got[n]), float(padded[n]))
    cl = set()
    if len(set(lens)) >= 2:
        cl.add("two_distinct_lengths")
    if lens != sorted(lens, reverse=True):
        cl.add("unsorted_lengths")
    if dim < 0:
        cl.add("negative_dim")
    if eos is not None:
        cl.add("eos_passed")
    if not case["enforce_sorted"]:
        cl.add("enforce_sorted_false")
    return Info(nontrivial="two_distinct_lengths" in cl, classes=sorted(cl))


# ================================================================ (b) random walk + distribution wrapper


def _first_eos_prefix(toks, eos):
    if eos is not None and eos in toks:
        return toks[: toks.index(eos) + 1]
    return list(toks)


def _walk_cases(tier):
    maxT = 4 if tier == "quick" else 6

    @st.composite
    def _s(draw):
        spec = draw(declm.lm_specs(1, 3, max_cond=3, lo=-8, hi=8))
        V, C = spec["V"], len(spec["cond"])
        kind = draw(st.sampled_from(["pos", "none", "pos", "neg"]))
        eos = None if kind == "none" else (draw(st.integers(0, V - 1)) if kind == "pos" else draw(st.integers(-V, -1)))
        T = draw(st.sampled_from([3, 1, 2] + list(range(4, maxT + 1))))
        max_iters = T
        if eos is not None and draw(st.integers(0, 7)) == 7:
            max_iters = None
        batch = draw(st.sampled_from([3, None, 1, 2]))
        conds = draw(st.lists(st.integers(0, C - 1), min_size=batch or 1, max_size=batch or 1))
        return {"lm": spec, "eos": eos, "max_iters": max_iters, "batch": batch, "conds": conds,
                "seed": draw(st.integers(0, 2 ** 31 - 1)), "wrapper_batched": draw(st.booleans()),
                "validate_args": draw(st.sampled_from([None, True, False]))}

    return _s()


@subcheck("C07", "walk", _walk_cases, 1200, 30000,
          doc="RandomWalk over a HashLM (state only in prev; eos set incl. negative index / unset; max_iters 1..4|6 or unset; batch "
              "None/1..3; generated torch seed): each path in vocabulary, ends at first eos or the step limit, reported log-prob == "
              "pure-Python chain == distribution wrapper's log_prob of the returned paths",
          required_classes=["elements_stop_at_different_steps", "eos_set", "eos_unset", "batch_none", "stopped_by_limit", "stateful_lm"])
def _walk_check(case):
    import torch
    from pydrobert.torch.modules import RandomWalk
    from pydrobert.torch.distributions import SequentialLanguageModelDistribution

    spec, conds, batch, T = case["lm"], case["conds"], case["batch"], case["max_iters"]
    V = spec["V"]
    eos = None if case["eos"] is None else case["eos"] % V
    lm = declm.HashLM(spec, cap=CAP if T is None else None)
    walk = RandomWalk(lm, case["eos"])
    init = {"cond": torch.tensor(conds, dtype=torch.long)}
    torch.manual_seed(case["seed"])
    y, lens, lp = walk(dict(init), batch, T)
    if batch is None:
        require(y.dim() == 1 and lens.dim() == 0 and lp.dim() == 0, "unbatched walk result shapes",
                [list(y.shape), list(lens.shape), list(lp.shape)], "(S,), (), ()")
        y, lens, lp = y.unsqueeze(1), lens.unsqueeze(0), lp.unsqueeze(0)
    N = len(conds)
    require(y.dim() == 2 and y.size(1) == N and list(lens.shape) == [N] and list(lp.shape) == [N], "walk result shapes",
            [list(y.shape), list(lens.shape), list(lp.shape)], N)
    S = y.size(0)
    if T is not None:
        require(S <= T, "more steps than max_iters", S, T)
    cl = set()
    Ls = []
    for n in range(N):
        L = int(lens[n])
        require(0 <= L <= S, "reported length outside [0, S]", L, S)
        toks = [int(v) for v in y[:L, n]]
        require(all(0 <= v < V for v in toks), "token outside the vocabulary", toks, V)
        ended = eos is not None and L > 0 and toks[-1] == eos
        if eos is not None:
            require(eos not in toks[:-1], "path continues after its first eos", toks, eos)
        if not ended:
            require(T is not None and L == T, "path neither ends in eos nor reaches the step limit", {"tokens": toks, "len": L}, T)
            cl.add("stopped_by_limit")
        else:
            cl.add("stopped_by_eos")
        exp = declm.py_chain(spec, conds[n], toks)
        require(close(float(lp[n]), exp, rel=1e-5, abs_=2e-5), "reported log-probability != chain of the model on the path",
                float(lp[n]), {"tokens": toks, "chain": exp})
        Ls.append(L)
    # the wrapper's log-probability of exactly these paths
    if S >= 1:
        value = y.t().contiguous()  # (N, S)
        if eos is not None:
            # positions after the end are not valid: give them the documented filler (eos)
            for n in range(N):
                value[n, Ls[n]:] = eos
        if case["wrapper_batched"]:
            dist = SequentialLanguageModelDistribution(walk, N, dict(init), T, validate_args=case["validate_args"])
            cl.add("wrapper_batch_shape_N")
        else:
            dist = SequentialLanguageModelDistribution(walk, None, dict(init), T, validate_args=case["validate_args"])
        # the definition of sequence_log_probs applied to the model's own outputs on these paths
        from pydrobert.torch.functional import sequence_log_probs
        full = lm(value.t()[:-1], dict(init))
        require(list(full.shape) == [S, N, V], "shape of lm(path)", list(full.shape), [S, N, V])
        sl = sequence_log_probs(full, value.t(), 0, eos)
        for n in range(N):
            require(close(float(sl[n]), float(lp[n]), rel=1e-5, abs_=2e-5),
                    "sequence_log_probs(lm(path), path) != the walk's reported log-probability", float(sl[n]), float(lp[n]))
        wl = dist.log_prob(value)
        require(list(wl.shape) == [N], "wrapper log_prob shape", list(wl.shape), [N])
        for n in range(N):
            require(close(float(wl[n]), float(lp[n]), rel=1e-5, abs_=2e-5),
                    "distribution wrapper's log_prob of a walked path != the walk's reported log-probability",
                    float(wl[n]), float(lp[n]))
        if T is not None and S < T:
            cl.add("all_paths_shorter_than_limit")
    if len(set(Ls)) >= 2:
        cl.add("elements_stop_at_different_steps")
    cl.add("eos_unset" if eos is None else "eos_set")
    cl.add("batch_none" if batch is None else "batch_%d" % batch)
    if T is None:
        cl.add("max_iters_unset")
    if spec["M"] >= 2:
        cl.add("stateful_lm")
    return Info(nontrivial="elements_stop_at_different_steps" in cl, classes=sorted(cl))


def _support(V, eos, T):
    seqs = set()
    for p in itertools.product(range(V), repeat=T):
        p = list(p)
        if eos is not None and eos in p:
            i = p.index(eos)
            p = p[: i + 1] + [eos] * (T - i - 1)
        seqs.add(tuple(p))
    return seqs


def _dist_cases(tier):
    maxT = 3 if tier == "quick" else 4

    @st.composite
    def _s(draw):
        spec = draw(declm.lm_specs(1, 3, max_cond=3, lo=-8, hi=8))
        V, C = spec["V"], len(spec["cond"])
        kind = draw(st.sampled_from(["pos", "none", "pos", "neg"]))
        eos = None if kind == "none" else (draw(st.integers(0, V - 1)) if kind == "pos" else draw(st.integers(-V, -1)))
        T = draw(st.sampled_from([2, 1, 3] + list(range(4, maxT + 1))))
        batch = draw(st.sampled_from([2, None, 1, 3]))
        conds = draw(st.lists(st.integers(0, C - 1), min_size=batch or 1, max_size=batch or 1))
        if batch is None:
            conds = [0]
        return {"lm": spec, "eos": eos, "max_iters": T, "batch": batch, "conds": conds,
                "sample_shape": draw(st.sampled_from([[2], [], [1], [3], [2, 2]])),
                "seed": draw(st.integers(0, 2 ** 31 - 1)), "cache": draw(st.booleans()),
                "validate_args": draw(st.sampled_from([None, True, False]))}

    return _s()


@subcheck("C07", "distribution", _dist_cases, 800, 15000,
          doc="SequentialLanguageModelDistribution over RandomWalk(HashLM): enumerate_support == the complete sequences (eos-filled), "
              "log_prob(support) == chain, sums to one per batch element; samples (sample shapes (), (1,), (2,), (3,), (2,2); batch "
              "None/1..3; caching on/off) lie in the support and log_prob(sample) == chain, also after clear_cache()",
          required_classes=["sample_shape_empty", "batch_none", "batched", "sample_shorter_than_limit", "cache_on", "cache_off"])
def _dist_check(case):
    import torch
    from pydrobert.torch.modules import RandomWalk
    from pydrobert.torch.distributions import SequentialLanguageModelDistribution

    spec, conds, batch, T = case["lm"], case["conds"], case["batch"], case["max_iters"]
    V = spec["V"]
    eos = None if case["eos"] is None else case["eos"] % V
    lm = declm.HashLM(spec)
    walk = RandomWalk(lm, case["eos"])
    init = None if batch is None else {"cond": torch.tensor(conds, dtype=torch.long)}
    dist = SequentialLanguageModelDistribution(walk, batch, init, T, cache_samples=case["cache"],
                                               validate_args=case["validate_args"])
    bshape = [] if batch is None else [batch]
    cl = set()
    # -- support
    require(dist.has_enumerate_support, "has_enumerate_support with max_iters set", False, True)
    sup = dist.enumerate_support()
    exp_sup = _support(V, eos, T)
    require(list(sup.shape) == [len(exp_sup)] + bshape + [T], "enumerate_support shape", list(sup.shape), [len(exp_sup)] + bshape + [T])
    rows = [tuple(int(v) for v in (r[0] if batch is not None else r)) for r in sup]
    require(len(set(rows)) == len(rows) and set(rows) == exp_sup, "enumerate_support is not the set of complete sequences",
            sorted(map(list, rows)), sorted(map(list, exp_sup)))
    if batch is not None:
        require(bool((sup == sup[:, :1]).all()), "expanded support differs across the batch dimension", None, None)
    slp = dist.log_prob(sup)
    require(list(slp.shape) == [len(rows)] + bshape, "log_prob(support) shape", list(slp.shape), [len(rows)] + bshape)
    for b in range(batch or 1):
        tot = 0.0
        for i, r in enumerate(rows):
            g = float(slp[i, b]) if batch is not None else float(slp[i])
            exp = declm.py_chain(spec, conds[b], _first_eos_prefix(list(r), eos))
            require(close(g, exp, rel=1e-5, abs_=2e-5), "log_prob of a support row != chain of the model", g, {"row": list(r), "chain": exp})
            tot += math.exp(g)
        require(abs(tot - 1.0) <= 1e-5, "probabilities over the enumerated support do not sum to one", tot, 1.0)
    # -- samples
    dist.clear_cache()
    sshape = list(case["sample_shape"])
    torch.manual_seed(case["seed"])
    sample = dist.sample(torch.Size(sshape))
    require(list(sample.shape[:-1]) == sshape + bshape and 1 <= sample.size(-1) <= T, "sample shape",
            list(sample.shape), sshape + bshape + ["1..%d" % T])
    S = sample.size(-1)
    if eos is None:
        require(S == T, "without eos every sample has max_iters tokens", S, T)
    lps = dist.log_prob(sample)
    require(list(lps.shape) == sshape + bshape, "log_prob(sample) shape", list(lps.shape), sshape + bshape)
    dist.clear_cache()
    lps2 = dist.log_prob(sample)
    require(list(lps2.shape) == sshape + bshape, "log_prob(sample) shape after clear_cache", list(lps2.shape), sshape + bshape)
    flat = sample.reshape(-1, S)
    f1, f2 = lps.reshape(-1), lps2.reshape(-1)
    nb = batch or 1
    for i in range(flat.size(0)):
        r = [int(v) for v in flat[i]]
        b = i % nb
        full = _first_eos_prefix(r, eos)
        if eos is not None:
            require(eos in r or S == T, "a sample shorter than max_iters does not contain eos", r, eos)
            filled = tuple(full + [eos] * (T - len(full)))
        else:
            filled = tuple(r)
        require(filled in exp_sup, "sample (eos-filled) is not a row of the support", r, None)
        exp = declm.py_chain(spec, conds[b], full)
        require(close(float(f1[i]), exp, rel=1e-5, abs_=2e-5), "log_prob(sample) != chain of the model", float(f1[i]), {"row": r, "chain": exp})
        require(close(float(f2[i]), exp, rel=1e-5, abs_=2e-5), "log_prob(sample) after clear_cache != chain", float(f2[i]), {"row": r, "chain": exp})
    if S < T:
        cl.add("sample_shorter_than_limit")
    cl.add("sample_shape_empty" if not sshape else "sample_shape_%s" % "x".join(map(str, sshape)))
    cl.add("batch_none" if batch is None else "batched")
    cl.add("cache_on" if case["cache"] else "cache_off")
    cl.add("eos_unset" if eos is None else "eos_set")
    if len({tuple(int(v) for v in row) for row in flat}) >= 2:
        cl.add("distinct_samples")
    return Info(nontrivial=(eos is not None and "distinct_samples" in cl) or "sample_shorter_than_limit" in cl, classes=sorted(cl))


# ================================================================ (c) greedy CTC


def _greedy_cases(tier):
    maxT = 6 if tier == "quick" else 9

    @st.composite
    def _s(draw):
        V = draw(st.sampled_from([3, 2, 4, 1]))
        N = draw(st.sampled_from([2, 1, 3]))
        T = draw(st.sampled_from([4, 5, 3, 2, 1, 0] + list(range(6, maxT + 1))))
        blank = draw(st.integers(-V, V - 1))
        is_probs = draw(st.booleans())
        lo = 1 if is_probs else -12
        frame = st.lists(st.integers(lo, 12), min_size=V, max_size=V, unique=True)
        # repeats and blanks are what the collapse is about: the best label of each frame is drawn from {blank, A, B}
        # and the frame's distinct scores are arranged so that their maximum sits on that label
        labels = [blank % V, draw(st.integers(0, V - 1)), draw(st.integers(0, V - 1))]
        scores = []
        for _ in range(N):
            row = []
            for _ in range(T):
                f = list(draw(frame))
                a = labels[draw(st.sampled_from([1, 0, 1, 0, 2]))]
                m = f.index(max(f))
                f[a], f[m] = f[m], f[a]
                row.append(f)
            scores.append(row)
        in_lens = draw(st.one_of(st.lists(st.integers(0, T), min_size=N, max_size=N), st.none()))
        return {"V": V, "N": N, "T": T, "blank": blank, "is_probs": is_probs, "batch_first": draw(st.booleans()),
                "scores": scores, "in_lens": in_lens, "module": draw(st.booleans()),
                # what batching code leaves in the frames past an element's length (pad_sequence with -inf, uninitialised memory)
                "pad_fill": draw(st.sampled_from([None, None, "-inf", "nan", "inf", 1e30]))}

    return _s()


@subcheck("C07", "ctc_greedy", _greedy_cases, 1500, 40000,
          doc="ctc_greedy_search (T 0..6|9, V 1..4, N 1..3, in_lens unset/mixed incl. 0, every blank index incl. negative, both layouts, "
              "logits or probabilities; per frame distinct scores so the arg-max is unique) vs loop: arg-max per valid frame, collapse "
              "repeats, drop blanks, summed (multiplied) best scores",
          required_classes=["repeat_separated_by_blank", "mixed_lens", "is_probs", "batch_first", "negative_blank", "repeat_collapsed",
                            "non_finite_fill_past_length"])
def _greedy_check(case):
    import torch
    from pydrobert.torch.functional import ctc_greedy_search
    from pydrobert.torch.modules import CTCGreedySearch

    V, N, T, blank_arg = case["V"], case["N"], case["T"], case["blank"]
    blank = blank_arg % V
    if case["is_probs"]:
        vals = [[[v / sum(f) for v in f] for f in row] for row in case["scores"]]
    else:
        vals = [[[v / 4 for v in f] for f in row] for row in case["scores"]]
    x = torch.tensor(vals, dtype=torch.float32).view(N, T, V)
    filled = False
    if case.get("pad_fill") is not None and case["in_lens"] is not None:
        for n in range(N):
            if case["in_lens"][n] < T:
                x[n, case["in_lens"][n]:] = float(case["pad_fill"])
                filled = True
    if not case["batch_first"]:
        x = x.transpose(0, 1).contiguous()
    in_lens = None if case["in_lens"] is None else torch.tensor(case["in_lens"], dtype=torch.long)
    if case["module"]:
        max_, paths, out_lens = CTCGreedySearch(blank_arg, case["batch_first"], case["is_probs"])(x, in_lens)
    else:
        max_, paths, out_lens = ctc_greedy_search(x, in_lens, blank_arg, case["batch_first"], case["is_probs"])
    require(list(max_.shape) == [N] and list(out_lens.shape) == [N], "result shapes", [list(max_.shape), list(out_lens.shape)], [N])
    require(list(paths.shape) == ([N, T] if case["batch_first"] else [T, N]), "paths shape", list(paths.shape), [N, T])
    if not case["batch_first"]:
        paths = paths.t()
    cl = set()
    for n in range(N):
        L = T if case["in_lens"] is None else case["in_lens"][n]
        best = []
        score = 1.0 if case["is_probs"] else 0.0
        for t in range(L):
            f = vals[n][t]
            lpf = f if case["is_probs"] else declm.log_softmax(f)
            a = max(range(V), key=lambda v: f[v])
            best.append(a)
            score = score * lpf[a] if case["is_probs"] else score + lpf[a]
        exp = []
        for t, a in enumerate(best):
            if a != blank and (t == 0 or a != best[t - 1]):
                exp.append(a)
            if t > 0 and a == best[t - 1] and a != blank:
                cl.add("repeat_collapsed")
        for s_ in range(len(best)):
            for t in range(s_ + 2, len(best)):
                if best[s_] != blank and best[t] == best[s_] and all(b == blank for b in best[s_ + 1:t]):
                    cl.add("repeat_separated_by_blank")
        ol = int(out_lens[n])
        require(ol == len(exp), "out_lens[%d]" % n, ol, len(exp))
        got = [int(v) for v in paths[n, :ol]]
        require(got == exp, "greedy path of element %d" % n, got, exp)
        require(close(float(max_[n]), score, rel=1e-5, abs_=1e-6), "greedy score of element %d" % n, float(max_[n]), score)
    if case["in_lens"] is not None and len(set(case["in_lens"])) >= 2:
        cl.add("mixed_lens")
    if case["in_lens"] is not None and 0 in case["in_lens"]:
        cl.add("zero_length_element")
    if case["is_probs"]:
        cl.add("is_probs")
    if case["batch_first"]:
        cl.add("batch_first")
    if blank_arg < 0:
        cl.add("negative_blank")
    if T == 0:
        cl.add("T_0")
    if filled:
        cl.add("non_finite_fill_past_length")
    return Info(nontrivial="repeat_separated_by_blank" in cl, classes=sorted(cl))
