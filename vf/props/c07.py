"""C07 Sequence scores, random walks and greedy CTC decoding match their definitions."""
from __future__ import annotations

import itertools
import math
import os

from hypothesis import strategies as st

from ..core import Info, close, require, subcheck
from .. import declm
from .. import declayout as dl

NEG_INF = float("-inf")
CAP = 12
# Class "cached tensors edited in place by the caller" (sub-check `distribution`): with cache_samples=True the unrepaired
# library keeps references to the caller's tensors and answers log_prob(value) from the cache after `value` was edited in
# place (replays/C07/distribution-cache-aliases-edited-value.json, fixes/C07-distribution-cache-aliases-caller-tensors.diff).
# Off until that fix is merged, so that the committed check stays quiet; VERIF_C07_CACHE_ALIASING=1 turns it on.
ENABLE_CACHE_ALIASING = True  # repaired in /repo by the cache-copies commit
ENABLE_FAILED_CALL = True  # repaired in /repo by e396224


def _prod(xs):
    out = 1
    for x in xs:
        out *= x
    return out


def _unflatten(flat, shape):
    if not shape:
        return flat[0]
    if len(shape) == 1:
        return list(flat[: shape[0]])
    step = _prod(shape[1:])
    return [_unflatten(flat[i * step:(i + 1) * step], shape[1:]) for i in range(shape[0])]


# ================================================================ (a) sequence_log_probs, tensors


def _seq_definition(logit_rows, toks, V, eos):
    """sum of log-softmax of the chosen tokens up to and including the first eos; out-of-vocabulary skipped."""
    tot = 0.0
    for row, x in zip(logit_rows, toks):
        if 0 <= x < V:
            tot += declm.log_softmax(row)[x]
        if eos is not None and x == eos:
            break
    return tot


def _tensor_cases(tier):
    @st.composite
    def _s(draw):
        rank = draw(st.sampled_from([2, 3, 2, 4]))
        T = draw(st.sampled_from([3, 0, 1, 2, 4, 5]))
        V = draw(st.sampled_from([3, 1, 2, 4]))
        other = draw(st.lists(st.sampled_from([2, 1, 3, 0]), min_size=rank - 1, max_size=rank - 1))
        pos = draw(st.integers(0, rank - 1))
        shape = other[:pos] + [T] + other[pos:]
        dim = pos - rank if draw(st.booleans()) else pos
        eos = draw(st.sampled_from([1 % V, None, 0, V - 1, V, -1]))
        n = _prod(shape)
        hyp = draw(st.lists(st.integers(-2, V + 1), min_size=n, max_size=n))
        if eos is not None and draw(st.sampled_from([True, True, False])):
            # make eos frequent enough that it appears inside sequences
            mask = draw(st.lists(st.integers(0, 3), min_size=n, max_size=n))
            hyp = [eos if m == 0 else h for h, m in zip(hyp, mask)]
        logits = draw(st.lists(st.integers(-16, 16), min_size=n * V, max_size=n * V))
        case = {"shape": shape, "dim": dim, "V": V, "eos": eos, "hyp": hyp, "logits": logits,
                "module": draw(st.booleans())}
        # memory layouts of the two tensor arguments (same values); float64 scores; scores scaled by 2**8 / 2**16
        case["layouts"] = {"logits": draw(st.sampled_from(dl.LAYOUT_CHOICES)), "hyp": draw(st.sampled_from(dl.LAYOUT_CHOICES))}
        case["dtype"] = draw(st.sampled_from(["float32", "float32", "float64"]))
        case["scale"] = draw(st.sampled_from([0, 0, 0, 8, 16]))
        # what the statement says is ignored - positions after the first eos, out-of-vocabulary positions - holds garbage:
        # junk ids (after eos) and non-finite / huge scores (after eos and at out-of-vocabulary positions)
        case["junk"] = draw(st.sampled_from([None, None, {"id": -1, "score": "nan"}, {"id": 1 << 40, "score": "-inf"},
                                             {"id": -(1 << 62), "score": "inf"}, {"id": (1 << 63) - 1, "score": 1e30},
                                             {"id": None, "score": "nan"}]))
        # a stride-0 (expanded) view along a non-sequence dimension whose entries are made identical
        others = [d for d in range(rank) if d != pos and shape[d] >= 2]
        if others and draw(st.sampled_from([False, False, True])):
            case["expand"] = {"which": draw(st.sampled_from(["logits", "hyp", "both"])), "dim": draw(st.sampled_from(others))}
        return case

    return _s()


@subcheck("C07", "seq_tensor", _tensor_cases, 1500, 40000,
          doc="sequence_log_probs on rank 2..4 token tensors (sequence dim anywhere, negative dims, T 0..5, tokens incl. out-of-vocabulary "
              "and negative ids, eos unset / in-vocabulary / out-of-vocabulary id) vs an explicit loop over the definition. Both tensors "
              "also as offset / column-slice / transposed / strided / expanded (stride 0) views; junk ids after the first eos and NaN / "
              "+-inf / 1e30 scores after the first eos and at out-of-vocabulary positions; float64 scores; scores scaled by 2**8 / 2**16",
          required_classes=["eos_inside_with_tokens_after", "oov_tokens", "rank_4", "negative_dim", "empty_sequence_dim",
                            "layout_offset", "layout_transposed", "layout_col_slice", "layout_strided", "layout_expanded",
                            "garbage_in_ignored_positions", "junk_ids_after_eos", "float64_logits", "extreme_logits"])
def _tensor_check(case):
    import torch
    from pydrobert.torch.functional import sequence_log_probs
    from pydrobert.torch.modules import SequenceLogProbabilities

    shape, dim, V, eos = case["shape"], case["dim"], case["V"], case["eos"]
    rank = len(shape)
    pos = dim % rank
    T = shape[pos]
    cl = set()
    scale = 2 ** case.get("scale", 0)
    dtype = torch.float64 if case.get("dtype") == "float64" else torch.float32
    hyp_flat, log_flat = list(case["hyp"]), [v * scale for v in case["logits"]]
    hyp = torch.tensor(hyp_flat, dtype=torch.long).view(shape)
    logits = (torch.tensor(log_flat, dtype=dtype) / 4).view(shape + [V])
    ex = case.get("expand")
    if ex is not None:
        # identical entries along one non-sequence dimension (the lists the oracle reads are rebuilt from the tensors)
        d = ex["dim"]
        if ex["which"] in ("logits", "both"):
            logits = logits.narrow(d, 0, 1).expand(shape + [V]).contiguous()
        if ex["which"] in ("hyp", "both"):
            hyp = hyp.narrow(d, 0, 1).expand(shape).contiguous()
        hyp_flat, log_flat = hyp.flatten().tolist(), [int(v) for v in (logits * 4).flatten().tolist()]
    hyp_in, logits_in = hyp.clone(), logits.clone()
    junk = case.get("junk")
    if junk is not None and hyp.numel():
        # positions the statement says are ignored: after the first eos (ids and scores), out-of-vocabulary ids (scores)
        moved = hyp.movedim(pos, -1)
        after = torch.zeros_like(moved, dtype=torch.bool)
        if eos is not None:
            after = ((moved == eos).long().cumsum(-1) - (moved == eos).long()) > 0
        oov = (moved < 0) | (moved >= V)
        hyp_j, log_j = hyp_in.movedim(pos, -1), logits_in.movedim(pos, -2)
        if after.any() or oov.any():
            cl.add("garbage_in_ignored_positions")
        if junk["id"] is not None and after.any():
            hyp_j[after] = junk["id"]
            cl.add("junk_ids_after_eos")
        log_j[after | oov] = float(junk["score"])
    lay = case.get("layouts", {})
    if ex is not None and ex["which"] in ("logits", "both") and junk is None:
        logits_in = logits_in.narrow(ex["dim"], 0, 1).expand(shape + [V])
        cl.add("layout_expanded")
    else:
        logits_in = dl.relayout(logits_in, lay.get("logits", "contiguous"))
    if ex is not None and ex["which"] in ("hyp", "both") and junk is None:
        hyp_in = hyp_in.narrow(ex["dim"], 0, 1).expand(shape)
        cl.add("layout_expanded")
    else:
        hyp_in = dl.relayout(hyp_in, lay.get("hyp", "contiguous"))
    if case["module"]:
        got = SequenceLogProbabilities(dim, eos)(logits_in, hyp_in)
    else:
        got = sequence_log_probs(logits_in, hyp_in, dim, eos)
    out_shape = shape[:pos] + shape[pos + 1:]
    require(list(got.shape) == out_shape, "result shape", list(got.shape), out_shape)
    hyp_l = _unflatten(hyp_flat, shape)
    log_l = _unflatten([v / 4 for v in log_flat], shape + [V])

    def pick(nested, idx):
        for i in idx:
            nested = nested[i]
        return nested

    for idx in itertools.product(*[range(s) for s in out_shape]):
        toks, rows = [], []
        for t in range(T):
            full = idx[:pos] + (t,) + idx[pos:]
            toks.append(pick(hyp_l, full))
            rows.append(pick(log_l, full))
        exp = _seq_definition(rows, toks, V, eos)
        g = float(got[idx]) if idx else float(got)
        require(close(g, exp, rel=1e-5, abs_=1e-5), "sequence log-probability differs from the definition at %s" % (list(idx),),
                g, {"tokens": toks, "expected": exp})
        if eos is not None and eos in toks[:-1]:
            after = toks[toks.index(eos) + 1:]
            if any(0 <= x < V and x != eos for x in after):
                cl.add("eos_inside_with_tokens_after")
        if any(not (0 <= x < V) for x in toks):
            cl.add("oov_tokens")
    cl.add("rank_%d" % rank)
    if dim < 0:
        cl.add("negative_dim")
    if T == 0:
        cl.add("empty_sequence_dim")
        if eos is not None:
            cl.add("empty_sequence_dim_with_eos")
    if eos is not None and not (0 <= eos < V):
        cl.add("eos_out_of_vocabulary")
    if eos is None:
        cl.add("eos_unset")
    cl.update(dl.layout_classes(lay.values()))
    if case.get("dtype") == "float64":
        cl.add("float64_logits")
    if case.get("scale"):
        cl.add("extreme_logits")
    return Info(nontrivial="eos_inside_with_tokens_after" in cl, classes=sorted(cl))


# ================================================================ (a') packed input


def _packed_cases(tier):
    @st.composite
    def _s(draw):
        N = draw(st.sampled_from([3, 1, 2, 4]))
        V = draw(st.sampled_from([3, 1, 2, 4]))
        T = draw(st.sampled_from([3, 1, 2, 4, 5]))
        lens = draw(st.lists(st.integers(1, T), min_size=N, max_size=N))
        sorted_ = draw(st.booleans())
        if sorted_:
            lens = sorted(lens, reverse=True)
        Tm = max(lens) if draw(st.booleans()) else T  # hyp may be longer than the longest sequence
        batch_first_hyp = draw(st.booleans())
        dim = (1 if batch_first_hyp else 0) - (2 if draw(st.booleans()) else 0)
        hyp = draw(st.lists(st.lists(st.integers(-2, V + 1), min_size=Tm, max_size=Tm), min_size=N, max_size=N))
        logits = draw(st.lists(st.lists(st.lists(st.integers(-16, 16), min_size=V, max_size=V), min_size=Tm, max_size=Tm),
                               min_size=N, max_size=N))
        case = {"N": N, "V": V, "lens": lens, "enforce_sorted": sorted_, "dim": dim, "hyp": hyp, "logits": logits,
                "pass_unused_eos": draw(st.booleans())}
        # memory layout of hyp and of the packed data tensor, float64 scores, junk ids in hyp past each length (those
        # positions are not part of the packed sequences) and non-finite scores at out-of-vocabulary positions
        case["layouts"] = {"hyp": draw(st.sampled_from(dl.LAYOUT_CHOICES)), "data": draw(st.sampled_from(dl.LAYOUT_CHOICES))}
        case["dtype"] = draw(st.sampled_from(["float32", "float32", "float64"]))
        case["junk"] = draw(st.sampled_from([None, None, {"id": -1, "score": "nan"}, {"id": 1 << 40, "score": "-inf"},
                                             {"id": -(1 << 62), "score": "inf"}, {"id": (1 << 63) - 1, "score": 1e30}]))
        return case

    return _s()


@subcheck("C07", "seq_packed", _packed_cases, 1000, 20000,
          doc="sequence_log_probs on a PackedSequence of logits (sorted / unsorted lengths, hyp as (T,N) or (N,T), dims given positively "
              "or negatively) == loop over the valid steps == the padded call with the positions beyond each length set to an "
              "out-of-vocabulary id. hyp and the packed data tensor also as offset / column-slice / transposed / strided views; junk ids in "
              "hyp past each length, non-finite scores at out-of-vocabulary positions; float64 scores",
          required_classes=["two_distinct_lengths", "unsorted_lengths", "negative_dim", "layout_offset", "layout_transposed",
                            "layout_col_slice", "layout_strided", "garbage_at_oov_positions", "junk_ids_past_length",
                            "float64_logits"])
def _packed_check(case):
    import torch
    from torch.nn.utils.rnn import pack_padded_sequence
    from pydrobert.torch.functional import sequence_log_probs

    N, V, lens, dim = case["N"], case["V"], case["lens"], case["dim"]
    Tm = len(case["hyp"][0])
    cl = set()
    lay = case.get("layouts", {})
    dtype = torch.float64 if case.get("dtype") == "float64" else torch.float32
    hyp_nt = torch.tensor(case["hyp"], dtype=torch.long).view(N, Tm)
    logits_ntv = (torch.tensor(case["logits"], dtype=dtype) / 4).view(N, Tm, V)
    junk = case.get("junk")
    logits_in, hyp_in = logits_ntv.clone(), hyp_nt.clone()
    if junk is not None:
        oov = (hyp_nt < 0) | (hyp_nt >= V)
        past = torch.arange(Tm).unsqueeze(0) >= torch.tensor(lens).unsqueeze(1)
        logits_in[oov | past] = float(junk["score"])
        hyp_in[past] = junk["id"]
        if bool((oov & ~past).any()):
            cl.add("garbage_at_oov_positions")
        if bool(past.any()):
            cl.add("junk_ids_past_length")
    packed = pack_padded_sequence(logits_in.transpose(0, 1), torch.tensor(lens), enforce_sorted=case["enforce_sorted"])
    if lay.get("data", "contiguous") != "contiguous":
        packed = torch.nn.utils.rnn.PackedSequence(dl.relayout(packed.data, lay["data"]), packed.batch_sizes,
                                                   packed.sorted_indices, packed.unsorted_indices)
    hyp = dl.relayout(hyp_in if dim % 2 == 1 else hyp_in.t().contiguous(), lay.get("hyp", "contiguous"))
    # eos is documented to be ignored for packed input; only an id that never occurs inside a valid length is passed
    eos = None
    if case["pass_unused_eos"]:
        used = {case["hyp"][n][t] for n in range(N) for t in range(lens[n])}
        free = [v for v in range(V) if v not in used]
        eos = free[0] if free else None
    got = sequence_log_probs(packed, hyp, dim, eos)
    require(list(got.shape) == [N], "result shape (packed)", list(got.shape), [N])
    hyp_masked = hyp_nt.clone()
    for n in range(N):
        hyp_masked[n, lens[n]:] = -1
    padded = sequence_log_probs(logits_ntv, hyp_masked, 1, eos)
    for n in range(N):
        rows = [[v / 4 for v in case["logits"][n][t]] for t in range(lens[n])]
        exp = _seq_definition(rows, case["hyp"][n][: lens[n]], V, None)
        require(close(float(got[n]), exp, rel=1e-5, abs_=1e-5), "packed: element %d differs from the definition" % n,
                float(got[n]), exp)
        require(close(float(got[n]), float(padded[n]), rel=1e-5, abs_=1e-5), "packed and padded input disagree (element %d)" % n,
                float(got[n]), float(padded[n]))
    cl.update(dl.layout_classes(lay.values()))
    if case.get("dtype") == "float64":
        cl.add("float64_logits")
    if len(set(lens)) >= 2:
        cl.add("two_distinct_lengths")
    if lens != sorted(lens, reverse=True):
        cl.add("unsorted_lengths")
    if dim < 0:
        cl.add("negative_dim")
    if eos is not None:
        cl.add("eos_passed")
    if not case["enforce_sorted"]:
        cl.add("enforce_sorted_false")
    return Info(nontrivial="two_distinct_lengths" in cl, classes=sorted(cl))


# ================================================================ (b) random walk + distribution wrapper


def _first_eos_prefix(toks, eos):
    if eos is not None and eos in toks:
        return toks[: toks.index(eos) + 1]
    return list(toks)


def _walk_cases(tier):
    maxT = 4 if tier == "quick" else 6

    @st.composite
    def _s(draw):
        zero = draw(st.sampled_from([False, False, False, True]))
        spec = draw(declm.lm_specs(2 if zero else 1, 3, max_cond=3, lo=-8, hi=8, zero_prob=zero))
        V, C = spec["V"], len(spec["cond"])
        kind = draw(st.sampled_from(["pos", "none", "pos", "neg"]))
        eos = None if kind == "none" else (draw(st.integers(0, V - 1)) if kind == "pos" else draw(st.integers(-V, -1)))
        T = draw(st.sampled_from([3, 1, 2] + list(range(4, maxT + 1))))
        max_iters = T
        if eos is not None and draw(st.integers(0, 7)) == 7:
            max_iters = None
        batch = draw(st.sampled_from([3, None, 1, 2]))
        conds = draw(st.lists(st.integers(0, C - 1), min_size=batch or 1, max_size=batch or 1))
        case = {"lm": spec, "eos": eos, "max_iters": max_iters, "batch": batch, "conds": conds,
                "seed": draw(st.integers(0, 2 ** 31 - 1)), "wrapper_batched": draw(st.booleans()),
                "validate_args": draw(st.sampled_from([None, True, False]))}
        if draw(st.sampled_from([0, 0, 0, 0, 1])):
            # extreme but legal magnitudes: logits of up to about +-1e6 (probabilities that round to exactly 0 and 1)
            case["extreme"] = draw(st.sampled_from([10, 14, 18]))
            spec["cond"] = [[v * 2 ** case["extreme"] for v in row] for row in spec["cond"]]
        case["cond_layout"] = draw(st.sampled_from(["contiguous", "offset", "strided", "contiguous"]))
        # call pattern on the RandomWalk / model objects: one judged walk on fresh objects; or the judged walk, another walk
        # (other seed, other batch), the judged walk again - same seed, must be identical; or the same with train()/eval()
        # switches; or a walk that dies half-way (the model refuses its second step) before the judged walk
        case["pattern"] = draw(st.sampled_from(["fresh", "repeat", "repeat_modes", "abandoned_first"]))
        case["other"] = {"seed": draw(st.integers(0, 2 ** 31 - 1)), "batch": draw(st.sampled_from([1, None, 2])),
                         "cond": draw(st.integers(0, C - 1))}
        return case

    return _s()


def judge_walk(case, spec, lm, walk, conds, batch, T, seed, cl, chain, rel=1e-5, wrapper=True):
    """One seeded walk on the given objects, judged against the statement. Returns (y, lens, lp)."""
    import torch
    from pydrobert.torch.distributions import SequentialLanguageModelDistribution

    V = spec["V"]
    eos = None if case["eos"] is None else case["eos"] % V
    init = {"cond": dl.relayout(torch.tensor(conds, dtype=torch.long), case.get("cond_layout", "contiguous"))}
    torch.manual_seed(seed)
    y, lens, lp = walk(dict(init), batch, T)
    out = (y.clone(), lens.clone(), lp.clone())
    if batch is None:
        require(y.dim() == 1 and lens.dim() == 0 and lp.dim() == 0, "unbatched walk result shapes",
                [list(y.shape), list(lens.shape), list(lp.shape)], "(S,), (), ()")
        y, lens, lp = y.unsqueeze(1), lens.unsqueeze(0), lp.unsqueeze(0)
    N = len(conds)
    require(y.dim() == 2 and y.size(1) == N and list(lens.shape) == [N] and list(lp.shape) == [N], "walk result shapes",
            [list(y.shape), list(lens.shape), list(lp.shape)], N)
    S = y.size(0)
    if T is not None:
        require(S <= T, "more steps than max_iters", S, T)
    Ls = []
    lens_l, lp_l = lens.tolist(), lp.tolist()
    for n in range(N):
        L = int(lens_l[n])
        require(0 <= L <= S, "reported length outside [0, S]", L, S)
        toks = y[:L, n].tolist()
        require(all(0 <= v < V for v in toks), "token outside the vocabulary", toks, V)
        ended = eos is not None and L > 0 and toks[-1] == eos
        if eos is not None:
            require(eos not in toks[:-1], "path continues after its first eos", toks, eos)
        if not ended:
            require(T is not None and L == T, "path neither ends in eos nor reaches the step limit", {"tokens": toks, "len": L}, T)
            cl.add("stopped_by_limit")
        else:
            cl.add("stopped_by_eos")
            if L >= 128:
                cl.add("eos_after_127_steps")
        exp = chain(conds[n], toks)
        require(not math.isnan(lp_l[n]) and lp_l[n] > NEG_INF, "a sampled path has a non-finite reported log-probability", lp_l[n], "finite")
        # (every float32 log-softmax term carries an absolute error of about 2^-24 however small the term is: a path of
        # 1024 near-certain tokens has a log-probability of -3e-4 known to about 5e-5 only)
        require(close(float(lp_l[n]), exp, rel=rel, abs_=2e-5 + L * 2.4e-7), "reported log-probability != chain of the model on the path",
                float(lp_l[n]), {"tokens": toks, "chain": exp})
        Ls.append(L)
    # the wrapper's log-probability of exactly these paths
    if S >= 1 and wrapper:
        value = y.t().contiguous()  # (N, S)
        if eos is not None:
            # positions after the end are not valid: give them the documented filler (eos)
            for n in range(N):
                value[n, Ls[n]:] = eos
        if case["wrapper_batched"]:
            dist = SequentialLanguageModelDistribution(walk, N, dict(init), T, validate_args=case["validate_args"])
            cl.add("wrapper_batch_shape_N")
        else:
            dist = SequentialLanguageModelDistribution(walk, None, dict(init), T, validate_args=case["validate_args"])
        # the definition of sequence_log_probs applied to the model's own outputs on these paths
        from pydrobert.torch.functional import sequence_log_probs
        full = lm(value.t()[:-1], dict(init))
        require(list(full.shape) == [S, N, V], "shape of lm(path)", list(full.shape), [S, N, V])
        sl = sequence_log_probs(full, value.t(), 0, eos)
        for n in range(N):
            require(close(float(sl[n]), float(lp[n]), rel=rel, abs_=2e-5 + S * 2.4e-7),
                    "sequence_log_probs(lm(path), path) != the walk's reported log-probability", float(sl[n]), float(lp[n]))
        wl = dist.log_prob(value)
        require(list(wl.shape) == [N], "wrapper log_prob shape", list(wl.shape), [N])
        for n in range(N):
            require(close(float(wl[n]), float(lp[n]), rel=rel, abs_=2e-5 + S * 2.4e-7),
                    "distribution wrapper's log_prob of a walked path != the walk's reported log-probability",
                    float(wl[n]), float(lp[n]))
        if T is not None and S < T:
            cl.add("all_paths_shorter_than_limit")
    if len(set(Ls)) >= 2:
        cl.add("elements_stop_at_different_steps")
    return out


def _walk_equal(a, b):
    import torch

    (ya, la, pa), (yb, lb, pb) = a, b
    if ya.shape != yb.shape or not torch.equal(la, lb) or not torch.equal(pa, pb):
        return False
    S = ya.size(0)
    mask = torch.arange(S).view([S] + [1] * (ya.dim() - 1)) < la
    return bool(((ya == yb) | ~mask).all())


@subcheck("C07", "walk", _walk_cases, 1200, 30000,
          doc="RandomWalk over a HashLM (state only in prev; eos set incl. negative index / unset; max_iters 1..4|6 or unset; batch "
              "None/1..3; generated torch seed): each path in vocabulary, ends at first eos or the step limit, reported log-prob == "
              "pure-Python chain == distribution wrapper's log_prob of the returned paths. Also models with zero-probability tokens "
              "and with logits of +-1e6, and call patterns on ONE walk/model object: the judged walk, another walk, the judged walk "
              "again with the same seed (must be identical), train()/eval() switches, a walk that died half-way before",
          required_classes=["elements_stop_at_different_steps", "eos_set", "eos_unset", "batch_none", "stopped_by_limit", "stateful_lm",
                            "zero_probability_tokens", "extreme_logits", "walk_repeated", "train_eval_toggled", "abandoned_walk"])
def _walk_check(case):
    import torch
    from pydrobert.torch.modules import RandomWalk

    spec, conds, batch, T = case["lm"], case["conds"], case["batch"], case["max_iters"]
    V = spec["V"]
    eos = None if case["eos"] is None else case["eos"] % V
    lm = declm.HashLM(spec, cap=CAP if T is None else None)
    walk = RandomWalk(lm, case["eos"])
    cl = set()
    pattern = case.get("pattern", "fresh")

    def chain(c, toks):
        return declm.py_chain(spec, c, toks)

    if pattern == "abandoned_first":
        cap, lm.cap = lm.cap, 0
        try:
            torch.manual_seed(case["other"]["seed"])
            walk({"cond": torch.tensor([case["other"]["cond"]] * len(conds), dtype=torch.long)}, batch, max(T or CAP, 2))
        except declm.StepCap:
            cl.add("abandoned_walk")
        lm.cap = cap
    first = judge_walk(case, spec, lm, walk, conds, batch, T, case["seed"], cl, chain)
    if pattern in ("repeat", "repeat_modes"):
        o = case["other"]
        if pattern == "repeat_modes":
            walk.train(False)
            cl.add("train_eval_toggled")
        judge_walk(case, spec, lm, walk, [o["cond"]] * (o["batch"] or 1), o["batch"], T, o["seed"], set(), chain)
        if pattern == "repeat_modes":
            walk.train(True)
        again = judge_walk(case, spec, lm, walk, conds, batch, T, case["seed"], set(), chain, wrapper=False)
        require(_walk_equal(first, again), "the same seeded walk on the same object returns something else the second time",
                [t.tolist() for t in again], [t.tolist() for t in first])
        cl.add("walk_repeated")
    cl.add("eos_unset" if eos is None else "eos_set")
    cl.add("batch_none" if batch is None else "batch_%d" % batch)
    if T is None:
        cl.add("max_iters_unset")
    if spec["M"] >= 2:
        cl.add("stateful_lm")
    if spec.get("ninf"):
        cl.add("zero_probability_tokens")
    if case.get("extreme") is not None:
        cl.add("extreme_logits")
    if case.get("cond_layout", "contiguous") != "contiguous":
        cl.add("initial_state_layout_" + case["cond_layout"])
    return Info(nontrivial="elements_stop_at_different_steps" in cl, classes=sorted(cl))


def _support(V, eos, T):
    seqs = set()
    for p in itertools.product(range(V), repeat=T):
        p = list(p)
        if eos is not None and eos in p:
            i = p.index(eos)
            p = p[: i + 1] + [eos] * (T - i - 1)
        seqs.add(tuple(p))
    return seqs


def _dist_cases(tier):
    maxT = 3 if tier == "quick" else 4

    @st.composite
    def _s(draw):
        zero = draw(st.sampled_from([False, False, False, True]))
        spec = draw(declm.lm_specs(2 if zero else 1, 3, max_cond=3, lo=-8, hi=8, zero_prob=zero))
        V, C = spec["V"], len(spec["cond"])
        kind = draw(st.sampled_from(["pos", "none", "pos", "neg"]))
        T = draw(st.sampled_from([2, 1, 3] + list(range(4, maxT + 1))))
        batch = draw(st.sampled_from([2, None, 1, 3]))
        case = {"lm": spec}
        if draw(st.sampled_from([0, 0, 0, 0, 0, 1])):
            # a vocabulary at an implementation threshold, model expanded from a seed; the support has V**T rows
            V = draw(st.sampled_from([16, 15, 17, 31, 32, 33]))
            T = draw(st.sampled_from([1, 2])) if V <= 17 else 1
            batch = draw(st.sampled_from([None, 1]))
            C = draw(st.integers(1, 2))
            case = {"lm": None, "lm_small": {"V": V, "M": draw(st.sampled_from([3, 5, 2])), "mult": draw(st.sampled_from([2, 1, 3])),
                                             "C": C, "seed": draw(st.integers(0, 2 ** 31 - 1))}}
        elif draw(st.sampled_from([0, 0, 0, 0, 1])):
            case["extreme"] = draw(st.sampled_from([10, 14, 18]))
            spec["cond"] = [[v * 2 ** case["extreme"] for v in row] for row in spec["cond"]]
        eos = None if kind == "none" else (draw(st.integers(0, V - 1)) if kind == "pos" else draw(st.integers(-V, -1)))
        conds = draw(st.lists(st.integers(0, C - 1), min_size=batch or 1, max_size=batch or 1))
        if batch is None:
            conds = [0]
        case.update({"eos": eos, "max_iters": T, "batch": batch, "conds": conds,
                     "sample_shape": draw(st.sampled_from([[2], [], [1], [3], [2, 2], [16], [17], [33], [4, 8]])),
                     "seed": draw(st.integers(0, 2 ** 31 - 1)), "cache": draw(st.booleans()),
                     "lm_mutates_state_dict": draw(st.sampled_from([False, False, False, True])),
                     "validate_args": draw(st.sampled_from([None, True, False]))})
        # history of calls on the ONE distribution object after the basic checks (must not matter, cache on or off)
        case["history"] = draw(st.sampled_from(["none", "A_B_A", "resample_then_A", "second_distribution_on_the_walk",
                                                "edit_value_in_place", "edit_result_in_place", "edit_sample_in_place",
                                                "model_call_fails_once"]))
        case["seed2"] = draw(st.integers(0, 2 ** 31 - 1))
        return case

    return _s()


@subcheck("C07", "distribution", _dist_cases, 800, 15000,
          doc="SequentialLanguageModelDistribution over RandomWalk(HashLM): enumerate_support == the complete sequences (eos-filled), "
              "log_prob(support) == chain, sums to one per batch element; samples (sample shapes (), (1,), (2,), (3,), (2,2), (16,), "
              "(17,), (33,), (4,8); batch None/1..3; caching on/off) lie in the support and log_prob(sample) == chain, also after "
              "clear_cache(). Also models with zero-probability tokens / logits of +-1e6 / vocabularies of 15..33 expanded from a seed, "
              "and call histories on the one distribution object: log_prob(A), log_prob(B), log_prob(A); a new sample before "
              "log_prob(A); a second distribution on the same walk used in between; (behind ENABLE_CACHE_ALIASING) tensors handed "
              "to / received from the distribution (incl. the tensor sample() returned) edited in place; a model call inside log_prob that fails once, then the same question again",
          required_classes=["sample_shape_empty", "batch_none", "batched", "sample_shorter_than_limit", "cache_on", "cache_off",
                            "zero_probability_tokens", "extreme_logits", "vocabulary_about_16", "vocabulary_about_32",
                            "samples_16_or_more", "history_A_B_A", "history_resample_then_A",
                            "history_second_distribution_on_the_walk", "history_edit_sample_in_place",
                            "history_model_call_fails_once", "state_dict_mutating_model_several_draws"])
def _dist_check(case):
    import torch
    from pydrobert.torch.modules import RandomWalk
    from pydrobert.torch.distributions import SequentialLanguageModelDistribution

    spec, conds, batch, T = case["lm"], case["conds"], case["batch"], case["max_iters"]
    if spec is None:
        spec = declm.expand_spec(case["lm_small"])
    V = spec["V"]
    eos = None if case["eos"] is None else case["eos"] % V
    lm = declm.HashLM(spec)
    if case.get("lm_mutates_state_dict"):
        lm.mutating = True  # a model that keeps its state in the dict it is handed (the wrapper hands out copies)
    walk = RandomWalk(lm, case["eos"])
    init = None if batch is None else {"cond": torch.tensor(conds, dtype=torch.long)}
    dist = SequentialLanguageModelDistribution(walk, batch, init, T, cache_samples=case["cache"],
                                               validate_args=case["validate_args"])
    bshape = [] if batch is None else [batch]
    cl = set()
    # -- support
    require(dist.has_enumerate_support, "has_enumerate_support with max_iters set", False, True)
    sup = dist.enumerate_support()
    exp_sup = _support(V, eos, T)
    require(list(sup.shape) == [len(exp_sup)] + bshape + [T], "enumerate_support shape", list(sup.shape), [len(exp_sup)] + bshape + [T])
    rows = [tuple(int(v) for v in (r[0] if batch is not None else r)) for r in sup]
    require(len(set(rows)) == len(rows) and set(rows) == exp_sup, "enumerate_support is not the set of complete sequences",
            sorted(map(list, rows)), sorted(map(list, exp_sup)))
    if batch is not None:
        require(bool((sup == sup[:, :1]).all()), "expanded support differs across the batch dimension", None, None)
    slp = dist.log_prob(sup)
    require(list(slp.shape) == [len(rows)] + bshape, "log_prob(support) shape", list(slp.shape), [len(rows)] + bshape)
    for b in range(batch or 1):
        tot = 0.0
        for i, r in enumerate(rows):
            g = float(slp[i, b]) if batch is not None else float(slp[i])
            exp = declm.py_chain(spec, conds[b], _first_eos_prefix(list(r), eos))
            require(close(g, exp, rel=1e-5, abs_=2e-5), "log_prob of a support row != chain of the model", g, {"row": list(r), "chain": exp})
            tot += math.exp(g)
        require(abs(tot - 1.0) <= 1e-5, "probabilities over the enumerated support do not sum to one", tot, 1.0)
    # -- samples
    dist.clear_cache()
    sshape = list(case["sample_shape"])
    torch.manual_seed(case["seed"])
    sample = dist.sample(torch.Size(sshape))
    require(list(sample.shape[:-1]) == sshape + bshape and 1 <= sample.size(-1) <= T, "sample shape",
            list(sample.shape), sshape + bshape + ["1..%d" % T])
    S = sample.size(-1)
    if eos is None:
        require(S == T, "without eos every sample has max_iters tokens", S, T)
    lps = dist.log_prob(sample)
    require(list(lps.shape) == sshape + bshape, "log_prob(sample) shape", list(lps.shape), sshape + bshape)
    dist.clear_cache()
    lps2 = dist.log_prob(sample)
    require(list(lps2.shape) == sshape + bshape, "log_prob(sample) shape after clear_cache", list(lps2.shape), sshape + bshape)
    flat = sample.reshape(-1, S)
    f1, f2 = lps.reshape(-1), lps2.reshape(-1)
    nb = batch or 1
    for i in range(flat.size(0)):
        r = [int(v) for v in flat[i]]
        b = i % nb
        full = _first_eos_prefix(r, eos)
        if eos is not None:
            require(eos in r or S == T, "a sample shorter than max_iters does not contain eos", r, eos)
            filled = tuple(full + [eos] * (T - len(full)))
        else:
            filled = tuple(r)
        require(filled in exp_sup, "sample (eos-filled) is not a row of the support", r, None)
        exp = declm.py_chain(spec, conds[b], full)
        require(close(float(f1[i]), exp, rel=1e-5, abs_=2e-5), "log_prob(sample) != chain of the model", float(f1[i]), {"row": r, "chain": exp})
        require(close(float(f2[i]), exp, rel=1e-5, abs_=2e-5), "log_prob(sample) after clear_cache != chain", float(f2[i]), {"row": r, "chain": exp})
    if S < T:
        cl.add("sample_shorter_than_limit")
    cl.add("sample_shape_empty" if not sshape else "sample_shape_%s" % "x".join(map(str, sshape)))
    cl.add("batch_none" if batch is None else "batched")
    cl.add("cache_on" if case["cache"] else "cache_off")
    if case.get("lm_mutates_state_dict") and batch is not None and flat.size(0) >= 2 * batch:
        cl.add("state_dict_mutating_model_several_draws")
    cl.add("eos_unset" if eos is None else "eos_set")
    if len({tuple(int(v) for v in row) for row in flat}) >= 2:
        cl.add("distinct_samples")
    if spec.get("ninf"):
        cl.add("zero_probability_tokens")
    if case.get("extreme") is not None:
        cl.add("extreme_logits")
    if V >= 15:
        cl.add("vocabulary_about_16" if V <= 17 else "vocabulary_about_32")
    if flat.size(0) >= 16:
        cl.add("samples_16_or_more")

    # -- call histories on the same distribution object: what log_prob returns must depend on its argument only
    def chains(t):
        fl = t.reshape(-1, t.size(-1))
        return [declm.py_chain(spec, conds[i % nb], _first_eos_prefix([int(v) for v in fl[i]], eos)) for i in range(fl.size(0))]

    def same(lp, t, what):
        require(list(lp.shape) == list(t.shape[:-1]), what + ": shape", list(lp.shape), list(t.shape[:-1]))
        for g, e in zip(lp.reshape(-1).tolist(), chains(t)):
            require(close(g, e, rel=1e-5, abs_=2e-5), what + ": log_prob != chain of the model", g, {"value": t.tolist(), "chain": e})

    hist = case.get("history", "none")
    A = sample.clone()
    if hist == "A_B_A":
        torch.manual_seed(case["seed2"])
        B = dist.sample(torch.Size(sshape)).clone()
        dist.clear_cache()
        same(dist.log_prob(A), A, "log_prob(A) before log_prob(B)")
        same(dist.log_prob(B), B, "log_prob(B) after log_prob(A)")
        same(dist.log_prob(A), A, "log_prob(A) after log_prob(B)")
        cl.add("history_A_B_A")
    elif hist == "resample_then_A":
        torch.manual_seed(case["seed2"])
        C_ = dist.sample(torch.Size(sshape))
        same(dist.log_prob(A), A, "log_prob(A) after a newer sample was drawn")
        same(dist.log_prob(C_), C_, "log_prob of the newer sample after log_prob(A)")
        cl.add("history_resample_then_A")
    elif hist == "second_distribution_on_the_walk":
        other = SequentialLanguageModelDistribution(walk, None, None, T, cache_samples=True, validate_args=case["validate_args"])
        same(dist.log_prob(A), A, "log_prob(A)")
        torch.manual_seed(case["seed2"])
        o = other.sample(torch.Size([2]))
        other.log_prob(o)
        same(dist.log_prob(A), A, "log_prob(A) after another distribution used the same walk")
        cl.add("history_second_distribution_on_the_walk")
    elif hist == "edit_value_in_place" and ENABLE_CACHE_ALIASING:
        v = A.clone()
        dist.clear_cache()  # (otherwise the cache still refers to the tensor of the basic checks, which nobody edits)
        same(dist.log_prob(v), v, "log_prob(v)")
        first = v.reshape(-1, S)[0]
        new0 = (int(first[0]) + 1) % V
        if V >= 2 and (S == T or eos is None or new0 == eos or eos in [int(x) for x in first[1:]]):
            first[0] = new0  # the caller edits its own tensor in place (v is a view of it)
            same(dist.log_prob(v), v, "log_prob(v) after v was edited in place")
            cl.add("history_edit_value_in_place")
            if case["cache"]:
                cl.add("cached_value_edited_in_place")
    elif hist == "edit_sample_in_place" and ENABLE_CACHE_ALIASING:
        torch.manual_seed(case["seed2"])
        s_ = dist.sample(torch.Size(sshape))  # the caller owns what sample() returned ...
        first = s_.reshape(-1, s_.size(-1))[0]
        new0 = (int(first[0]) + 1) % V
        if s_.numel() and V >= 2 and (s_.size(-1) == T or eos is None or new0 == eos or eos in [int(x) for x in first[1:]]):
            first[0] = new0  # ... and edits it in place before asking for its log-probability
            same(dist.log_prob(s_), s_, "log_prob(s) after the tensor returned by sample() was edited in place")
            cl.add("history_edit_sample_in_place")
            if case["cache"]:
                cl.add("cached_sample_edited_in_place")
    elif hist == "model_call_fails_once" and ENABLE_FAILED_CALL:
        # the model call inside log_prob(A) fails once (an interrupt, a transient error): asking again must give A's
        # log-probability, not whatever was computed for the sample drawn before
        torch.manual_seed(case["seed2"])
        B = dist.sample(torch.Size(sshape)).clone()
        if B.shape == A.shape and not torch.equal(A, B):
            lm.fail_next = True
            try:
                dist.log_prob(A)
                raised = False
            except declm.Transient:
                raised = True
            lm.fail_next = False
            if raised:
                same(dist.log_prob(A), A, "log_prob(A) asked again after the model call inside log_prob(A) failed once")
                same(dist.log_prob(B), B, "log_prob(B) after that")
                cl.add("history_model_call_fails_once")
    elif hist == "edit_result_in_place" and ENABLE_CACHE_ALIASING:
        r = dist.log_prob(A)
        same(r, A, "log_prob(A)")
        r.fill_(123.0)  # the caller edits the tensor it received
        same(dist.log_prob(A), A, "log_prob(A) after the tensor returned earlier was edited in place")
        cl.add("history_edit_result_in_place")
    return Info(nontrivial=(eos is not None and "distinct_samples" in cl) or "sample_shorter_than_limit" in cl, classes=sorted(cl))


# ================================================================ (c) greedy CTC


def _greedy_cases(tier):
    maxT = 6 if tier == "quick" else 9

    @st.composite
    def _s(draw):
        V = draw(st.sampled_from([3, 2, 4, 1]))
        N = draw(st.sampled_from([2, 1, 3]))
        T = draw(st.sampled_from([4, 5, 3, 2, 1, 0] + list(range(6, maxT + 1))))
        blank = draw(st.integers(-V, V - 1))
        is_probs = draw(st.booleans())
        lo = 1 if is_probs else -12
        frame = st.lists(st.integers(lo, 12), min_size=V, max_size=V, unique=True)
        # repeats and blanks are what the collapse is about: the best label of each frame is drawn from {blank, A, B}
        # and the frame's distinct scores are arranged so that their maximum sits on that label
        labels = [blank % V, draw(st.integers(0, V - 1)), draw(st.integers(0, V - 1))]
        scores = []
        for _ in range(N):
            row = []
            for _ in range(T):
                f = list(draw(frame))
                a = labels[draw(st.sampled_from([1, 0, 1, 0, 2]))]
                m = f.index(max(f))
                f[a], f[m] = f[m], f[a]
                row.append(f)
            scores.append(row)
        in_lens = draw(st.one_of(st.lists(st.integers(0, T), min_size=N, max_size=N), st.none()))
        case = {"V": V, "N": N, "T": T, "blank": blank, "is_probs": is_probs, "batch_first": draw(st.booleans()),
                "scores": scores, "in_lens": in_lens, "module": draw(st.booleans()),
                # what batching code leaves in the frames past an element's length (pad_sequence with -inf, uninitialised memory)
                "pad_fill": draw(st.sampled_from([None, None, "-inf", "nan", "inf", 1e30]))}
        # memory layouts of the two tensor arguments, float64 scores
        case["layouts"] = {"logits": draw(st.sampled_from(dl.LAYOUT_CHOICES)),
                           "in_lens": draw(st.sampled_from(["contiguous", "offset", "strided", "contiguous"]))}
        case["dtype"] = draw(st.sampled_from(["float32", "float32", "float64"]))
        # value classes: logits scaled by 2**8 / 2**16 (log-probabilities down to about -2e5); probabilities exactly 0 and 1
        # (one-hot frames)
        if is_probs:
            case["one_hot"] = draw(st.sampled_from([False, False, True]))
        else:
            case["scale"] = draw(st.sampled_from([0, 0, 0, 8, 16]))
        return case

    return _s()


@subcheck("C07", "ctc_greedy", _greedy_cases, 1500, 40000,
          doc="ctc_greedy_search (T 0..6|9, V 1..4, N 1..3, in_lens unset/mixed incl. 0, every blank index incl. negative, both layouts, "
              "logits or probabilities; per frame distinct scores so the arg-max is unique) vs loop: arg-max per valid frame, collapse "
              "repeats, drop blanks, summed (multiplied) best scores. logits / in_lens also as offset / column-slice / transposed / "
              "strided views, float64 scores, logits scaled by 2**8 / 2**16, one-hot probability frames (exactly 0 and 1), -inf / NaN / "
              "+inf / 1e30 in the frames past in_lens",
          required_classes=["repeat_separated_by_blank", "mixed_lens", "is_probs", "batch_first", "negative_blank", "repeat_collapsed",
                            "non_finite_fill_past_length", "layout_offset", "layout_transposed", "layout_col_slice",
                            "layout_strided", "in_lens_layout_offset", "in_lens_layout_strided", "float64_scores",
                            "extreme_logits", "probabilities_exactly_0_and_1"])
def _greedy_check(case):
    import torch
    from pydrobert.torch.functional import ctc_greedy_search
    from pydrobert.torch.modules import CTCGreedySearch

    V, N, T, blank_arg = case["V"], case["N"], case["T"], case["blank"]
    blank = blank_arg % V
    dtype = torch.float64 if case.get("dtype") == "float64" else torch.float32
    lay = case.get("layouts", {})
    if case["is_probs"]:
        if case.get("one_hot"):
            # probabilities exactly 0 and 1: all mass on the frame's best label
            vals = [[[1.0 if v == max(f) else 0.0 for v in f] for f in row] for row in case["scores"]]
        else:
            vals = [[[v / sum(f) for v in f] for f in row] for row in case["scores"]]
    else:
        sc = 2 ** case.get("scale", 0)
        vals = [[[v * sc / 4 for v in f] for f in row] for row in case["scores"]]
    x = torch.tensor(vals, dtype=dtype).view(N, T, V)
    filled = False
    if case.get("pad_fill") is not None and case["in_lens"] is not None:
        for n in range(N):
            if case["in_lens"][n] < T:
                x[n, case["in_lens"][n]:] = float(case["pad_fill"])
                filled = True
    if not case["batch_first"]:
        x = x.transpose(0, 1).contiguous()
    x = dl.relayout(x, lay.get("logits", "contiguous"))
    in_lens = None if case["in_lens"] is None else dl.relayout(torch.tensor(case["in_lens"], dtype=torch.long),
                                                               lay.get("in_lens", "contiguous"))
    if case["module"]:
        max_, paths, out_lens = CTCGreedySearch(blank_arg, case["batch_first"], case["is_probs"])(x, in_lens)
    else:
        max_, paths, out_lens = ctc_greedy_search(x, in_lens, blank_arg, case["batch_first"], case["is_probs"])
    require(list(max_.shape) == [N] and list(out_lens.shape) == [N], "result shapes", [list(max_.shape), list(out_lens.shape)], [N])
    require(list(paths.shape) == ([N, T] if case["batch_first"] else [T, N]), "paths shape", list(paths.shape), [N, T])
    if not case["batch_first"]:
        paths = paths.t()
    cl = set()
    for n in range(N):
        L = T if case["in_lens"] is None else case["in_lens"][n]
        best = []
        score = 1.0 if case["is_probs"] else 0.0
        for t in range(L):
            f = vals[n][t]
            lpf = f if case["is_probs"] else declm.log_softmax(f)
            a = max(range(V), key=lambda v: f[v])
            best.append(a)
            score = score * lpf[a] if case["is_probs"] else score + lpf[a]
        exp = []
        for t, a in enumerate(best):
            if a != blank and (t == 0 or a != best[t - 1]):
                exp.append(a)
            if t > 0 and a == best[t - 1] and a != blank:
                cl.add("repeat_collapsed")
        for s_ in range(len(best)):
            for t in range(s_ + 2, len(best)):
                if best[s_] != blank and best[t] == best[s_] and all(b == blank for b in best[s_ + 1:t]):
                    cl.add("repeat_separated_by_blank")
        ol = int(out_lens[n])
        require(ol == len(exp), "out_lens[%d]" % n, ol, len(exp))
        got = [int(v) for v in paths[n, :ol]]
        require(got == exp, "greedy path of element %d" % n, got, exp)
        require(close(float(max_[n]), score, rel=1e-5, abs_=1e-6), "greedy score of element %d" % n, float(max_[n]), score)
    if case["in_lens"] is not None and len(set(case["in_lens"])) >= 2:
        cl.add("mixed_lens")
    if case["in_lens"] is not None and 0 in case["in_lens"]:
        cl.add("zero_length_element")
    if case["is_probs"]:
        cl.add("is_probs")
    if case["batch_first"]:
        cl.add("batch_first")
    if blank_arg < 0:
        cl.add("negative_blank")
    if T == 0:
        cl.add("T_0")
    if filled:
        cl.add("non_finite_fill_past_length")
    cl.update(dl.layout_classes([lay.get("logits")]))
    if case["in_lens"] is not None and lay.get("in_lens", "contiguous") != "contiguous":
        cl.add("in_lens_layout_" + lay["in_lens"])
    if case.get("dtype") == "float64":
        cl.add("float64_scores")
    if case.get("scale"):
        cl.add("extreme_logits")
    if case.get("one_hot") and T:
        cl.add("probabilities_exactly_0_and_1")
    return Info(nontrivial="repeat_separated_by_blank" in cl, classes=sorted(cl))


# ================================================================ sizes at implementation thresholds
#
# One dimension at 15/16/17 ... 1023/1024/1025/2049; the data is a pure function of a few generated integers
# (declayout.np_mix / lcg_ints); the oracles are NumPy float64 loops over the definitions (no torch).


def _seq_large_cases(tier):
    quick = tier == "quick"

    @st.composite
    def _s(draw):
        big = draw(st.sampled_from(["T", "B", "V"]))
        T, B, V = draw(st.sampled_from([3, 2, 5, 1])), draw(st.sampled_from([2, 1, 3])), draw(st.sampled_from([3, 2, 4, 1]))
        hi = 1025 if quick else 2049
        if big == "T":
            T = draw(dl.threshold_sizes(15, max(hi, 2049)))
        elif big == "B":
            B = draw(dl.threshold_sizes(15, max(hi, 2049)))
        else:
            V = draw(dl.threshold_sizes(15, max(hi, 2049)))
        A = draw(st.sampled_from([None, None, 1, 2]))  # an extra leading dimension (rank 3)
        rank = 2 if A is None else 3
        pos = draw(st.integers(0, rank - 1))
        eos = draw(st.sampled_from([None, 0, V - 1, V // 2, V, -1]))
        return {"big": big, "T": T, "B": B, "V": V, "A": A, "pos": pos, "neg_dim": draw(st.booleans()), "eos": eos,
                "seed": draw(st.integers(0, 2 ** 31 - 1)),
                "layouts": {"logits": draw(st.sampled_from(dl.LAYOUT_CHOICES)), "hyp": draw(st.sampled_from(dl.LAYOUT_CHOICES))},
                "dtype": draw(st.sampled_from(["float32", "float64"])), "junk": draw(st.sampled_from([None, "nan", "-inf", 1e30])),
                "packed": draw(st.booleans())}

    return _s()


def _np_log_softmax(x):
    import numpy as np

    m = x.max(-1, keepdims=True)
    return x - m - np.log(np.exp(x - m).sum(-1, keepdims=True))


@subcheck("C07", "seq_large", _seq_large_cases, 400, 4000,
          doc="sequence_log_probs with ONE size at an implementation threshold: the sequence dimension, a batch dimension or the number "
              "of classes in 15/16/17 ... 1023/1024/1025, 2049; rank 2 or 3, sequence dimension anywhere; the first eos of sequence b sits "
              "at a threshold position (14..16, 30..32, ..., 1022..1024, T-1) or nowhere; tokens in [-1, V] (out-of-vocabulary at both "
              "ends), garbage ids / scores in the ignored positions; every output entry compared with a NumPy float64 loop over the "
              "definition (tolerance 4*T*2^-24 relative). Rank-2 cases also as a packed sequence with lengths at threshold values, "
              "against NumPy and against the padded call",
          required_classes=["big_T", "big_B", "big_V", "about_16", "about_64", "about_256", "about_1024", "about_2048",
                            "first_eos_at_or_after_position_127", "eos_inside_with_tokens_after", "packed", "rank_3"])
def _seq_large_check(case):
    import numpy as np
    import torch
    from torch.nn.utils.rnn import pack_padded_sequence
    from pydrobert.torch.functional import sequence_log_probs

    T, B, V, A, eos = case["T"], case["B"], case["V"], case["A"], case["eos"]
    R = (A or 1) * B
    cl = set()
    r_i, t_i = np.arange(R)[:, None], np.arange(T)[None, :]
    hyp = dl.np_mix(case["seed"], r_i, t_i) % (V + 2) - 1  # (R, T), values -1..V
    cands = sorted({p for x in dl.THRESHOLDS for p in (x - 1, x, x + 1) if p < T} | {max(T - 1, 0), T})
    first = np.array([cands[int(v) % len(cands)] for v in dl.np_mix(case["seed"] + 1, np.arange(R))])  # T = no eos
    if eos is not None:
        repl = (eos + 1) % V if (V > 1 and 0 <= eos < V) else (-1 if eos != -1 else V)
        before = t_i < first[:, None]
        hyp = np.where(before & (hyp == eos), repl, hyp)
        hyp = np.where(t_i == first[:, None], eos, hyp)
    logits_i = dl.np_mix(case["seed"] + 2, r_i[:, :, None], t_i[:, :, None], np.arange(V)[None, None, :]) % 65 - 32  # (R, T, V)
    x = logits_i.astype(np.float64) / 4
    # -- the definition
    lsm = _np_log_softmax(x)
    in_vocab = (hyp >= 0) & (hyp < V)
    pick = np.take_along_axis(lsm, np.clip(hyp, 0, V - 1)[:, :, None], 2)[:, :, 0]
    if eos is not None:
        is_eos = hyp == eos
        first_eos = np.where(is_eos.any(1), is_eos.argmax(1), T)
    else:
        first_eos = np.full(R, T)
    counted = in_vocab & (t_i <= first_eos[:, None])
    expected = np.where(counted, pick, 0.0).sum(1)
    ignored = ~counted
    # -- garbage in the ignored positions
    hyp_t = torch.from_numpy(hyp.copy())
    dtype = torch.float64 if case["dtype"] == "float64" else torch.float32
    log_t = torch.from_numpy(x.copy()).to(dtype)
    if case["junk"] is not None and ignored.any():
        after = torch.from_numpy(t_i > first_eos[:, None])
        hyp_t[after] = 1 << 40
        log_t[torch.from_numpy(ignored)] = float(case["junk"])
        cl.add("garbage_in_ignored_positions")
    # -- shapes: (R, T) -> ([A,] B, T) -> sequence dimension moved to `pos`
    lead = [B] if A is None else [A, B]
    rank = len(lead) + 1
    pos = case["pos"]
    hyp_in = hyp_t.view(lead + [T]).movedim(-1, pos).contiguous()
    log_in = log_t.view(lead + [T, V]).movedim(-2, pos).contiguous()
    dim = pos - rank if case["neg_dim"] else pos
    rel = max(1e-5, 4 * T * 2.0 ** -24)
    got = sequence_log_probs(dl.relayout(log_in, case["layouts"]["logits"]), dl.relayout(hyp_in, case["layouts"]["hyp"]), dim, eos)
    require(list(got.shape) == lead, "result shape", list(got.shape), lead)
    g = got.reshape(-1).double().numpy()
    atol = 1e-5 + T * 2.4e-7  # an absolute error of about 2^-24 per float32 log-softmax term
    bad = np.nonzero(~(np.abs(g - expected) <= atol + rel * np.maximum(np.abs(g), np.abs(expected))))[0]
    require(bad.size == 0, "sequence log-probability differs from the definition (NumPy float64) at flat index %s" % bad[:3].tolist(),
            g[bad[:3]].tolist(), {"expected": expected[bad[:3]].tolist(), "first_eos": first_eos[bad[:3]].tolist()})
    # -- the same data as a packed sequence (rank 2): eos is ignored, lengths cut the sequences
    if case["packed"] and A is None and T >= 1:
        lens = np.array([max(1, cands[int(v) % len(cands)]) for v in dl.np_mix(case["seed"] + 3, np.arange(B))])
        lens[0] = T
        counted_p = in_vocab & (t_i < lens[:, None])
        exp_p = np.where(counted_p, pick, 0.0).sum(1)
        log_p = torch.from_numpy(x.copy()).to(dtype)
        if case["junk"] is not None:
            log_p[torch.from_numpy(~counted_p)] = float(case["junk"])
        packed = pack_padded_sequence(log_p.transpose(0, 1), torch.from_numpy(lens), enforce_sorted=False)
        hyp_p = torch.from_numpy(hyp.copy())
        gp = sequence_log_probs(packed, hyp_p if pos == 1 else hyp_p.t().contiguous(), pos - 2 if case["neg_dim"] else pos, None)
        require(list(gp.shape) == [B], "result shape (packed)", list(gp.shape), [B])
        gpn = gp.double().numpy()
        badp = np.nonzero(~(np.abs(gpn - exp_p) <= atol + rel * np.maximum(np.abs(gpn), np.abs(exp_p))))[0]
        require(badp.size == 0, "packed: sequence log-probability differs from the definition at element %s" % badp[:3].tolist(),
                gpn[badp[:3]].tolist(), {"expected": exp_p[badp[:3]].tolist(), "lens": lens[badp[:3]].tolist()})
        hyp_m = torch.from_numpy(np.where(t_i < lens[:, None], hyp, -1))
        gpad = sequence_log_probs(torch.from_numpy(x.copy()).to(dtype), hyp_m, 1, None).double().numpy()
        require(bool((np.abs(gpad - gpn) <= atol + rel * np.abs(gpn)).all()), "packed and padded input disagree",
                gpn[:4].tolist(), gpad[:4].tolist())
        cl.add("packed")
        if len(set(lens.tolist())) >= 2:
            cl.add("two_distinct_lengths")
    cl.add("big_" + case["big"])
    sc = dl.size_class("x", {"T": T, "B": B, "V": V}[case["big"]])
    if sc:
        cl.add(sc[2:])
    cl.add("rank_%d" % rank)
    if eos is not None and bool((first_eos >= 127).any() and (first_eos < T).any() and ((first_eos >= 127) & (first_eos < T)).any()):
        cl.add("first_eos_at_or_after_position_127")
    inside = False
    if eos is not None:
        tail = in_vocab & (t_i > first_eos[:, None]) & (hyp != eos)
        inside = bool(tail.any())
        if inside:
            cl.add("eos_inside_with_tokens_after")
    cl.update(dl.layout_classes(case["layouts"].values()))
    if case["dtype"] == "float64":
        cl.add("float64_logits")
    return Info(nontrivial=inside or "two_distinct_lengths" in cl, classes=sorted(cl))


def _walk_large_cases(tier):
    quick = tier == "quick"

    @st.composite
    def _s(draw):
        big = draw(st.sampled_from(["T", "N", "V", "T"]))
        V, T, batch = draw(st.sampled_from([3, 2])), draw(st.sampled_from([3, 2, 4, 1])), draw(st.sampled_from([2, None, 1, 3]))
        if big == "T":
            T = draw(dl.threshold_sizes(15, 257 if quick else 1025))
        elif big == "N":
            batch = draw(dl.threshold_sizes(15, 1025 if quick else 2049))
        else:
            V = draw(dl.threshold_sizes(15, 1025 if quick else 2049))
        kind = draw(st.sampled_from(["pos", "none", "pos", "neg"]))
        eos = None if kind == "none" else (draw(st.sampled_from([0, V - 1, V // 2])) if kind == "pos" else draw(st.sampled_from([-1, -V])))
        late = None
        if big == "T" and draw(st.sampled_from([True, False])):
            # a model that counts its steps (V = 2: one token besides eos) and all but forbids eos before step `late`:
            # walks that END at a late step
            T = draw(st.sampled_from([129, 257, 130, 258] + ([] if quick else [1025])))
            late = draw(st.sampled_from([127, 128, 126] + ([255, 256] if T >= 257 else []) + ([1023, 1024] if T >= 1025 else [])))
            V, eos = 2, draw(st.sampled_from([0, 1, -1]))
        return {"big": big, "late_eos": late, "eos": eos, "max_iters": T, "batch": batch,
                "lm_small": {"V": V, "M": draw(st.sampled_from([3, 5, 7, 2])), "mult": draw(st.sampled_from([2, 1, 3])),
                             "C": draw(st.integers(1, 3)), "seed": draw(st.integers(0, 2 ** 31 - 1))},
                "cond_seed": draw(st.integers(0, 2 ** 31 - 1)), "seed": draw(st.integers(0, 2 ** 31 - 1)),
                "eos_bias": draw(st.sampled_from([-24, 0, -8, -48, 8])), "wrapper_batched": draw(st.booleans()),
                "validate_args": draw(st.sampled_from([None, True, False])),
                "cond_layout": draw(st.sampled_from(["contiguous", "offset", "strided"]))}

    return _s()


@subcheck("C07", "walk_large", _walk_large_cases, 400, 2500,
          doc="RandomWalk with ONE size at an implementation threshold: max_iters (15/16/17 ... 129, 257; thorough ... 1025), batch "
              "(... 1025 | 2049) or vocabulary (... 1025 | 2049); HashLM table and conditions expanded from generated seeds; for long "
              "limits also a model that counts its steps and all but forbids eos before a late step, so walks END at steps 127..129, "
              "255..257. Every path judged as in `walk` (chain by a cached pure-Python mirror, tolerance 4*S*2^-24 relative), incl. the "
              "wrapper's log_prob and sequence_log_probs of the model's outputs",
          required_classes=["big_T", "big_N", "big_V", "about_16", "about_64", "about_256", "about_1024", "eos_after_127_steps",
                            "stopped_by_limit", "stopped_by_eos", "elements_stop_at_different_steps"])
def _walk_large_check(case):
    from pydrobert.torch.modules import RandomWalk

    small = dict(case["lm_small"])
    T, late = case["max_iters"], case.get("late_eos")
    if late is not None:
        small.update(M=small["V"] + 2 + small["V"] * T + 1, mult=1)  # states never wrap: the state counts sum(token + 1)
    spec = declm.expand_spec(small)
    V, C = spec["V"], len(spec["cond"])
    e = None if case["eos"] is None else case["eos"] % V
    if late is not None:
        inc = (1 - e) + 1  # V == 2: every step before the end adds this much to the state
        for s_ in range(spec["M"]):
            spec["table"][s_][e] = -160 if s_ < V + 1 + late * inc else 40
    elif e is not None and case["eos_bias"]:
        for c in range(C):
            spec["cond"][c][e] += case["eos_bias"] if c % 2 == 0 else -case["eos_bias"]
    N = case["batch"] or 1
    conds = dl.lcg_ints(case["cond_seed"], N, 0, C - 1)
    pylm = declm.PyLM(spec)
    lm = declm.HashLM(spec)
    walk = RandomWalk(lm, case["eos"])
    cl = set()
    y, lens, lp = judge_walk(case, spec, lm, walk, conds, case["batch"], T, case["seed"], cl, pylm.chain,
                             rel=max(1e-5, 4 * T * 2.0 ** -24))
    S = y.size(0)
    cl.add("big_" + case["big"])
    sc = dl.size_class("x", {"T": S, "N": N, "V": V}[case["big"]])
    if sc:
        cl.add(sc[2:])
    cl.add("eos_unset" if e is None else "eos_set")
    return Info(nontrivial="elements_stop_at_different_steps" in cl, classes=sorted(cl))


def _greedy_large_cases(tier):
    quick = tier == "quick"

    @st.composite
    def _s(draw):
        big = draw(st.sampled_from(["T", "N", "V"]))
        V, N, T = draw(st.sampled_from([3, 2, 4])), draw(st.sampled_from([2, 1, 3])), draw(st.sampled_from([4, 5, 3, 6]))
        hi = 1025 if quick else 2049
        if big == "T":
            T = draw(dl.threshold_sizes(15, max(hi, 2049)))
        elif big == "N":
            N = draw(dl.threshold_sizes(15, max(hi, 2049)))
        else:
            V = draw(dl.threshold_sizes(15, max(hi, 2049)))
        return {"big": big, "V": V, "N": N, "T": T, "blank": draw(st.sampled_from([-1, 0, V - 1, V // 2, -V, 16 % V])),
                "is_probs": draw(st.booleans()), "batch_first": draw(st.booleans()), "seed": draw(st.integers(0, 2 ** 31 - 1)),
                "lens_kind": draw(st.sampled_from(["mixed", "unset", "mixed", "full"])),
                "pad_fill": draw(st.sampled_from([None, "-inf", "nan", 1e30])),
                "layouts": {"logits": draw(st.sampled_from(dl.LAYOUT_CHOICES)),
                            "in_lens": draw(st.sampled_from(["contiguous", "offset", "strided"]))},
                "dtype": draw(st.sampled_from(["float32", "float64"])), "module": draw(st.booleans())}

    return _s()


@subcheck("C07", "greedy_large", _greedy_large_cases, 500, 3000,
          doc="ctc_greedy_search with ONE size at an implementation threshold (T, N or V in 15/16/17 ... 1023/1024/1025, 2049): per frame a "
              "permutation of distinct scores (v -> a*(v+1) mod P, P prime > V) whose maximum is moved onto a label drawn from {blank, A, "
              "B}; in_lens unset / full / at threshold values; garbage past the lengths; oracle = NumPy arg-max + Python collapse per "
              "element, float64 score (tolerance 4*T*2^-24 relative)",
          required_classes=["big_T", "big_N", "big_V", "about_16", "about_64", "about_256", "about_1024", "about_2048",
                            "repeat_separated_by_blank", "repeat_collapsed", "mixed_lens", "is_probs", "path_of_128_or_more_labels"])
def _greedy_large_check(case):
    import numpy as np
    import torch
    from pydrobert.torch.functional import ctc_greedy_search
    from pydrobert.torch.modules import CTCGreedySearch

    V, N, T, blank_arg = case["V"], case["N"], case["T"], case["blank"]
    blank = blank_arg % V
    cl = set()
    P = dl.next_prime(V + 1)
    n_i, t_i, v_i = np.arange(N)[:, None, None], np.arange(T)[None, :, None], np.arange(V)[None, None, :]
    a = 1 + dl.np_mix(case["seed"], n_i, t_i) % (P - 1)
    w = (a * (v_i + 1)) % P  # (N, T, V): per frame distinct integers in 1..P-1
    labels = np.array([blank, int(dl.np_mix(case["seed"] + 1, 0)) % V, int(dl.np_mix(case["seed"] + 2, 0)) % V])
    target = labels[np.array([1, 0, 1, 0, 2])[dl.np_mix(case["seed"] + 3, n_i[:, :, 0], t_i[:, :, 0]) % 5]]  # (N, T)
    m = w.argmax(2)
    wm = np.take_along_axis(w, m[:, :, None], 2)
    wt = np.take_along_axis(w, target[:, :, None], 2)
    np.put_along_axis(w, m[:, :, None], wt, 2)
    np.put_along_axis(w, target[:, :, None], wm, 2)
    if case["is_probs"]:
        # peaky, so that the product over thousands of frames does not underflow
        wf = w.astype(np.float64)
        np.put_along_axis(wf, target[:, :, None], 1000.0 * P, 2)
        x = wf / wf.sum(2, keepdims=True)
        best = x.max(2)
    else:
        x = w.astype(np.float64) / 4
        best = (x - x.max(2, keepdims=True) - np.log(np.exp(x - x.max(2, keepdims=True)).sum(2, keepdims=True))).max(2)
    arg = x.argmax(2)
    if case["lens_kind"] == "unset":
        lens = None
    elif case["lens_kind"] == "full":
        lens = [T] * N
    else:
        cands = sorted({p for q in dl.THRESHOLDS for p in (q - 1, q, q + 1) if p <= T} | {0, T, max(T - 1, 0), T // 2})
        lens = [cands[int(v) % len(cands)] for v in dl.np_mix(case["seed"] + 4, np.arange(N))]
    dtype = torch.float64 if case["dtype"] == "float64" else torch.float32
    xt = torch.from_numpy(x.copy()).to(dtype)
    if case["pad_fill"] is not None and lens is not None:
        for n in range(N):
            if lens[n] < T:
                xt[n, lens[n]:] = float(case["pad_fill"])
                cl.add("non_finite_fill_past_length")
    if not case["batch_first"]:
        xt = xt.transpose(0, 1).contiguous()
    xt = dl.relayout(xt, case["layouts"]["logits"])
    in_lens = None if lens is None else dl.relayout(torch.tensor(lens, dtype=torch.long), case["layouts"]["in_lens"])
    if case["module"]:
        max_, paths, out_lens = CTCGreedySearch(blank_arg, case["batch_first"], case["is_probs"])(xt, in_lens)
    else:
        max_, paths, out_lens = ctc_greedy_search(xt, in_lens, blank_arg, case["batch_first"], case["is_probs"])
    require(list(max_.shape) == [N] and list(out_lens.shape) == [N], "result shapes", [list(max_.shape), list(out_lens.shape)], [N])
    require(list(paths.shape) == ([N, T] if case["batch_first"] else [T, N]), "paths shape", list(paths.shape), [N, T])
    if not case["batch_first"]:
        paths = paths.t()
    rel = max(1e-5, 4 * T * 2.0 ** -24)
    max_l, ol_l = max_.tolist(), out_lens.tolist()
    for n in range(N):
        L = T if lens is None else lens[n]
        seq = arg[n, :L].tolist()
        exp = []
        for t, lab in enumerate(seq):
            if lab != blank and (t == 0 or lab != seq[t - 1]):
                exp.append(lab)
            if t > 0 and lab == seq[t - 1] and lab != blank:
                cl.add("repeat_collapsed")
        # a label, blanks, the same label again
        last_lab, gap = None, False
        for lab in seq:
            if lab == blank:
                gap = last_lab is not None
            else:
                if gap and lab == last_lab:
                    cl.add("repeat_separated_by_blank")
                last_lab, gap = lab, False
        score = float(np.prod(best[n, :L])) if case["is_probs"] else float(best[n, :L].sum())
        require(int(ol_l[n]) == len(exp), "out_lens[%d]" % n, int(ol_l[n]), len(exp))
        got = paths[n, : len(exp)].tolist()
        require(got == exp, "greedy path of element %d" % n, got[:40], exp[:40])
        require(close(float(max_l[n]), score, rel=rel, abs_=1e-6 + (0 if case["is_probs"] else L * 2.4e-7)),
                "greedy score of element %d" % n, float(max_l[n]), score)
        if len(exp) >= 128:
            cl.add("path_of_128_or_more_labels")
    if lens is not None and len(set(lens)) >= 2:
        cl.add("mixed_lens")
    if case["is_probs"]:
        cl.add("is_probs")
    cl.add("big_" + case["big"])
    sc = dl.size_class("x", {"T": T, "N": N, "V": V}[case["big"]])
    if sc:
        cl.add(sc[2:])
    cl.update(dl.layout_classes([case["layouts"]["logits"]]))
    if case["dtype"] == "float64":
        cl.add("float64_scores")
    return Info(nontrivial="repeat_separated_by_blank" in cl, classes=sorted(cl))


# ------------------------------------------------------------------ walks without a step limit that take long to end


def _walk_unbounded_cases(tier):
    quick = tier == "quick"

    @st.composite
    def _s(draw):
        late = draw(st.sampled_from([130, 1030, 1100, 257, 1023, 1024, 1025] + ([] if quick else [2050, 4100])))
        return {"big": "T", "late_eos": late, "eos": draw(st.sampled_from([0, 1, -1])), "max_iters": None,
                "batch": draw(st.sampled_from([None, 1, 2])),
                "lm_small": {"V": 2, "M": 3, "mult": 1, "C": draw(st.integers(1, 2)), "seed": draw(st.integers(0, 2 ** 31 - 1))},
                "cond_seed": draw(st.integers(0, 2 ** 31 - 1)), "seed": draw(st.integers(0, 2 ** 31 - 1)),
                "eos_bias": 0, "wrapper_batched": False, "validate_args": None, "cond_layout": "contiguous"}

    return _s()


@subcheck("C07", "walk_unbounded", _walk_unbounded_cases, 14, 120,
          doc="RandomWalk with eos set and NO step limit over a model that counts its steps and all but forbids eos before step "
              "130 .. 1100 (thorough .. 4100): the walk must run until its first eos, however late, and report the chained "
              "log-probability of the whole path",
          required_classes=["eos_after_1024_steps"])
def _walk_unbounded_check(case):
    from pydrobert.torch.modules import RandomWalk

    small = dict(case["lm_small"])
    late = case["late_eos"]
    Tcap = late + 40
    small.update(M=small["V"] + 2 + small["V"] * Tcap + 1, mult=1)
    spec = declm.expand_spec(small)
    V, C = spec["V"], len(spec["cond"])
    e = case["eos"] % V
    inc = (1 - e) + 1
    for s_ in range(spec["M"]):
        spec["table"][s_][e] = -160 if s_ < V + 1 + late * inc else 160
    N = case["batch"] or 1
    conds = dl.lcg_ints(case["cond_seed"], N, 0, C - 1)
    pylm = declm.PyLM(spec)
    lm = declm.HashLM(spec, cap=Tcap)
    walk = RandomWalk(lm, case["eos"])
    cl = set()
    y, lens, lp = judge_walk(case, spec, lm, walk, conds, case["batch"], None, case["seed"], cl, pylm.chain,
                             rel=max(1e-5, 4 * Tcap * 2.0 ** -24), wrapper=False)
    if int(lens.max()) > 1024:
        cl.add("eos_after_1024_steps")
    return Info(nontrivial=True, classes=sorted(cl))
