"""C16 A crash during an epoch update never loses the last or best checkpoint (fault enumeration).

For a generated (parameters, metric history) the uninterrupted run is recorded with a counting
injector (``trainctl.FaultInjector``): every file-system mutating call made by
``pydrobert.torch.training`` during every update is an event. Then EVERY event of EVERY update is
used as a crash point, both "before" and "after": the history is replayed in a fresh directory up to
that update, the update is killed there, all objects are discarded and a new controller is built on
the files. Oracle: see ``_recover_and_verify``.
"""
from __future__ import annotations

import itertools
import os
import shutil

from hypothesis import strategies as st

from ..core import Info, Reject, Violation, expect_raises, lib_frames, matcher, require, subcheck
from ..gen import dyadic
from .. import trainctl as T
from .c15 import config as c15_config, _check_domain


EPOCH_FMTS = ("default", "default", "custom", "subdir", "info")

# A format that applies a format specification to an entry other than the epoch (e.g. "{lr:.3e}") makes the first
# update raise TypeError in keep_last_and_best_only mode: the paths of "epoch 0" are formatted although its learning
# rate is None (fixes/C16-format-spec-on-unset-entry.diff, replays/C16/format-spec-on-unset-entry.json). Until the patch
# is merged the class stays out of the generators and such cases are rejected; VERIF_C16_INFO_SPEC_FMT=1 switches it on.
ENABLE_INFO_SPEC_FMT = True  # repaired in /repo (epoch-0 paths commit)
if ENABLE_INFO_SPEC_FMT:
    EPOCH_FMTS = EPOCH_FMTS + ("info_spec",)


# ---------------------------------------------------------------- uninterrupted run + crash-free invariants


def _expected_files(cfg, vals_so_far):
    e = len(vals_so_far)
    if not T.FMTS[cfg["fmt"]][2]:
        return sorted(set(T.ckpt_names(cfg, e)))
    if cfg["keep"]:
        return sorted(set(T.ckpt_names(cfg, e)) | set(T.ckpt_names(cfg, T.best_epoch(vals_so_far))))
    out = set()
    for j in range(1, e + 1):
        out |= set(T.ckpt_names(cfg, j))
    return sorted(out)


def _load_last(ctl, cfg, scramble):
    m, o = T.new_model_opt(cfg, scramble)
    ctl.load_model_and_optimizer_for_epoch(m, o)
    return m, o


def _load_epoch(ctl, cfg, epoch, scramble):
    m, o = T.new_model_opt(cfg, scramble)
    ctl.load_model_and_optimizer_for_epoch(m, o, epoch)
    return T.snapshot(m, o)


def _load_best_model(ctl, cfg, scramble):
    m, o = T.new_model_opt(cfg, scramble)
    ctl.load_model_for_epoch(m)
    return T.model_part(T.snapshot(m, o))


def _uninterrupted(cfg, root, check_dir=True):
    """Run the whole history without a crash, recording events / files / states per epoch and
    checking the crash-free clauses of the statement after every completed update."""
    s = T.Session(cfg, root)
    s.start()
    inj = T.FaultInjector()
    base = []
    n = len(cfg["val"])
    for i in range(n):
        n0 = len(inj.events)
        with inj.installed():
            cont = s.epoch(cfg["train"][i], cfg["val"][i])
        e = i + 1
        rec = {"events": inj.events[n0:], "cont": cont, "csv": s.csv_bytes(), "snap": T.snapshot(s.model, s.opt),
               "files": s.files(), "info": T.canon_info(s.ctl.get_info(e))}
        base.append(rec)
        if check_dir:
            vals = cfg["val"][:e]
            exp = _expected_files(cfg, vals)
            if cfg["keep"] or not T.FMTS[cfg["fmt"]][2]:
                require(rec["files"] == exp, "state directory after the completed update of epoch %d "
                        "(keep_last_and_best_only=%s)" % (e, cfg["keep"]), rec["files"], exp)
            else:
                require(set(exp) <= set(rec["files"]), "checkpoint files missing after epoch %d (everything is kept)" % e,
                        rec["files"], exp)
            # what is on disk is what was saved: through a *new* controller
            ctl = T.make_controller(cfg, s.csv, s.sdir)
            if T.FMTS[cfg["fmt"]][2]:
                epochs = range(1, e + 1) if not cfg["keep"] else sorted({e, T.best_epoch(vals)})
            else:
                epochs = [e]
            for j in epochs:
                got = _load_epoch(ctl, cfg, j, 40 + j)
                require(got == base[j - 1]["snap"], "state loaded for epoch %d after the completed update of epoch %d" % (j, e),
                        got, base[j - 1]["snap"])
        if not cont:
            break
    return base


# ---------------------------------------------------------------- one crash point


class _Fail(Exception):
    def __init__(self, stage, what, observed=None, expected=None, **extra):
        super().__init__(what)
        self.rec = dict(stage=stage, what=what, observed=observed, expected=expected, **extra)


def _lib(stage, fn, **extra):
    """Call into the library; an exception raised inside it is a failure of this crash point."""
    try:
        return fn()
    except _Fail:
        raise
    except Exception as ex:  # noqa - converted to a verdict only when the library raised it
        frames = lib_frames(ex.__traceback__)
        if not frames:
            raise
        raise _Fail(stage, "library raised %s: %s" % (type(ex).__name__, str(ex)[:200]),
                    "%s at %s" % (type(ex).__name__, frames[-1]), "no exception", exc=type(ex).__name__, **extra)


def _which_epoch(states, snap):
    """Which epochs' saved states a loaded snapshot equals (model part, optimizer part)."""
    me = [j for j, b in sorted(states.items()) if b["tag"] == snap["tag"] and b["w"] == snap["w"]]
    oe = [j for j, b in sorted(states.items()) if b["buf"] == snap["buf"] and b["lrs"] == snap["lrs"]]
    return me, oe


def _sample_epochs(L, best):
    """Epochs whose files are loaded when everything is kept and the history is long (stated sampling)."""
    if L <= 40:
        return list(range(1, L + 1))
    return sorted({1, 2, L // 2, best, L - 2, L - 1, L} - {0})


def _recover_and_verify(cfg, root, base, e, states, salt=1, sample=False):
    """Everything the statement promises about a controller started after a crash in update ``e``.

    ``states[j]`` is the (model, optimizer) state that the update which recorded epoch j had in hand, i.e. "the
    parameters that were saved for that epoch"; for j == e it is the state at the moment of the crash. Training
    continued after the crash uses ``salt`` so that a repeated epoch yields *different* parameters than the
    attempt that died (stale files are then distinguishable); the metrics, hence the history, are the case's.
    """
    states = dict(states)
    n_total = len(cfg["val"])
    final_csv = base[-1]["csv"]
    s = T.Session(cfg, root)
    s.salt = salt
    ctl = _lib("construct", lambda: T.make_controller(cfg, s.csv, s.sdir))
    s.ctl = ctl
    L = ctl.get_last_epoch()
    if L not in (e - 1, e):
        raise _Fail("history_prefix", "recovered history ends at an unexpected epoch", L, [e - 1, e])
    for j in range(1, L + 1):
        got = T.canon_info(ctl.get_info(j))
        if got != base[j - 1]["info"]:
            raise _Fail("history_prefix", "recovered entry of epoch %d differs from the uninterrupted run" % j, got,
                        base[j - 1]["info"])
    csv = s.csv_bytes()
    if csv is not None:
        ok = final_csv.startswith(csv) and (L == 0 or csv == base[L - 1]["csv"])
        if not ok:
            raise _Fail("history_prefix", "history file is not a prefix of the uninterrupted history file", csv.decode(),
                        (base[L - 1]["csv"] if L else final_csv).decode())
    elif L:
        raise _Fail("history_prefix", "history file missing", None, L)
    # --- last recorded epoch: model and optimizer
    m, o = _lib("load_last", lambda: _load_last(ctl, cfg, 11), recorded_last=L)
    if L >= 1:
        snap = T.snapshot(m, o)
        if snap != states[L]:
            me, oe = _which_epoch(states, snap)
            raise _Fail("load_last", "state loaded for the last recorded epoch is not the state saved for it", snap,
                        states[L], recorded_last=L, loaded_model_epochs=me, loaded_optim_epochs=oe)
    # --- best epoch: model alone, and model + optimizer
    b = ctl.get_best_epoch()
    exp_b = T.best_epoch(cfg["val"][:L])
    if b != exp_b:
        raise _Fail("load_best", "best epoch of the recovered history", b, exp_b)
    if b >= 1:
        got = _lib("load_best", lambda: _load_best_model(ctl, cfg, 12), best=b)
        exp = T.model_part(states[b])
        if got != exp:
            raise _Fail("load_best", "model loaded for the best epoch is not the model saved for it", got, exp, best=b)
        got = _lib("load_best", lambda: _load_epoch(ctl, cfg, b, 13), best=b)
        if got != states[b]:
            raise _Fail("load_best", "model + optimizer loaded for the best epoch are not the states saved for it", got,
                        states[b], best=b)
    # --- continue training to the end
    s.model, s.opt = m, o
    conts = []
    while L < n_total and _lib("continue", ctl.continue_training):
        conts.append(_lib("continue", lambda: s.epoch(cfg["train"][L], cfg["val"][L])))
        L += 1
        states[L] = T.snapshot(s.model, s.opt)
    exp_conts = [r["cont"] for r in base[len(base) - len(conts):]] if conts else []
    if L != len(base) or conts != exp_conts:
        raise _Fail("continue", "continued run stops at a different epoch / with different decisions",
                    [L, conts], [len(base), exp_conts])
    csv = s.csv_bytes()
    if csv != final_csv:
        raise _Fail("continue", "history file after continuing differs from the uninterrupted one",
                    None if csv is None else csv.decode(), final_csv.decode())
    lrs = [g["lr"] for g in s.opt.param_groups]
    if lrs != base[-1]["snap"]["lrs"]:
        raise _Fail("continue", "optimizer rates at the end differ from the uninterrupted run", lrs, base[-1]["snap"]["lrs"])
    # --- and what the final files hold, through yet another controller
    ctl2 = _lib("final_load", lambda: T.make_controller(cfg, s.csv, s.sdir))
    vals = cfg["val"][:L]
    if T.FMTS[cfg["fmt"]][2]:
        epochs = range(1, L + 1) if not cfg["keep"] else sorted({L, T.best_epoch(vals)})
        if sample and not cfg["keep"]:
            epochs = _sample_epochs(L, T.best_epoch(vals))
    else:
        epochs = [L]
    for j in epochs:
        got = _lib("final_load", lambda: _load_epoch(ctl2, cfg, j, 20 + j % 64), epoch_loaded=j)
        if got != states[j]:
            raise _Fail("final_load", "state of epoch %d after the continued run" % j, got, states[j], epoch_loaded=j)


def _replay_until(cfg, root, e):
    """A fresh run of epochs 1..e-1 (no crash); returns the session positioned before update e and the
    states saved so far."""
    s = T.Session(cfg, root)
    s.start()
    states = {}
    for i in range(e - 1):
        s.epoch(cfg["train"][i], cfg["val"][i])
        states[i + 1] = T.snapshot(s.model, s.opt)
    return s, states


def _crash_point(cfg, root, base, e, k, when, prepare=_replay_until, sample=False):
    s, states = prepare(cfg, root, e)
    inj = T.FaultInjector(k, when)
    try:
        with inj.installed():
            s.epoch(cfg["train"][e - 1], cfg["val"][e - 1])
    except T.Crash:
        pass
    else:
        if prepare is _replay_until:
            raise RuntimeError("harness: crash point %d/%s of epoch %d was not reached" % (k, when, e))
        # the script restarted on the files of epoch e-1 performed fewer file operations in update e than the uninterrupted
        # run did: there is nothing to interrupt here, but what the completed update left must be what the uninterrupted one left
        left, want = s.files(), base[e - 1].get("files")
        rec = None
        if want is not None and left != want:
            rec = dict(stage="restarted_update", what="state directory after update %d performed by a restarted script differs from "
                       "the uninterrupted run's" % e, observed=left, expected=want, epoch=e, k=k, when=when,
                       done=["%s:%s" % tuple(x) for x in inj.events])
        return rec, False
    if inj.events != base[e - 1]["events"][: k + 1] and prepare is _replay_until:
        raise RuntimeError("harness: event sequence not reproducible: %r vs %r" % (inj.events, base[e - 1]["events"]))
    states[e] = T.snapshot(s.model, s.opt)   # what the dying update was about to save / had saved
    left = s.files()
    if len(left) <= 16:
        known = set()
        for j in range(1, e + 1):
            known |= set(T.ckpt_names(cfg, j))
        stray = any(f not in known for f in left)   # reported in the evidence, not judged
    else:
        stray = any(os.path.basename(f).startswith("tmp") for f in left)
    del s
    done = inj.events[: k + (1 if when == "after" else 0)]
    try:
        _recover_and_verify(cfg, root, base, e, states, sample=sample)
    except _Fail as f:
        rec = dict(f.rec, epoch=e, k=k, when=when, done=["%s:%s" % tuple(x) for x in done])
        return rec, stray
    return None, stray


def _enumerate(cfg, second=None):
    """All crash points of all updates of one history. Returns (failures, stats)."""
    failures = []
    points = interior_with_delete = strays = 0
    with T.scratch() as root, T.quiet():
        u = os.path.join(root, "u")
        os.mkdir(u)
        with T.in_dir(u):
            base = _uninterrupted(cfg, ".")
        idx = 0
        for e in range(1, len(base) + 1):
            ev = base[e - 1]["events"]
            K = len(ev)
            deletes = any(x[0] == "remove" for x in ev)
            for k in range(K):
                for when in ("before", "after"):
                    idx += 1
                    d = os.path.join(root, "c%d" % idx)
                    os.mkdir(d)
                    with T.in_dir(d):
                        f, stray = _crash_point(cfg, ".", base, e, k, when)
                    points += 1
                    strays += stray
                    # strictly between the first and the last mutating call
                    inside = (k > 0 or when == "after") and (k < K - 1 or when == "before")
                    if inside and deletes:
                        interior_with_delete += 1
                    if f is not None:
                        failures.append(f)
                    shutil.rmtree(d, ignore_errors=True)
    return failures, {"points": points, "interior_with_delete": interior_with_delete, "epochs": len(base), "base": base,
                      "strays": strays}


def _verdict(cfg, failures, stats):
    classes = ["fmt_" + cfg["fmt"], "keep_last_and_best" if cfg["keep"] else "keep_everything",
               "model_" + cfg.get("model", "plain"), "metrics_" + cfg.get("scale", "unit")]
    classes += ["crash_points_x10"] * (stats["points"] // 10)
    classes += ["crash_left_temporary_file_x10"] * (stats["strays"] // 10)   # observed, not judged
    base = stats["base"]
    kinds = set()
    for r in base:
        ev = r["events"]
        if any(x[0] == "remove" for x in ev):
            kinds.add("update_deletes_old_checkpoint")
        if any(x[0] == "open" and x[1] == "creates" for x in ev):
            kinds.add("history_file_created")
        names = [x[0] for x in ev]
        if "writerow" in names and "replace" in names and names.index("writerow") < names.index("replace"):
            kinds.add("history_before_checkpoint")
    if len(base) < len(cfg["val"]):
        kinds.add("stopped_early")
    if stats["interior_with_delete"]:
        kinds.add("interior_crash_with_delete")
    classes += sorted(kinds)
    if failures:
        f0 = failures[0]
        compact = [{k: f.get(k) for k in ("epoch", "k", "when", "stage", "done", "recorded_last", "loaded_model_epochs",
                                          "loaded_optim_epochs", "exc", "what")} for f in failures]
        raise Violation(
            "crash %s event %d (%s) of the update of epoch %d -> %s: %s" % (
                f0["when"], f0["k"], base[f0["epoch"] - 1]["events"][f0["k"]], f0["epoch"], f0["stage"], f0["what"]),
            observed={"first": f0["observed"], "n_failures": len(failures), "n_points": stats["points"], "failures": compact},
            expected=f0["expected"])
    return Info(nontrivial=stats["interior_with_delete"] > 0, classes=classes)


def _domain(case):
    if case.get("fmt") == "info_spec" and not ENABLE_INFO_SPEC_FMT:
        raise Reject("format specification on a non-epoch entry: class switched off (see ENABLE_INFO_SPEC_FMT)")
    return _check_domain(case)


def _crash_check(case):
    _domain(case)
    failures, stats = _enumerate(case)
    return _verdict(case, failures, stats)


# ---------------------------------------------------------------- strategies


def _hist_strategy(max_len, keep, fmts):
    return c15_config(max_len, fmts=fmts, keep=keep)


def _keep_best_strategy(tier):
    return _hist_strategy(5 if tier == "quick" else 6, True, EPOCH_FMTS)


def _keep_all_strategy(tier):
    return _hist_strategy(5 if tier == "quick" else 6, False, EPOCH_FMTS)


subcheck("C16", "crash_keep_last_and_best", _keep_best_strategy, quick=36, thorough=800,
         doc="generated history (<= 5|6 epochs, parameters as C15, formats with the epoch field, keep_last_and_best_only); "
             "EVERY mutating call of EVERY update is a crash point (before and after): prefix history, last and best "
             "load the saved states, continuing gives the uninterrupted CSV and final state",
         required_classes=["interior_crash_with_delete", "history_file_created", "model_strided", "model_f64buf", "fmt_info"],
         timeout_s=6000)(_crash_check)

subcheck("C16", "crash_keep_everything", _keep_all_strategy, quick=36, thorough=800,
         doc="the same with keep_last_and_best_only=False: additionally every recorded epoch loads after the continued run",
         required_classes=["history_file_created", "model_strided", "model_f64buf", "fmt_info"], timeout_s=6000)(_crash_check)


@st.composite
def _noepoch_case(draw, tier):
    cfg = draw(c15_config(4 if tier == "quick" else 6, fmts=("noepoch",), keep=True, scales=("unit",)))
    n = len(cfg["val"])
    # strictly improving validation metric: otherwise the controller (by design) refuses to overwrite the best
    steps = draw(st.lists(st.sampled_from([0.25, 0.5, 1.0]), min_size=n, max_size=n))
    v, vals = 8.0, []
    for s in steps:
        v -= s
        vals.append(v)
    cfg["val"] = vals
    return cfg


def _noepoch_strategy(tier):
    return _noepoch_case(tier)


subcheck("C16", "crash_no_epoch_field", _noepoch_strategy, quick=25, thorough=400,
         doc="formats without the epoch field (model.pt / optim.pt), keep_last_and_best_only, strictly improving metric: "
             "every crash point as above (every history meets known finding KF-C16-1; the matcher accepts a history only "
             "if ALL its failing crash points have that shape, so the other points are still judged)",
         timeout_s=6000)(_crash_check)


def _enum_small(tier):
    max_len = 3 if tier == "quick" else 4
    out = []
    for keep in (True, False):
        for n in range(1, max_len + 1):
            for vals in itertools.product([1.0, 2.0, 3.0], repeat=n):
                out.append({
                    "num_epochs": None, "es_thr": 0.0, "es_pat": 1, "es_burn": 0, "rlr_thr": 1.0, "rlr_pat": 2, "rlr_burn": 0,
                    "rlr_cool": 0, "factor": 0.5, "eps": -8, "lr_mode": "opt", "lr_exp": 4, "groups": 1, "keep": keep,
                    "fmt": "default", "val": list(vals), "train": [1.0] * n})
    return out


subcheck("C16", "crash_enum_small", _enum_small, 0, 0, exhaustive=True,
         doc="EVERY validation-metric pattern of length <= 3|4 over {1,2,3} (all best/last/tie structures) x both keep modes, "
             "default formats, and for each EVERY crash point",
         required_classes=["interior_crash_with_delete"], timeout_s=6000)(_crash_check)


# ---------------------------------------------------------------- crashes late in a long history

_LATE_SMALL = (8, 9, 10, 14, 15, 16, 30, 31, 32, 62, 63, 64, 98, 99, 100, 126, 127, 128, 254, 255, 256)
_LATE_LARGE = (998, 999, 1000, 1022, 1023, 1024)


def _long_params(draw, n):
    """Parameters of a long history that runs to its end (no early stopping, no epoch budget); rates stay printable."""
    eps = draw(st.sampled_from([-8, -1, 0]))
    rlr_pat = draw(st.sampled_from([1, 2, 3, 10, 17]))
    rlr_cool = draw(st.sampled_from([0, 1, 2, 11]))
    if eps == -8:
        lr_exp = 16
        need = -(-n // 22)
        if rlr_pat + rlr_cool < need:
            rlr_cool = need - rlr_pat
    else:
        lr_exp = draw(st.integers(1, 16))
    q = draw(st.sampled_from([0.25, 1.0]))
    hi = 3999 if q == 0.25 else 99999
    lens = sorted({1, 2, 3, 20, 50, 120, max(1, rlr_pat - 1), rlr_pat, rlr_pat + 1})
    segs = draw(st.lists(st.tuples(st.integers(0, 5), st.sampled_from(lens), st.integers(0, 9)), min_size=1, max_size=6))
    return {
        "q": q, "start": draw(st.one_of(st.integers(0, hi), st.integers(0, 64), st.integers(hi - 64, hi))),
        "segs": [list(x) for x in segs],
        "num_epochs": None, "es_thr": 0.0, "es_pat": 1, "es_burn": 0,
        "rlr_thr": draw(st.sampled_from([0, 1, 2, 8])) * q, "rlr_pat": rlr_pat, "rlr_burn": draw(st.integers(0, 2)),
        "rlr_cool": rlr_cool, "factor": 0.5, "eps": eps, "lr_mode": "opt", "lr_exp": lr_exp,
        "groups": draw(st.sampled_from([1, 2])), "model": draw(st.sampled_from(["plain", "strided", "f64buf"])),
        "fmt": draw(st.sampled_from(["default", "default", "custom", "subdir"])),
    }


def _mix(cfg, salt):
    return salt + cfg["start"] + cfg["rlr_pat"] * 17 + cfg["rlr_cool"] * 19 + sum(31 * a + 7 * b + c for a, b, c in cfg["segs"])


def _expand_with_tail(cfg):
    """History of cfg["n"] epochs (trainctl.expand_history); the last len(cfg["tail"]) validation metrics are then
    overridden: 1 = a new best (one tick below everything so far), 2 = equal to the best so far, 3 = worse than
    everything so far, 0 = as expanded. Pure function of the case."""
    val, train = T.expand_history(cfg)
    q = cfg["q"]
    hi = (3999 if q == 0.25 else 99999) * q
    n = cfg["n"]
    for k, mode in enumerate(cfg.get("tail", [])):
        i = n - len(cfg["tail"]) + k
        if i <= 0 or mode == 0:
            continue
        lo_v, hi_v = min(val[:i]), max(val[:i])
        if mode == 1:
            val[i] = max(0.0, lo_v - q)
        elif mode == 2:
            val[i] = lo_v
        else:
            val[i] = min(hi, hi_v + q)
    return val, train


@st.composite
def _late_case(draw, tier):
    large = _LATE_LARGE if tier == "quick" else _LATE_LARGE + (2046, 2047, 2048)
    cfg = _long_params(draw, 2100)
    # keep mode and prefix length are functions of everything drawn so far (see c15 long_history: Hypothesis re-uses
    # prefixes of earlier examples, which in a small budget would repeat one choice many times)
    mix = _mix(cfg, draw(st.integers(0, 10 ** 6)))
    cfg["keep"] = mix % 3 != 0
    is_large = (mix // 3) % 2 == 0
    pool = large if (is_large and cfg["keep"]) else _LATE_SMALL
    if not cfg["keep"] and tier == "quick":
        pool = tuple(x for x in _LATE_SMALL if x <= 128)
    prefix = pool[(mix // 9) % len(pool)]
    cfg["n"] = prefix + 2
    cfg["tail"] = [draw(st.integers(0, 3)), draw(st.integers(0, 3))]
    return cfg


@subcheck("C16", "crash_late_epoch", lambda tier: _late_case(tier), quick=12, thorough=400,
          doc="a crash-free prefix of 8..256 or 998..1024 (thorough: ..2048) epochs - the sizes around 10, 16, 32, 64, 100, "
              "128, 256, 1000, 1024, where epoch numbers gain a digit - expanded deterministically from <= 6 generated "
              "segments, then EVERY mutating call of the next two updates is a crash point (before each call and after the last "
              "one: every intermediate state of the files once). The prefix is "
              "run once; each crash point starts from a copy of the files as they were before the update (a script restarted "
              "on them loads the last state, which is checked). Same oracle as the other crash sub-checks; when everything "
              "is kept only a sample of epochs is loaded after the continued run (1, 2, the middle, the best, the last three)",
          required_classes=["prefix_ge_998", "prefix_le_16", "interior_crash_with_delete"], timeout_s=6000)
def _late_check(case):
    cfg = dict(case)
    cfg["val"], cfg["train"] = _expand_with_tail(case)
    _domain(cfg)
    n = cfg["n"]
    prefix = n - 2
    failures = []
    points = interior_with_delete = strays = 0
    with T.scratch() as root, T.quiet():
        u = os.path.join(root, "u")
        os.mkdir(u)
        templates = {}
        all_states = {}
        base = []
        with T.in_dir(u):
            s = T.Session(cfg, ".")
            s.start()
            inj = T.FaultInjector()
            for i in range(n):
                e = i + 1
                n0 = len(inj.events)
                if e > prefix:
                    with inj.installed():
                        cont = s.epoch(cfg["train"][i], cfg["val"][i])
                else:
                    cont = s.epoch(cfg["train"][i], cfg["val"][i])
                require(cont, "harness: a history built to run to its end stopped", e, n)
                all_states[e] = T.snapshot(s.model, s.opt)
                late = e >= prefix
                base.append({"events": inj.events[n0:], "cont": cont, "csv": s.csv_bytes() if late else None,
                             "snap": all_states[e], "files": s.files() if late else None,
                             "info": T.canon_info(s.ctl.get_info(e))})
                if late:
                    vals = cfg["val"][:e]
                    if cfg["keep"]:
                        exp = _expected_files(cfg, vals)
                        require(base[-1]["files"] == exp, "state directory after the completed update of epoch %d" % e,
                                base[-1]["files"], exp)
                    if e < n:
                        templates[e] = os.path.join(root, "t%d" % e)
                        shutil.copytree(".", templates[e])
            del s

        def prepare(cfg_, root_, e):
            shutil.copytree(templates[e - 1], root_, dirs_exist_ok=True)
            s2 = T.Session(cfg_, root_)
            s2.start(scramble=3)
            snap = T.snapshot(s2.model, s2.opt)
            require(snap == all_states[e - 1], "state loaded by a script restarted on the files of epoch %d" % (e - 1), snap,
                    all_states[e - 1])
            return s2, {j: all_states[j] for j in range(1, e)}

        idx = 0
        for e in range(prefix + 1, n + 1):
            ev = base[e - 1]["events"]
            K = len(ev)
            deletes = any(x[0] == "remove" for x in ev)
            for k in range(K):
                # the files after call k are the files before call k+1 (a crash is an exception at a call boundary),
                # so "before every call" and "after the last one" visit every state once
                for when in (("before", "after") if k == K - 1 else ("before",)):
                    idx += 1
                    d = os.path.join(root, "c%d" % idx)
                    os.mkdir(d)
                    with T.in_dir(d):
                        f, stray = _crash_point(cfg, ".", base, e, k, when, prepare=prepare, sample=True)
                    points += 1
                    strays += stray
                    inside = (k > 0 or when == "after") and (k < K - 1 or when == "before")
                    if inside and deletes:
                        interior_with_delete += 1
                    if f is not None:
                        failures.append(f)
                    shutil.rmtree(d, ignore_errors=True)
    stats = {"points": points, "interior_with_delete": interior_with_delete, "epochs": n, "base": base[prefix:], "strays": strays}
    # _verdict indexes base by epoch for its message: give it the full list
    stats["base"] = base
    info = _verdict(cfg, failures, stats)
    info.classes = [c for c in info.classes if c not in ("history_file_created", "stopped_early")]
    info.classes.append("prefix_ge_998" if prefix >= 998 else "prefix_le_16" if prefix <= 16 else "prefix_30_to_256")
    for t in (10, 100, 1000):
        if prefix + 1 <= t <= n:
            info.classes.append("epoch_number_gains_a_digit")
    return info


# ---------------------------------------------------------------- long crash-free runs: directory clause


def _dir_sample(e, n):
    return e <= 20 or e % 64 in (0, 1) or e >= n - 2 or any(abs(e - t) <= 1 for t in (32, 100, 128, 256, 1000, 1024, 2048))


@st.composite
def _dir_long_case(draw, tier):
    cfg = _long_params(draw, 2100)
    mix = _mix(cfg, draw(st.integers(0, 10 ** 6)))
    cfg["keep"] = mix % 3 != 0
    sizes = T.SIZES[:-1] if tier == "quick" else T.SIZES
    if not cfg["keep"]:
        sizes = tuple(x for x in sizes if x <= (257 if tier == "quick" else 1025))
    elif (mix // 3) % 2 == 0:
        # every second keep-mode case is one of the long ones (a budget of 16 cases must reach them)
        sizes = tuple(x for x in sizes if x > 1000)
    cfg["n"] = sizes[(mix // 6) % len(sizes)]
    return cfg


@subcheck("C16", "crashfree_directory_long", lambda tier: _dir_long_case(tier), quick=16, thorough=400,
          doc="crash-free runs of 15..1025 (thorough 2049) epochs expanded deterministically from <= 6 generated segments; "
              "keep mode: after EVERY completed update the state directory holds exactly the files of the last and the best "
              "epoch, and at sampled epochs (<= 20, every 64th and its successor, around 32/100/128/256/1000/1024, the last "
              "three) a new controller loads the states saved for them; keep everything (<= 257 | 1025 epochs): at the "
              "sampled epochs all files are present and a sample of epochs loads",
          required_classes=["epochs_ge_1023", "keep_last_and_best", "keep_everything"], timeout_s=6000)
def _dir_long_check(case):
    cfg = dict(case)
    cfg["val"], cfg["train"] = T.expand_history(case)
    _domain(cfg)
    n = cfg["n"]
    classes = ["fmt_" + cfg["fmt"], "keep_last_and_best" if cfg["keep"] else "keep_everything", "model_" + cfg["model"]]
    deletes = 0
    with T.scratch() as root, T.quiet():
        s = T.Session(cfg, root)
        s.start()
        states = {}
        best, best_val = 0, T.INF
        for i in range(n):
            e = i + 1
            cont = s.epoch(cfg["train"][i], cfg["val"][i])
            require(cont, "harness: a history built to run to its end stopped", e, n)
            if cfg["val"][i] < best_val:
                best, best_val = e, cfg["val"][i]
            snap = T.snapshot(s.model, s.opt)
            if cfg["keep"]:
                states = {j: v for j, v in states.items() if j == best}
            states[e] = snap
            sampled = _dir_sample(e, n)
            if cfg["keep"]:
                files = s.files()
                exp = sorted(set(T.ckpt_names(cfg, e)) | set(T.ckpt_names(cfg, best)))
                require(files == exp, "state directory after the completed update of epoch %d (keep_last_and_best_only)" % e,
                        files, exp)
                deletes += e > 1
                to_load = sorted({e, best}) if sampled else []
            elif sampled:
                files = set(s.files())
                to_load = _sample_epochs(e, best)
                missing = [j for j in range(1, e + 1) if not set(T.ckpt_names(cfg, j)) <= files]
                require(not missing, "checkpoint files missing after epoch %d (everything is kept)" % e, missing[:10], [])
            else:
                to_load = []
            if to_load:
                ctl = T.make_controller(cfg, s.csv, s.sdir)
                require(ctl.get_best_epoch() == best, "best epoch of a controller built after epoch %d" % e, ctl.get_best_epoch(), best)
                for j in to_load:
                    got = _load_epoch(ctl, cfg, j, 40 + j % 64)
                    require(got == states[j], "state loaded for epoch %d after the completed update of epoch %d" % (j, e), got,
                            states[j])
    classes += ["epochs_ge_%d" % t for t in (16, 128, 1023) if n >= t]
    if best != n:
        classes.append("best_differs_from_last")
    return Info(nontrivial=cfg["keep"] and deletes > 0 and best != n, classes=classes)


# ---------------------------------------------------------------- two crashes in a row (fault sequences)


@st.composite
def _double_case(draw, tier):
    cfg = draw(c15_config(4 if tier == "quick" else 6, fmts=EPOCH_FMTS, keep=None))
    cfg["crash1"] = [draw(st.integers(0, 5)), draw(st.integers(0, 15)), draw(st.sampled_from(["before", "after"]))]
    # the second crash: the k-th mutating call of the *continued* run (small k: inside the repeated update)
    cfg["crash2"] = [draw(st.one_of(st.integers(0, 13), st.integers(0, 40))), draw(st.sampled_from(["before", "after"]))]
    return cfg


def _double_strategy(tier):
    return _double_case(tier)


@subcheck("C16", "crash_twice", _double_strategy, quick=400, thorough=8000,
          doc="fault sequences: generated history, a generated crash point, recovery, then a second generated crash point in "
              "the continued run (often inside the repeated update, which now meets the files the first crash left); "
              "after the second crash the same oracle as for a single crash",
          required_classes=["second_crash_in_repeated_update", "second_crash_later"], timeout_s=6000)
def _double_check(case):
    cfg = case
    _domain(cfg)
    classes = ["keep_last_and_best" if cfg["keep"] else "keep_everything", "model_" + cfg.get("model", "plain")]
    with T.scratch() as root, T.quiet():
        u, d = os.path.join(root, "u"), os.path.join(root, "d")
        os.mkdir(u)
        os.mkdir(d)
        with T.in_dir(u):
            base = _uninterrupted(cfg, ".", check_dir=False)
        e1 = cfg["crash1"][0] % len(base) + 1
        K = len(base[e1 - 1]["events"])
        k1, when1 = cfg["crash1"][1] % K, cfg["crash1"][2]
        with T.in_dir(d):
            s, states = _replay_until(cfg, ".", e1)
            inj = T.FaultInjector(k1, when1)
            try:
                with inj.installed():
                    s.epoch(cfg["train"][e1 - 1], cfg["val"][e1 - 1])
            except T.Crash:
                pass
            else:
                raise RuntimeError("harness: first crash point not reached")
            done1 = ["%s:%s" % tuple(x) for x in inj.events[: k1 + (1 if when1 == "after" else 0)]]
            crash_state = T.snapshot(s.model, s.opt)
            del s
            # recovery as a training script does it, then continue under a second injector
            s = T.Session(cfg, ".")
            s.salt = 1
            s.start(scramble=5)
            L = s.ctl.get_last_epoch()
            require(L in (e1 - 1, e1), "recovered history ends at an unexpected epoch", L, [e1 - 1, e1])
            if L == e1:
                states[e1] = crash_state
            first_redo = L + 1
            inj2 = T.FaultInjector(cfg["crash2"][0], cfg["crash2"][1])
            e2 = None
            n_total = len(cfg["val"])
            try:
                with inj2.installed():
                    while L < n_total and s.ctl.continue_training():
                        e2 = L + 1
                        s.epoch(cfg["train"][L], cfg["val"][L])
                        L += 1
                        states[L] = T.snapshot(s.model, s.opt)
                    e2 = None
            except T.Crash:
                states[e2] = T.snapshot(s.model, s.opt)
            del s
            if e2 is None:
                classes.append("second_crash_not_reached")
                e_chk = len(base)
            else:
                classes.append("second_crash_in_repeated_update" if e2 == first_redo and e2 == e1 else "second_crash_later")
                e_chk = e2
            done2 = ["%s:%s" % tuple(x) for x in inj2.events[: (inj2.crash_at or 0) + (1 if inj2.when == "after" else 0)]]
            if e2 is None:
                # nothing died the second time: the run is complete
                ctl = T.make_controller(cfg, "./hist.csv", "./states")
                require(ctl.get_last_epoch() == len(base), "continued run ends at another epoch", ctl.get_last_epoch(), len(base))
                e_chk = len(base)
            try:
                _recover_and_verify(cfg, ".", base, e_chk, states, salt=2)
            except _Fail as f:
                raise Violation(
                    "crash %s event %d of update %d (%s), recovery, then crash in update %s after %s -> %s: %s" % (
                        when1, k1, e1, done1[-1:] or "nothing done", e2, done2[-3:] or "nothing", f.rec["stage"], f.rec["what"]),
                    observed={"first": f.rec["observed"], "stage": f.rec["stage"], "crash1": {"epoch": e1, "done": done1},
                              "crash2": {"epoch": e2, "done": done2}, "exc": f.rec.get("exc"),
                              "recorded_last": f.rec.get("recorded_last")},
                    expected=f.rec["expected"])
    return Info(nontrivial=e2 is not None, classes=classes)


# ---------------------------------------------------------------- crash-free directory contents


@st.composite
def _dir_case(draw, tier):
    cfg = draw(c15_config(8 if tier == "quick" else 12, fmts=("default", "custom", "subdir", "noepoch", "noepoch", "info")
                          + (("info_spec",) if ENABLE_INFO_SPEC_FMT else ()), keep=None))
    cfg["improving"] = draw(st.booleans())
    if cfg["fmt"] == "noepoch" and cfg["keep"] and cfg["improving"]:
        n = len(cfg["val"])
        cfg["val"] = [8.0 - 0.25 * (i + 1) for i in range(n)]
    return cfg


def _dir_strategy(tier):
    return _dir_case(tier)


@subcheck("C16", "crashfree_directory", _dir_strategy, quick=300, thorough=4000,
          doc="crash-free runs (<= 8|12 epochs, all formats, both keep modes): after every completed update the state "
              "directory holds exactly the files of the last and the best epoch (keep mode) / every recorded epoch loads; "
              "each kept file holds the state saved for its epoch; without the epoch field a non-improving epoch is refused "
              "(ValueError) and nothing on disk changes",
          required_classes=["keep_last_and_best", "keep_everything", "refused_overwrite", "best_differs_from_last"])
def _dir_check(case):
    cfg = case
    _domain(cfg)
    classes = ["fmt_" + cfg["fmt"], "keep_last_and_best" if cfg["keep"] else "keep_everything",
               "model_" + cfg.get("model", "plain")]
    noepoch = not T.FMTS[cfg["fmt"]][2]
    vals = cfg["val"]
    with T.scratch() as root, T.quiet():
        if noepoch and cfg["keep"]:
            # run the improving prefix, then expect the documented refusal
            k = 1
            while k < len(vals) and vals[k] < min(vals[:k]):
                k += 1
            head = dict(cfg, val=vals[:k], train=cfg["train"][:k])
            base = _uninterrupted(head, root)
            if len(base) == k and k < len(vals) and base[-1]["cont"]:
                s = T.Session(cfg, root)
                s.start()
                before = (s.csv_bytes(), s.files(), _load_epoch(s.ctl, cfg, k, 3))
                T.train_step(s.model, s.opt, k + 1, cfg["train"][k], vals[k])
                with expect_raises(ValueError, what="non-improving epoch with a format that lacks the epoch field"):
                    s.ctl.update_for_epoch(s.model, s.opt, cfg["train"][k], vals[k])
                ctl = T.make_controller(cfg, s.csv, s.sdir)
                after = (s.csv_bytes(), s.files(), _load_epoch(ctl, cfg, k, 4))
                require(after == before, "refused update changed the files", after, before)
                classes.append("refused_overwrite")
            n_done = len(base)
        else:
            base = _uninterrupted(cfg, root)
            n_done = len(base)
        if n_done and T.best_epoch(vals[:n_done]) != n_done:
            classes.append("best_differs_from_last")
        if any(any(x[0] == "remove" for x in r["events"]) for r in base):
            classes.append("update_deletes_old_checkpoint")
    return Info(nontrivial="update_deletes_old_checkpoint" in classes or "refused_overwrite" in classes, classes=classes)


# ---------------------------------------------------------------- known finding


@matcher("c16_noepoch_history_appended_before_checkpoint")
def _m_noepoch(case, v):
    """Formats without the epoch field: the row of epoch e is appended before the new checkpoint replaces the
    previous one in place, so a crash in between leaves a history whose last epoch loads the previous epoch's state
    (or, at epoch 1, nothing). Every failing crash point of the history must have exactly this shape."""
    if T.FMTS.get(case.get("fmt"), (0, 0, True))[2]:
        return False
    obs = v.get("observed")
    if not isinstance(obs, dict) or not obs.get("failures"):
        return False
    for f in obs["failures"]:
        e = f["epoch"]
        done = f["done"]
        if "writerow:row" not in done:
            return False
        if done.count("replace:model.pt") + done.count("replace:optim.pt") >= 2:
            return False
        if f["stage"] != "load_last" or f.get("recorded_last") != e:
            return False
        if f.get("exc") is not None:
            # nothing has been written under the fixed name yet
            if not (e == 1 and f["exc"] == "FileNotFoundError"):
                return False
        else:
            # the optimizer file is still the previous epoch's; the model file is the previous epoch's or,
            # when only the first rename happened, already the new one
            if (e - 1) not in (f.get("loaded_optim_epochs") or []):
                return False
            if not ({e - 1, e} & set(f.get("loaded_model_epochs") or [])):
                return False
    return True


# ---------------------------------------------------------------- near-ties at the printed precision (crash-free, with restarts)

_NT_BASE = [0.4, 0.25, 1.5, 3.0, 0.0123, 120.0]
_NT_DELTA = [0.0, 0.0, 4e-6, -4e-6, 1e-6, -1e-6, 3e-5, -3e-5]


@st.composite
def _near_tie_case(draw, tier):
    n = draw(st.integers(2, 6 if tier == "quick" else 9))
    pool = draw(st.lists(st.sampled_from(_NT_BASE), min_size=1, max_size=2, unique=True))
    return {
        "val": [[draw(st.sampled_from(pool)), draw(st.sampled_from(_NT_DELTA))] for _ in range(n)],
        "restart_after": draw(st.lists(st.booleans(), min_size=n, max_size=n)),
        "keep": draw(st.sampled_from([True, True, False])),
    }


@subcheck("C16", "near_tie_restart", lambda tier: _near_tie_case(tier), quick=200, thorough=3000,
          doc="crash-free runs whose validation metrics tie at the history file's 5 significant digits but differ as raw floats "
              "(documented: negligible differences are decided at METRIC_PRECISION); after every completed update the running "
              "controller AND a controller rebuilt from the files can load the last and the best epoch and get the parameters "
              "saved for them; keep mode: the directory holds exactly those epochs' files",
          required_classes=["tie_at_print_precision", "restarted"])
def _near_tie_check(case):
    import os
    import shutil
    import tempfile
    import warnings

    import torch
    from pydrobert.torch.training import TrainingStateController, TrainingStateParams

    vals = [b * (1.0 + d) for b, d in case["val"]]
    params = TrainingStateParams(keep_last_and_best_only=case["keep"], early_stopping_threshold=0.0, reduce_lr_threshold=0.0)
    root = tempfile.mkdtemp(prefix="vf_")
    classes = ["keep_last_and_best" if case["keep"] else "keep_everything"]
    fmt5 = ["%.5g" % v for v in vals]
    if len(set(fmt5)) < len(set(vals)):
        classes.append("tie_at_print_precision")

    def fresh():
        model = torch.nn.Linear(1, 1)
        opt = torch.optim.SGD(model.parameters(), lr=0.5)
        return model, opt

    def make():
        return TrainingStateController(params, os.path.join(root, "hist.csv"), os.path.join(root, "states"), warn=False)

    def verify(ctl, who, e_now):
        last = ctl.get_last_epoch()
        require(last == e_now, "%s: last recorded epoch" % who, last, e_now)
        best = ctl.get_best_epoch()
        require(1 <= best <= e_now, "%s: best epoch out of range" % who, best, [1, e_now])
        m, o = fresh()
        ctl.load_model_and_optimizer_for_epoch(m, o, last)
        require(float(m.weight) == float(last), "%s: parameters loaded for the last epoch %d" % (who, last), float(m.weight), float(last))
        m, o = fresh()
        ctl.load_model_for_epoch(m, best)
        require(float(m.weight) == float(best), "%s: parameters loaded for the best epoch %d" % (who, best), float(m.weight), float(best))
        m, o = fresh()
        ctl.load_model_and_optimizer_for_epoch(m, o, best)
        require(float(m.weight) == float(best), "%s: model+optimizer loaded for the best epoch %d" % (who, best), float(m.weight),
                float(best))
        if case["keep"]:
            have = sorted(os.listdir(os.path.join(root, "states")))
            want = sorted({os.path.basename(ctl.get_model_path_with_info(ctl.get_info(e))) for e in (last, best)}
                          | {os.path.basename(ctl.get_optimizer_path_with_info(ctl.get_info(e))) for e in (last, best)})
            require(have == want, "%s: state directory does not hold exactly the last and best epochs' files" % who, have, want)
        else:
            for e in range(1, e_now + 1):
                m, o = fresh()
                ctl.load_model_and_optimizer_for_epoch(m, o, e)
                require(float(m.weight) == float(e), "%s: recorded epoch %d does not load its own parameters" % (who, e), float(m.weight),
                        float(e))

    try:
        with warnings.catch_warnings():
            warnings.simplefilter("ignore")
            ctl = make()
            model, opt = fresh()
            ctl.load_model_and_optimizer_for_epoch(model, opt, 0)
            for i, v in enumerate(vals):
                e = i + 1
                with torch.no_grad():
                    model.weight.fill_(float(e))
                    model.bias.fill_(float(e))
                ctl.update_for_epoch(model, opt, v, v)
                verify(ctl, "running controller after epoch %d" % e, e)
                rebuilt = make()
                verify(rebuilt, "controller rebuilt from the files after epoch %d" % e, e)
                if case["restart_after"][i]:
                    classes.append("restarted")
                    ctl = rebuilt
                    model, opt = fresh()
                    ctl.load_model_and_optimizer_for_epoch(model, opt, e)
    finally:
        shutil.rmtree(root, ignore_errors=True)
    return Info(nontrivial="tie_at_print_precision" in classes, classes=sorted(set(classes)))


# ---------------------------------------------------------------- "best" judged by the training metric (best_is_train=True)


@st.composite
def _best_train_case(draw, tier):
    n = draw(st.integers(2, 7 if tier == "quick" else 10))
    pool = [0.25, 0.5, 0.75, 1.0, 1.5, 2.0]
    return {
        "train": [draw(st.sampled_from(pool)) for _ in range(n)],
        "val": [draw(st.sampled_from(pool)) for _ in range(n)],
        "best_is_train": draw(st.sampled_from([True, True, False])),
        "restart_after": draw(st.lists(st.booleans(), min_size=n, max_size=n)),
    }


@subcheck("C16", "best_by_training_metric", lambda tier: _best_train_case(tier), quick=200, thorough=3000,
          doc="crash-free runs with keep_last_and_best_only where the best epoch is judged by the TRAINING metric "
              "(update_for_epoch(..., best_is_train=True)), training and validation metrics drawn independently: after every "
              "completed update the state directory holds exactly the files of the last epoch and of the best epoch by that "
              "metric (earliest on ties), and both load the parameters saved for them - for the running controller and for one "
              "rebuilt from the files",
          required_classes=["best_is_train", "train_best_differs_from_val_best", "old_best_replaced"])
def _best_train_check(case):
    import os
    import shutil
    import tempfile
    import warnings

    import torch
    from pydrobert.torch.training import TrainingStateController, TrainingStateParams

    bit = case["best_is_train"]
    params = TrainingStateParams(keep_last_and_best_only=True, early_stopping_threshold=0.0, reduce_lr_threshold=0.0)
    root = tempfile.mkdtemp(prefix="vf_")
    classes = ["best_is_train" if bit else "best_is_val"]

    def fresh():
        model = torch.nn.Linear(1, 1)
        return model, torch.optim.SGD(model.parameters(), lr=0.5)

    def make():
        return TrainingStateController(params, os.path.join(root, "hist.csv"), os.path.join(root, "states"), warn=False)

    def best_of(metrics):
        b = 0
        for i, x in enumerate(metrics):
            if x < metrics[b]:
                b = i
        return b + 1

    try:
        with warnings.catch_warnings():
            warnings.simplefilter("ignore")
            ctl = make()
            model, opt = fresh()
            ctl.load_model_and_optimizer_for_epoch(model, opt, 0)
            prev_best = None
            for i in range(len(case["train"])):
                e = i + 1
                with torch.no_grad():
                    model.weight.fill_(float(e))
                    model.bias.fill_(float(e))
                ctl.update_for_epoch(model, opt, case["train"][i], case["val"][i], best_is_train=bit)
                want_best = best_of((case["train"] if bit else case["val"])[:e])
                if best_of(case["train"][:e]) != best_of(case["val"][:e]):
                    classes.append("train_best_differs_from_val_best")
                if prev_best is not None and want_best != prev_best:
                    classes.append("old_best_replaced")
                prev_best = want_best
                for who, c in (("running controller", ctl), ("controller rebuilt from the files", make())):
                    got_best = c.get_best_epoch(train_met=bit)
                    require(got_best == want_best, "%s after epoch %d: best epoch by the %s metric" % (who, e, "training" if bit else "validation"),
                            got_best, want_best)
                    have = sorted(os.listdir(os.path.join(root, "states")))
                    want = sorted({os.path.basename(c.get_model_path_with_info(c.get_info(x))) for x in (e, want_best)}
                                  | {os.path.basename(c.get_optimizer_path_with_info(c.get_info(x))) for x in (e, want_best)})
                    require(have == want, "%s after epoch %d: state directory does not hold exactly the last and best epochs' files" % (who, e),
                            have, want)
                    for x in (e, want_best):
                        m2, o2 = fresh()
                        c.load_model_and_optimizer_for_epoch(m2, o2, x)
                        require(float(m2.weight) == float(x), "%s: parameters loaded for epoch %d" % (who, x), float(m2.weight), float(x))
                if case["restart_after"][i]:
                    ctl = make()
                    model, opt = fresh()
                    ctl.load_model_and_optimizer_for_epoch(model, opt, e)
    finally:
        shutil.rmtree(root, ignore_errors=True)
    return Info(nontrivial="old_best_replaced" in classes, classes=sorted(set(classes)))
