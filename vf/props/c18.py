"""C18 Normalisation statistics, deltas and returns equal their defining formulas."""
from __future__ import annotations

import math
import os
import shutil
import tempfile
from fractions import Fraction

from hypothesis import strategies as st

from ..core import Info, expect_raises, require, subcheck
from ..oracles import c18_ref as R

Q = 16  # feature values are integers / 16
TINY = 1.1754943508222875e-38  # pydrobert.torch.config.TINY (documented default of eps)


def _prod(shape):
    n = 1
    for s in shape:
        n *= s
    return n


def _np_int(shape, vals):
    import numpy as np

    return np.array(list(vals), dtype=np.int64).reshape(shape)


def _tensor(arr_int, dtype):
    import torch

    return (torch.tensor(arr_int.tolist(), dtype=torch.float64) / Q).to(getattr(torch, dtype)).reshape(arr_int.shape)


# ====================================================================== MVN: tolerances
#
# Inputs are exact (integers / 16, small), so the only errors are the roundings of the
# computation itself.  With s = max(std, eps) the documented result is y = (x - mean) / s.
#  * float32 route: mean and std are cast to float32 (relative 2^-24 each), the subtraction and
#    the division round once each, and a standard deviation computed from float32-shifted data
#    of n frames carries at most 2^-24 sqrt(n) relative error:   |dy| <= c32 (|y| + |mean| / s)
#  * float64 route: the same with 2^-53, plus the cancellation of E[x^2] - mean^2 in the
#    accumulated statistics: |d var| <= 8 * 2^-53 * E[x^2]
C32 = 2.0 ** -19
C64 = 2.0 ** -44


def _std_tolerance(std_exact, ex2):
    """Allowed |std_obs - std_exact| for the double precision accumulate/store route."""
    if std_exact == 0.0:
        # sums of dyadic data are exact, so the variance of a constant coefficient is exactly 0;
        # allow what a differently rounded but sound implementation could produce
        return 2e-8 * max(1.0, math.sqrt(ex2))
    dvar = 8 * 2.0 ** -53 * ex2
    return 1e-12 * std_exact + dvar / std_exact


def _check_normalised(what, ys, xs_int, dim, mean, s_eff, relstd, dtype, denom_kind, n_pool, spread,
                      pooled_mean=True):
    """ys / xs_int: lists of ndarrays (observed float64 copies / integer numerators); mean: list of
    Fractions; s_eff: list of floats (max(std, eps)); relstd: list of extra relative uncertainty of
    s_eff; spread: per-coefficient bool (std > 0 and std >= eps, i.e. unit variance is promised).
    Checks the element formula and then zero mean / unit variance over the pooled data."""
    import numpy as np

    c = C32 if dtype == "float32" else C64
    X = len(mean)
    sum_y = [0.0] * X
    sum_y2 = [0.0] * X
    max_tol = [0.0] * X
    n = 0
    overflow = False
    for y, xi in zip(ys, xs_int):
        require(list(y.shape) == list(xi.shape), what + ": output shape", list(y.shape), list(xi.shape))
        ym = np.moveaxis(y, dim, -1).reshape(-1, X)
        xm = np.moveaxis(xi, dim, -1).reshape(-1, X)
        n += ym.shape[0]
        for i in range(X):
            m = float(mean[i])
            for f in range(ym.shape[0]):
                exp = float(Fraction(int(xm[f, i]), Q) - mean[i]) / s_eff[i]
                if abs(exp) > 1e30 or abs(m) / s_eff[i] > 1e30:
                    # (x - mean) / eps with a tiny eps: the documented quotient is not representable
                    overflow = True
                    continue
                tol = (c + relstd[i]) * (abs(exp) + abs(m) / s_eff[i]) + 1e-30
                obs = float(ym[f, i])
                if not math.isfinite(obs) or abs(obs - exp) > tol:
                    require(False, "%s: y != (x - mean) / max(std, eps) at frame %d coefficient %d" % (what, f, i),
                            obs, exp)
                sum_y[i] += obs
                sum_y2[i] += obs * obs
                max_tol[i] = max(max_tol[i], tol)
    for i in range(X):
        my = sum_y[i] / n
        if not pooled_mean or overflow:
            continue  # the mean was supplied by the caller: nothing is promised about the pooled output
        require(abs(my) <= max_tol[i] + 1e-12, "%s: pooled mean of normalised coefficient %d is not 0" % (what, i), my, 0.0)
        if spread[i]:
            nd = n - 1 if denom_kind == "bessel" else n
            var = (sum_y2[i] - n * my * my) / nd
            e = max_tol[i] * math.sqrt(n / nd)
            require(abs(var - 1.0) <= 2 * e + e * e + 1e-9,
                    "%s: pooled variance of normalised coefficient %d is not 1" % (what, i), var, 1.0)


# ====================================================================== MVN: accumulate / store / normalise histories


@st.composite
def _mvn_history(draw, tier):
    big = tier == "thorough"
    rank = draw(st.sampled_from([2, 3, 2, 4]))
    dim = draw(st.integers(-rank, rank - 1))
    X = draw(st.sampled_from([2, 1, 3, 4]))
    nparts = draw(st.sampled_from([3, 1, 2, 4, 5] + ([6, 8] if big else [])))
    parts = []
    for _ in range(nparts):
        shape = [draw(st.sampled_from([2, 1, 3] + ([5] if big else []))) for _ in range(rank)]
        shape[dim] = X
        vals = draw(st.lists(st.integers(-16 * Q, 16 * Q), min_size=_prod(shape), max_size=_prod(shape)))
        parts.append({"shape": shape, "vals": vals})
    const = draw(st.lists(st.tuples(st.integers(0, X - 1), st.integers(-16 * Q, 16 * Q)), max_size=2,
                          unique_by=lambda t: t[0]))
    order = draw(st.permutations(list(range(nparts))))
    op = st.one_of(
        st.tuples(st.just("acc"), st.integers(0, nparts - 1)),
        st.tuples(st.just("acc"), st.integers(0, nparts - 1)),
        st.tuples(st.just("store"), st.booleans(), st.booleans()),
        st.tuples(st.just("norm")),
    )
    prefix = draw(st.lists(op, max_size=4))
    extra = draw(st.lists(op, max_size=3))
    tail_bessel = draw(st.booleans())
    ops = [list(o) for o in prefix] + [["acc", i] for i in order] + [list(o) for o in extra]
    ops += [["store", tail_bessel, draw(st.booleans())], ["norm"]]
    return {
        "rank": rank, "dim": dim, "X": X, "parts": parts, "const": [list(c) for c in const], "ops": ops,
        "dtype": draw(st.sampled_from(["float32", "float32", "float64"])),
        "eps": draw(st.sampled_from([None, None, None, 0.25, 4.0])),
    }


def _parts_int(case):
    out = []
    X, dim = case["X"], case["dim"]
    import numpy as np

    for p in case["parts"]:
        a = _np_int(p["shape"], p["vals"])
        for i, k in case.get("const", []):
            idx = [slice(None)] * a.ndim
            idx[dim] = i
            a[tuple(idx)] = k
        out.append(a)
    return out


@subcheck("C18", "mvn_history", _mvn_history, 700, 20000,
          doc="histories of accumulate(part) / store(bessel, delete_stats) / normalise over parts of rank 2..4 with the "
              "normalised dimension anywhere: stored mean/std == exact pooled statistics (fractions), normalised "
              "pooled data has mean 0 / variance 1, too-few-frames errors as documented",
          required_classes=["unsorted_3_parts", "bessel", "constant_coefficient", "kept_stats_then_more",
                            "store_too_few", "single_frame_biased"])
def _mvn_history_check(case):
    import numpy as np
    import torch
    from pydrobert.torch.modules import MeanVarianceNormalization

    X, dim, dtype = case["X"], case["dim"], case["dtype"]
    parts = _parts_int(case)
    tensors = [_tensor(a, dtype) for a in parts]
    eps = case["eps"]
    mvn = MeanVarianceNormalization(dim) if eps is None else MeanVarianceNormalization(dim, eps=eps)
    eps_v = TINY if eps is None else eps

    pool = R.Pool(X, Q)
    pool_parts = []           # indices accumulated since the last reset
    stored = None             # dict(mean, std_exact, std_tol, ex2, parts, bessel)
    classes = set()
    nontrivial = False

    for op in case["ops"]:
        if op[0] == "acc":
            i = op[1] % len(parts)
            mvn.accumulate(tensors[i])
            pool.add_frames(R.frames_of(parts[i], dim))
            pool_parts.append(i)
        elif op[0] == "store":
            bessel, delete = bool(op[1]), bool(op[2])
            need = 2 if bessel else 1
            if pool.n < need:
                classes.add("store_too_few")
                with expect_raises(RuntimeError, what="store(bessel=%s) with %d accumulated frame(s)" % (bessel, pool.n)):
                    mvn.store(delete, bessel)
                continue
            if pool.n == 1:
                classes.add("single_frame_biased")
            mvn.store(delete, bessel)
            mean = pool.mean()
            var = pool.var(bessel)
            ex2 = [float(v) for v in pool.meansq()]
            require(mvn.mean is not None and tuple(mvn.mean.shape) == (X,), "stored mean shape", None, X)
            require(tuple(mvn.std.shape) == (X,), "stored std shape", tuple(mvn.std.shape), X)
            std_exact, std_tol = [], []
            for j in range(X):
                mo, me = float(mvn.mean[j]), float(mean[j])
                require(abs(mo - me) <= 1e-12 * abs(me), "stored mean of coefficient %d != pooled mean" % j, mo, me)
                se = R.sqrt_fraction(var[j])
                tol = _std_tolerance(se, ex2[j])
                so = float(mvn.std[j])
                require(not math.isnan(so) and abs(so - se) <= tol,
                        "stored std of coefficient %d != pooled %s standard deviation" % (j, "Bessel" if bessel else "biased"),
                        so, se)
                std_exact.append(se)
                std_tol.append(tol)
            stored = {"mean": mean, "std": std_exact, "tol": std_tol, "parts": list(pool_parts), "bessel": bessel,
                      "obs_std": [float(v) for v in mvn.std]}
            if bessel:
                classes.add("bessel")
            if any(s == 0.0 for s in std_exact):
                classes.add("constant_coefficient")
            if len(pool_parts) >= 3 and pool_parts != sorted(pool_parts):
                classes.add("unsorted_3_parts")
                nontrivial = True
            if delete:
                pool = R.Pool(X, Q)
                pool_parts = []
            else:
                classes.add("kept_stats")
        else:  # normalise
            if stored is None:
                # nothing stored: the input's own (biased) statistics
                i = 0
                y = mvn(tensors[i])
                own = R.Pool(X, Q)
                own.add_frames(R.frames_of(parts[i], dim))
                _check_own(case, "normalise without stored statistics", y, parts[i], own, eps_v)
                classes.add("own_statistics")
                continue
            if "kept_stats" in classes and len(stored["parts"]) < len(pool_parts):
                pass
            ys, xs = [], []
            for i in stored["parts"]:
                y = mvn(tensors[i])
                require(y.dtype == tensors[i].dtype, "normalised dtype", str(y.dtype), str(tensors[i].dtype))
                ys.append(y.double().numpy())
                xs.append(parts[i])
            s_eff, relstd, spread = [], [], []
            for j in range(X):
                se = stored["std"][j]
                s = max(se, eps_v)
                s_eff.append(s)
                relstd.append(stored["tol"][j] / s if se >= eps_v else 0.0)
                spread.append(se > 0.0 and se >= eps_v)
            _check_normalised("normalise with stored statistics", ys, xs, dim % case["rank"], stored["mean"], s_eff,
                              relstd, dtype, "bessel" if stored["bessel"] else "biased",
                              sum(_prod(parts[i].shape) // X for i in stored["parts"]), spread)
            classes.add("normalised_pooled")
    # a store that kept its statistics and was followed by more accumulation and another store
    stores = [k for k, o in enumerate(case["ops"]) if o[0] == "store"]
    for a, b in zip(stores, stores[1:]):
        if not case["ops"][a][2] and any(o[0] == "acc" for o in case["ops"][a + 1:b]):
            classes.add("kept_stats_then_more")
    return Info(nontrivial=nontrivial, classes=sorted(classes))


def _check_own(case, what, y, part_int, own, eps_v, mean_override=None, std_override=None):
    """y == (x - m) / max(s, eps) with m, s the input's own biased statistics unless overridden."""
    import numpy as np

    X, dim, dtype = case["X"], case["dim"], case["dtype"]
    mean = own.mean() if mean_override is None else mean_override
    var = own.var(False)
    std = [R.sqrt_fraction(v) for v in var] if std_override is None else std_override
    n = own.n
    s_eff = [max(s, eps_v) for s in std]
    c_own = (2.0 ** -24 * (4 + math.sqrt(n))) if dtype == "float32" else 2.0 ** -48 * (4 + n)
    relstd = [c_own if std_override is None else 0.0 for _ in std]
    spread = [std_override is None and mean_override is None and s > 0.0 and s >= eps_v for s in std]
    # a coefficient whose spread is zero must come out as exactly 0 / eps = 0
    _check_normalised(what, [y.double().numpy()], [part_int], dim % case["rank"], mean, s_eff, relstd, dtype,
                      "biased", n, spread, pooled_mean=mean_override is None)


# ====================================================================== MVN: the formula with given / missing statistics


@st.composite
def _mvn_formula(draw, tier):
    rank = draw(st.sampled_from([2, 3, 1, 4]))
    dim = draw(st.integers(-rank, rank - 1))
    X = draw(st.sampled_from([2, 1, 3, 4]))
    shape = [draw(st.sampled_from([2, 1, 3, 4])) for _ in range(rank)]
    shape[dim] = X
    return {
        "rank": rank, "dim": dim, "X": X, "shape": shape,
        "vals": draw(st.lists(st.integers(-16 * Q, 16 * Q), min_size=_prod(shape), max_size=_prod(shape))),
        "const": [list(c) for c in draw(st.lists(st.tuples(st.integers(0, X - 1), st.integers(-16 * Q, 16 * Q)),
                                                 max_size=1))],
        "mode": draw(st.sampled_from(["own", "both", "mean_only", "std_only"])),
        "mean": draw(st.lists(st.integers(-16 * Q, 16 * Q), min_size=X, max_size=X)),
        "std": draw(st.lists(st.integers(1, 8 * Q), min_size=X, max_size=X)),
        "dtype": draw(st.sampled_from(["float32", "float64"])),
        "eps": draw(st.sampled_from([None, None, 0.25, 4.0])),
        "api": draw(st.sampled_from(["module", "functional"])),
    }


@subcheck("C18", "mvn_formula", _mvn_formula, 500, 10000,
          doc="one tensor of rank 1..4, statistics given / partly given / absent, module and functional: "
              "y == (x - mean) / max(std, eps) with missing statistics taken from the input itself (exact oracle)",
          required_classes=["own", "both", "mean_only", "std_only", "eps_dominates"])
def _mvn_formula_check(case):
    import torch
    from pydrobert.torch.functional import mean_var_norm
    from pydrobert.torch.modules import MeanVarianceNormalization

    X, dim, dtype, mode = case["X"], case["dim"], case["dtype"], case["mode"]
    c2 = dict(case, parts=[{"shape": case["shape"], "vals": case["vals"]}])
    xi = _parts_int(c2)[0]
    x = _tensor(xi, dtype)
    eps = case["eps"]
    eps_v = TINY if eps is None else eps
    mean_t = std_t = None
    mean_o = std_o = None
    if mode in ("both", "mean_only"):
        mean_t = torch.tensor(case["mean"], dtype=torch.float64) / Q
        mean_o = [Fraction(k, Q) for k in case["mean"]]
    if mode in ("both", "std_only"):
        std_t = torch.tensor(case["std"], dtype=torch.float64) / Q
        std_o = [k / Q for k in case["std"]]
    if case["api"] == "module":
        kw = {} if eps is None else {"eps": eps}
        y = MeanVarianceNormalization(dim, mean_t, std_t, **kw)(x)
    else:
        y = mean_var_norm(x, dim, mean_t, std_t) if eps is None else mean_var_norm(x, dim, mean_t, std_t, eps)
    require(y.dtype == x.dtype and y.shape == x.shape, "output dtype/shape", (str(y.dtype), list(y.shape)),
            (str(x.dtype), list(x.shape)))
    own = R.Pool(X, Q)
    own.add_frames(R.frames_of(xi, dim))
    _check_own(case, "mean_var_norm[%s]" % mode, y, xi, own, eps_v, mean_o, std_o)
    classes = [mode, dtype, case["api"]]
    stds = std_o if std_o is not None else [R.sqrt_fraction(v) for v in own.var(False)]
    if any(0 < s < eps_v for s in stds):
        classes.append("eps_dominates")
    if any(s == 0 for s in stds):
        classes.append("constant_coefficient")
    return Info(nontrivial=own.n >= 2 and X >= 1 and mode != "both", classes=classes)


# ====================================================================== deltas

PAD_MODES = ["replicate", "constant", "reflect", "circular"]


@st.composite
def _deltas(draw, tier):
    big = tier == "thorough"
    rank = draw(st.sampled_from([2, 3, 4, 1]))
    concatenate = draw(st.booleans())
    time_dim = draw(st.integers(-rank, rank - 1))
    drank = rank if concatenate else rank + 1
    dim = draw(st.integers(-drank, drank - 1))
    order = draw(st.sampled_from([2, 3, 1, 2, 0, 3]))
    width = draw(st.sampled_from([2, 1, 3]))
    mode = draw(st.sampled_from(PAD_MODES))
    P = order * width
    tmin = 1
    if mode == "reflect":
        tmin = P + 1
    elif mode == "circular":
        tmin = max(P, 1)
    T = draw(st.integers(tmin, max(tmin, 7 if not big else 12)))
    shape = [draw(st.sampled_from([2, 1, 3])) for _ in range(rank)]
    shape[time_dim] = T
    return {
        "shape": shape, "vals": draw(st.lists(st.integers(-16 * Q, 16 * Q), min_size=_prod(shape), max_size=_prod(shape))),
        "dim": dim, "time_dim": time_dim, "concatenate": concatenate, "order": order, "width": width,
        "pad_mode": mode, "value": draw(st.integers(-8 * Q, 8 * Q)) if mode == "constant" else 0,
        "dtype": draw(st.sampled_from(["float32", "float32", "float64"])),
        "api": draw(st.sampled_from(["module", "functional"])),
    }


@subcheck("C18", "deltas", _deltas, 900, 30000,
          doc="tensors of rank 1..4, every (dim, time_dim, concatenate), order 0..3, width 1..3, four padding modes: "
              "== regression formula applied `order` times to the explicitly padded input (float64 loops), "
              "stacked / concatenated at dim",
          required_classes=["order>=2_stack_dim!=time", "concat_on_time_dim", "reflect", "circular", "constant_value",
                            "negative_dims"])
def _deltas_check(case):
    import numpy as np
    import torch
    from pydrobert.torch.functional import feat_deltas
    from pydrobert.torch.modules import FeatureDeltas

    shape, dtype = list(case["shape"]), case["dtype"]
    xi = _np_int(shape, case["vals"])
    x = _tensor(xi, dtype)
    rank = len(shape)
    dim, time_dim, concatenate = case["dim"], case["time_dim"], case["concatenate"]
    order, width, mode = case["order"], case["width"], case["pad_mode"]
    value = case["value"] / Q
    if case["api"] == "module":
        # like every torch module, the layer's (filter) buffers have to be of the input's type
        out = FeatureDeltas(dim, time_dim, concatenate, order, width, mode, value).to(x.dtype)(x)
    else:
        out = feat_deltas(x, dim, time_dim, concatenate, order, width, mode, value)
    td = time_dim % rank
    drank = rank if concatenate else rank + 1
    dd = dim % drank
    D, A = R.deltas_nd(xi.astype(np.float64) / Q, td, order, width, mode, value)
    exp = R.layout(D, dd, concatenate)
    scale = R.layout(A, dd, concatenate)
    require(list(out.shape) == list(exp.shape), "shape of deltas", list(out.shape), list(exp.shape))
    require(out.dtype == x.dtype, "dtype of deltas", str(out.dtype), str(x.dtype))
    obs = out.double().numpy()
    # filter coefficients are float32 (w / sum w^2 is inexact for width >= 2) whatever the input type
    tol = 1e-5 * scale + 1e-12
    bad = np.argwhere(~(np.abs(obs - exp) <= tol))
    if len(bad):
        k = tuple(int(i) for i in bad[0])
        require(False, "delta value at %r differs from the regression formula" % (k,), float(obs[k]), float(exp[k]))
    classes = ["order_%d" % order, mode, "concat" if concatenate else "stack", dtype]
    if order >= 2 and not concatenate and dd != td:
        classes.append("order>=2_stack_dim!=time")
    if concatenate and dd == td:
        classes.append("concat_on_time_dim")
    if mode == "constant" and value != 0:
        classes.append("constant_value")
    if dim < 0 or time_dim < 0:
        classes.append("negative_dims")
    if order * width >= shape[td]:
        classes.append("pad_at_least_length")
    nontrivial = order >= 2 and not concatenate and dd != td and _prod(shape) > shape[td]
    return Info(nontrivial=nontrivial, classes=classes)


# ====================================================================== returns

GAMMAS = [0.5, 0.9, 0.1, 2.0 ** -10, 1.0, 1.5, 0.0, -0.5, 0.99]


@st.composite
def _returns(draw, tier):
    big = tier == "thorough"
    gamma = draw(st.sampled_from(GAMMAS))
    tmax = 64 if not big else 200
    if abs(gamma) > 1:
        tmax = 64
    T = draw(st.one_of(st.integers(1, 8), st.integers(1, tmax), st.integers(max(1, tmax - 20), tmax)))
    N = draw(st.sampled_from([1, 2, 3]))
    r = draw(st.lists(st.lists(st.integers(-64, 64), min_size=N, max_size=N), min_size=T, max_size=T))
    return {"gamma": gamma, "r": r, "batch_first": draw(st.booleans()),
            "dtype": draw(st.sampled_from(["float32", "float32", "float64"])),
            "api": draw(st.sampled_from(["module", "functional"]))}


@subcheck("C18", "returns", _returns, 700, 20000,
          doc="rewards (T<=64|200, N<=3, eighths), gamma in {0, 2^-10, .1, .5, .9, .99, 1, 1.5, -.5}, both layouts: "
              "== backward recursion R_t = r_t + gamma R_(t+1) in float64 (1e-4 of the absolute-value recursion), finite",
          required_classes=["gamma_pow_T_underflows_float32", "gamma_zero", "gamma_above_one", "batch_first"])
def _returns_check(case):
    import torch
    from pydrobert.torch.functional import time_distributed_return
    from pydrobert.torch.modules import TimeDistributedReturn

    gamma, dtype = float(case["gamma"]), case["dtype"]
    r8 = [list(row) for row in case["r"]]
    T, N = len(r8), len(r8[0])
    r = [[k / 8.0 for k in row] for row in r8]
    rt = torch.tensor(r, dtype=getattr(torch, dtype))  # (T, N)
    arg = rt.t().contiguous() if case["batch_first"] else rt
    if case["api"] == "module":
        out = TimeDistributedReturn(gamma, case["batch_first"])(arg)
    else:
        out = time_distributed_return(arg, gamma, case["batch_first"])
    require(out.shape == arg.shape and out.dtype == arg.dtype, "shape/dtype of returns",
            (list(out.shape), str(out.dtype)), (list(arg.shape), str(arg.dtype)))
    obs = (out.t() if case["batch_first"] else out).double().tolist()
    exp, scale = R.returns(r, gamma)
    for t in range(T):
        for n in range(N):
            o, e = obs[t][n], exp[t][n]
            require(math.isfinite(o), "return at t=%d is not finite" % t, o, e)
            require(abs(o - e) <= 1e-4 * scale[t][n] + 1e-30, "R_%d != r_%d + gamma R_%d" % (t, t, t + 1), o, e)
    classes = ["gamma_%g" % gamma, dtype]
    tiny = 2.0 ** -149 if dtype == "float32" else 5e-324
    under = gamma != 0 and abs(gamma) < 1 and abs(gamma) ** (T - 1) < tiny
    if under:
        classes.append("gamma_pow_T_underflows_%s" % dtype)
    if gamma == 0:
        classes.append("gamma_zero")
    if abs(gamma) > 1:
        classes.append("gamma_above_one")
    if case["batch_first"]:
        classes.append("batch_first")
    nontrivial = (under or T >= 3) and any(k != 0 for row in r8 for k in row) and gamma != 0
    return Info(nontrivial=nontrivial, classes=classes)


# ====================================================================== command line

_ID_ALPHABET = "abcdefgXYZ0123456789_-"


@st.composite
def _cli(draw, tier):
    nfiles = draw(st.sampled_from([3, 1, 2, 4, 6]))
    rank = draw(st.sampled_from([2, 2, 3, 1]))
    dim = draw(st.integers(-rank, rank - 1))
    X = draw(st.sampled_from([2, 1, 3]))
    ids = draw(st.lists(st.text(_ID_ALPHABET, min_size=1, max_size=4), min_size=nfiles, max_size=nfiles, unique=True))
    files = []
    for i in range(nfiles):
        shape = [draw(st.sampled_from([2, 1, 3, 4])) for _ in range(rank)]
        shape[dim] = X
        files.append({"id": ids[i], "shape": shape,
                      "vals": draw(st.lists(st.integers(-16 * Q, 16 * Q), min_size=_prod(shape), max_size=_prod(shape)))})
    groups = draw(st.one_of(st.none(), st.lists(st.sampled_from(["g1", "g2", "spk_3"]), min_size=nfiles, max_size=nfiles)))
    return {
        "files": files, "dim": dim, "X": X, "rank": rank, "groups": groups, "bessel": draw(st.booleans()),
        "prefix": draw(st.sampled_from(["", "", "feat_", "x"])), "suffix": draw(st.sampled_from([".pt", ".pt", "", ".feat.pt"])),
        "num_workers": draw(st.sampled_from([0] * (12 if tier == "quick" else 6) + [2])),
        "junk": draw(st.booleans()), "unused_group": draw(st.booleans()),
        "dtype": draw(st.sampled_from(["float32", "float64"])),
    }


@subcheck("C18", "cli_mvn_stats", _cli, 150, 3000,
          doc="generated feature directories (1..6 files, rank 1..3, prefix/suffix, junk files, optional groups, --bessel, "
              "--dim, workers): saved mean/std == exact pooled statistics per group",
          required_classes=["groups", "no_groups", "bessel"])
def _cli_check(case):
    import torch
    from pydrobert.torch import command_line

    X, dim, dtype = case["X"], case["dim"], case["dtype"]
    files = case["files"]
    groups = case["groups"]
    pools = {}
    arrays = []
    for k, f in enumerate(files):
        a = _np_int(f["shape"], f["vals"])
        arrays.append(a)
        gid = None if groups is None else groups[k]
        pools.setdefault(gid, R.Pool(X, Q)).add_frames(R.frames_of(a, dim))
    need = 2 if case["bessel"] else 1
    tmp = tempfile.mkdtemp(prefix="vf_")
    try:
        d = os.path.join(tmp, "feat")
        os.makedirs(d)
        for f, a in zip(files, arrays):
            torch.save(_tensor(a, dtype), os.path.join(d, case["prefix"] + f["id"] + case["suffix"]))
        junk = "README.txt~"
        if case["junk"] and not (junk.startswith(case["prefix"]) and junk.endswith(case["suffix"])):
            # a file that does not carry the prefix and suffix is not part of the feature directory
            with open(os.path.join(d, junk), "w") as fh:
                fh.write("not a feature file\n")
        out = os.path.join(tmp, "stats.pt")
        args = [d, out, "--file-prefix", case["prefix"], "--file-suffix", case["suffix"],
                "--num-workers", str(case["num_workers"])]
        if dim != -1 or len(files) % 2:
            args += ["--dim", str(dim)]
        if case["bessel"]:
            args.append("--bessel")
        if groups is not None:
            path = os.path.join(tmp, "id2gid")
            with open(path, "w") as fh:
                for f, g in zip(files, groups):
                    fh.write("%s %s\n" % (f["id"], g))
            args += ["--id2gid", path]
        few = [g for g, p in pools.items() if p.n < need]
        if few:
            # a group with too few frames for the requested estimate: the statistics do not exist; the
            # command's behaviour is not specified here, so only the well-defined inputs are judged
            return Info(nontrivial=False, classes=["group_with_too_few_frames"])
        rc = command_line.compute_mvn_stats_for_torch_feat_data_dir(args)
        require(not rc, "exit status of compute-mvn-stats-for-torch-feat-data-dir", rc, 0)
        require(os.path.exists(out), "output file written", False, True)
        got = torch.load(out)
    finally:
        shutil.rmtree(tmp, ignore_errors=True)
    if groups is None:
        got = {None: got}
    require(isinstance(got, dict) and set(got.keys()) == set(pools.keys()), "set of groups in the output",
            sorted(map(str, got)) if isinstance(got, dict) else repr(type(got)), sorted(map(str, pools)))
    for gid, pool in pools.items():
        st_ = got[gid]
        require(set(st_.keys()) == {"mean", "std"}, "keys of the statistics of group %r" % (gid,), sorted(st_), ["mean", "std"])
        mean, var, ex2 = pool.mean(), pool.var(case["bessel"]), [float(v) for v in pool.meansq()]
        require(tuple(st_["mean"].shape) == (X,) and tuple(st_["std"].shape) == (X,), "shape of saved statistics",
                (tuple(st_["mean"].shape), tuple(st_["std"].shape)), X)
        for j in range(X):
            mo, me = float(st_["mean"][j]), float(mean[j])
            require(abs(mo - me) <= 1e-12 * abs(me), "saved mean (group %r, coefficient %d)" % (gid, j), mo, me)
            se = R.sqrt_fraction(var[j])
            so = float(st_["std"][j])
            require(not math.isnan(so) and abs(so - se) <= _std_tolerance(se, ex2[j]),
                    "saved std (group %r, coefficient %d)" % (gid, j), so, se)
    classes = ["groups" if groups is not None else "no_groups"]
    if case["bessel"]:
        classes.append("bessel")
    if case["num_workers"]:
        classes.append("worker_processes")
    if groups is not None and len(pools) >= 2:
        classes.append("several_groups")
    return Info(nontrivial=len(files) >= 3 and (groups is None or len(pools) >= 2), classes=classes)
