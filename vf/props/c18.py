"""C18 Normalisation statistics, deltas and returns equal their defining formulas."""
from __future__ import annotations

import math
import os
import shutil
import tempfile
from fractions import Fraction

from hypothesis import strategies as st

from .. import lmlay
from ..core import Info, expect_raises, require, subcheck
from ..gen import weighted
from ..oracles import c18_ref as R

Q = 16  # feature values are integers / 16
TINY = 1.1754943508222875e-38  # pydrobert.torch.config.TINY (documented default of eps)


def _prod(shape):
    n = 1
    for s in shape:
        n *= s
    return n


def _np_int(shape, vals):
    import numpy as np

    return np.array(list(vals), dtype=np.int64).reshape(shape)


def _tensor(arr_int, dtype):
    import torch

    return (torch.tensor(arr_int.tolist(), dtype=torch.float64) / Q).to(getattr(torch, dtype)).reshape(arr_int.shape)


# sizes that cross typical implementation thresholds (block sizes, special paths)
SIZES = [15, 16, 17, 31, 32, 33, 63, 64, 65, 127, 128, 129, 255, 256, 257, 1023, 1024, 1025, 2049]
LAYOUTS = lmlay.LAYOUTS   # own / offset / col_slice / transposed / strided: how a tensor argument sits in memory


def _all_or_few(sizes, few=4):
    """Normally every size of the list (inside one case); short lists are what a failing case shrinks to."""
    return weighted((1, st.lists(st.sampled_from(sizes), min_size=1, max_size=few, unique=True)), (9, st.just(list(sizes))))


def _unchanged(what, t, keep):
    import torch

    same = torch.equal(t, keep) if not t.dtype.is_floating_point else bool(((t == keep) | (t.isnan() & keep.isnan())).all())
    require(same, "%s modified its input tensor" % what, None, None)


def _layout_classes(kind):
    return ["layout_" + kind]


# ====================================================================== MVN: tolerances
#
# Inputs are exact (integers / 16, small), so the only errors are the roundings of the
# computation itself.  With s = max(std, eps) the documented result is y = (x - mean) / s.
#  * float32 route: mean and std are cast to float32 (relative 2^-24 each), the subtraction and
#    the division round once each, and a standard deviation computed from float32-shifted data
#    of n frames carries at most 2^-24 sqrt(n) relative error:   |dy| <= c32 (|y| + |mean| / s)
#  * float64 route: the same with 2^-53, plus the cancellation of E[x^2] - mean^2 in the
#    accumulated statistics: |d var| <= 8 * 2^-53 * E[x^2]
C32 = 2.0 ** -19
C64 = 2.0 ** -44


def _std_tolerance(std_exact, ex2):
    """Allowed |std_obs - std_exact| for the double precision accumulate/store route."""
    if std_exact == 0.0:
        # sums of dyadic data are exact, so the variance of a constant coefficient is exactly 0;
        # allow what a differently rounded but sound implementation could produce
        return 2e-8 * max(1.0, math.sqrt(ex2))
    dvar = 8 * 2.0 ** -53 * ex2
    return 1e-12 * std_exact + dvar / std_exact


def _check_normalised(what, ys, xs_int, dim, mean, s_eff, relstd, dtype, denom_kind, n_pool, spread,
                      pooled_mean=True):
    """ys / xs_int: lists of ndarrays (observed float64 copies / integer numerators); mean: list of
    Fractions; s_eff: list of floats (max(std, eps)); relstd: list of extra relative uncertainty of
    s_eff; spread: per-coefficient bool (std > 0 and std >= eps, i.e. unit variance is promised).
    Checks the element formula and then zero mean / unit variance over the pooled data."""
    import numpy as np

    c = C32 if dtype == "float32" else C64
    X = len(mean)
    sum_y = [0.0] * X
    sum_y2 = [0.0] * X
    max_tol = [0.0] * X
    n = 0
    overflow = False
    for y, xi in zip(ys, xs_int):
        require(list(y.shape) == list(xi.shape), what + ": output shape", list(y.shape), list(xi.shape))
        ym = np.moveaxis(y, dim, -1).reshape(-1, X)
        xm = np.moveaxis(xi, dim, -1).reshape(-1, X)
        n += ym.shape[0]
        for i in range(X):
            m = float(mean[i])
            for f in range(ym.shape[0]):
                exp = float(Fraction(int(xm[f, i]), Q) - mean[i]) / s_eff[i]
                if abs(exp) > 1e30 or abs(m) / s_eff[i] > 1e30:
                    # (x - mean) / eps with a tiny eps: the documented quotient is not representable
                    overflow = True
                    continue
                tol = (c + relstd[i]) * (abs(exp) + abs(m) / s_eff[i]) + 1e-30
                obs = float(ym[f, i])
                if not math.isfinite(obs) or abs(obs - exp) > tol:
                    require(False, "%s: y != (x - mean) / max(std, eps) at frame %d coefficient %d" % (what, f, i),
                            obs, exp)
                sum_y[i] += obs
                sum_y2[i] += obs * obs
                max_tol[i] = max(max_tol[i], tol)
    for i in range(X):
        my = sum_y[i] / n
        if not pooled_mean or overflow:
            continue  # the mean was supplied by the caller: nothing is promised about the pooled output
        require(abs(my) <= max_tol[i] + 1e-12, "%s: pooled mean of normalised coefficient %d is not 0" % (what, i), my, 0.0)
        if spread[i]:
            nd = n - 1 if denom_kind == "bessel" else n
            var = (sum_y2[i] - n * my * my) / nd
            e = max_tol[i] * math.sqrt(n / nd)
            require(abs(var - 1.0) <= 2 * e + e * e + 1e-9,
                    "%s: pooled variance of normalised coefficient %d is not 1" % (what, i), var, 1.0)


# ====================================================================== MVN: accumulate / store / normalise histories


@st.composite
def _mvn_history(draw, tier):
    big = tier == "thorough"
    rank = draw(st.sampled_from([2, 3, 2, 4]))
    dim = draw(st.integers(-rank, rank - 1))
    X = draw(st.sampled_from([2, 1, 3, 4]))
    nparts = draw(st.sampled_from([3, 1, 2, 4, 5] + ([6, 8] if big else [])))
    parts = []
    for _ in range(nparts):
        shape = [draw(st.sampled_from([2, 1, 3] + ([5] if big else []))) for _ in range(rank)]
        shape[dim] = X
        vals = draw(st.lists(st.integers(-16 * Q, 16 * Q), min_size=_prod(shape), max_size=_prod(shape)))
        parts.append({"shape": shape, "vals": vals})
    const = draw(st.lists(st.tuples(st.integers(0, X - 1), st.integers(-16 * Q, 16 * Q)), max_size=2,
                          unique_by=lambda t: t[0]))
    order = draw(st.permutations(list(range(nparts))))
    op = st.one_of(
        st.tuples(st.just("acc"), st.integers(0, nparts - 1)),
        st.tuples(st.just("acc"), st.integers(0, nparts - 1)),
        st.tuples(st.just("store"), st.booleans(), st.booleans()),
        st.tuples(st.just("norm")),
    )
    prefix = draw(st.lists(op, max_size=4))
    extra = draw(st.lists(op, max_size=3))
    tail_bessel = draw(st.booleans())
    ops = [list(o) for o in prefix] + [["acc", i] for i in order] + [list(o) for o in extra]
    ops += [["store", tail_bessel, draw(st.booleans())], ["norm"]]
    dtype = draw(st.sampled_from(["float32", "float32", "float64"]))
    return {
        "rank": rank, "dim": dim, "X": X, "parts": parts, "const": [list(c) for c in const], "ops": ops,
        "dtype": dtype,
        "eps": draw(st.sampled_from([None, None, None, 0.25, 4.0])),
        # memory layout of every part; a large common offset per coefficient (float64 only: the squares of
        # such values are not exact in float32); module in training mode
        "layouts": draw(st.lists(st.sampled_from(LAYOUTS + ["own"]), min_size=nparts, max_size=nparts)),
        "offset": (draw(st.lists(st.sampled_from([0, 0, 1 << 10, -(1 << 12), 1 << 12]), min_size=X, max_size=X))
                   if dtype == "float64" else None),
        "train": draw(st.booleans()),
    }


def _parts_int(case):
    out = []
    X, dim = case["X"], case["dim"]
    import numpy as np

    for p in case["parts"]:
        a = _np_int(p["shape"], p["vals"])
        for i, k in case.get("const", []):
            idx = [slice(None)] * a.ndim
            idx[dim] = i
            a[tuple(idx)] = k
        for i, off in enumerate(case.get("offset") or []):
            idx = [slice(None)] * a.ndim
            idx[dim] = i
            a[tuple(idx)] += off
        out.append(a)
    return out


@subcheck("C18", "mvn_history", _mvn_history, 700, 20000,
          doc="histories of accumulate(part) / store(bessel, delete_stats) / normalise over parts of rank 2..4 with the "
              "normalised dimension anywhere: stored mean/std == exact pooled statistics (fractions), normalised "
              "pooled data has mean 0 / variance 1, too-few-frames errors as documented",
          required_classes=["unsorted_3_parts", "bessel", "constant_coefficient", "kept_stats_then_more",
                            "store_too_few", "single_frame_biased", "layout_offset", "layout_col_slice",
                            "layout_transposed", "layout_strided", "large_mean_float64", "eval_mode"])
def _mvn_history_check(case):
    import numpy as np
    import torch
    from pydrobert.torch.modules import MeanVarianceNormalization

    X, dim, dtype = case["X"], case["dim"], case["dtype"]
    parts = _parts_int(case)
    lay = list(case.get("layouts") or ["own"] * len(parts))
    tensors = [lmlay.relayout(_tensor(a, dtype), lay[i], 1 + i % 2) for i, a in enumerate(parts)]
    keeps = [t.clone() for t in tensors]
    eps = case["eps"]
    mvn = MeanVarianceNormalization(dim) if eps is None else MeanVarianceNormalization(dim, eps=eps)
    mvn.train(bool(case.get("train", True)))
    eps_v = TINY if eps is None else eps

    pool = R.Pool(X, Q)
    pool_parts = []           # indices accumulated since the last reset
    stored = None             # dict(mean, std_exact, std_tol, ex2, parts, bessel)
    classes = set()
    nontrivial = False

    for op in case["ops"]:
        if op[0] == "acc":
            i = op[1] % len(parts)
            mvn.accumulate(tensors[i])
            _unchanged("accumulate", tensors[i], keeps[i])
            classes.update(_layout_classes(lay[i]))
            pool.add_frames(R.frames_of(parts[i], dim))
            pool_parts.append(i)
        elif op[0] == "store":
            bessel, delete = bool(op[1]), bool(op[2])
            need = 2 if bessel else 1
            if pool.n < need:
                classes.add("store_too_few")
                with expect_raises(RuntimeError, what="store(bessel=%s) with %d accumulated frame(s)" % (bessel, pool.n)):
                    mvn.store(delete, bessel)
                continue
            if pool.n == 1:
                classes.add("single_frame_biased")
            mvn.store(delete, bessel)
            mean = pool.mean()
            var = pool.var(bessel)
            ex2 = [float(v) for v in pool.meansq()]
            require(mvn.mean is not None and tuple(mvn.mean.shape) == (X,), "stored mean shape", None, X)
            require(tuple(mvn.std.shape) == (X,), "stored std shape", tuple(mvn.std.shape), X)
            std_exact, std_tol = [], []
            for j in range(X):
                mo, me = float(mvn.mean[j]), float(mean[j])
                require(abs(mo - me) <= 1e-12 * abs(me), "stored mean of coefficient %d != pooled mean" % j, mo, me)
                se = R.sqrt_fraction(var[j])
                tol = _std_tolerance(se, ex2[j])
                so = float(mvn.std[j])
                require(not math.isnan(so) and abs(so - se) <= tol,
                        "stored std of coefficient %d != pooled %s standard deviation" % (j, "Bessel" if bessel else "biased"),
                        so, se)
                std_exact.append(se)
                std_tol.append(tol)
            stored = {"mean": mean, "std": std_exact, "tol": std_tol, "parts": list(pool_parts), "bessel": bessel,
                      "obs_std": [float(v) for v in mvn.std]}
            if bessel:
                classes.add("bessel")
            if any(s == 0.0 for s in std_exact):
                classes.add("constant_coefficient")
            if len(pool_parts) >= 3 and pool_parts != sorted(pool_parts):
                classes.add("unsorted_3_parts")
                nontrivial = True
            if delete:
                pool = R.Pool(X, Q)
                pool_parts = []
            else:
                classes.add("kept_stats")
        else:  # normalise
            if stored is None:
                # nothing stored: the input's own (biased) statistics
                i = 0
                y = mvn(tensors[i])
                own = R.Pool(X, Q)
                own.add_frames(R.frames_of(parts[i], dim))
                _check_own(case, "normalise without stored statistics", y, parts[i], own, eps_v)
                classes.add("own_statistics")
                continue
            if "kept_stats" in classes and len(stored["parts"]) < len(pool_parts):
                pass
            ys, xs = [], []
            for i in stored["parts"]:
                y = mvn(tensors[i])
                _unchanged("normalisation", tensors[i], keeps[i])
                require(y.dtype == tensors[i].dtype, "normalised dtype", str(y.dtype), str(tensors[i].dtype))
                ys.append(y.double().numpy())
                xs.append(parts[i])
            s_eff, relstd, spread = [], [], []
            for j in range(X):
                se = stored["std"][j]
                s = max(se, eps_v)
                s_eff.append(s)
                relstd.append(stored["tol"][j] / s if se >= eps_v else 0.0)
                spread.append(se > 0.0 and se >= eps_v)
            _check_normalised("normalise with stored statistics", ys, xs, dim % case["rank"], stored["mean"], s_eff,
                              relstd, dtype, "bessel" if stored["bessel"] else "biased",
                              sum(_prod(parts[i].shape) // X for i in stored["parts"]), spread)
            classes.add("normalised_pooled")
    # a store that kept its statistics and was followed by more accumulation and another store
    stores = [k for k, o in enumerate(case["ops"]) if o[0] == "store"]
    for a, b in zip(stores, stores[1:]):
        if not case["ops"][a][2] and any(o[0] == "acc" for o in case["ops"][a + 1:b]):
            classes.add("kept_stats_then_more")
    if any(case.get("offset") or []):
        classes.add("large_mean_float64")
    classes.add("train_mode" if case.get("train", True) else "eval_mode")
    return Info(nontrivial=nontrivial, classes=sorted(classes))


def _other_input(x, dim):
    """A tensor of another shape (one more frame along some other axis, or one frame only) with the same
    size along ``dim``: what a module 'has seen before'."""
    import torch

    shape = list(x.shape)
    for a in range(len(shape)):
        if a != dim % len(shape):
            shape[a] += 1
    n = 1
    for k in shape:
        n *= k
    return ((torch.arange(n, dtype=torch.float64) * 7 % 13 - 6) / 4).reshape(shape).to(x.dtype)


def _check_own(case, what, y, part_int, own, eps_v, mean_override=None, std_override=None):
    """y == (x - m) / max(s, eps) with m, s the input's own biased statistics unless overridden."""
    import numpy as np

    X, dim, dtype = case["X"], case["dim"], case["dtype"]
    mean = own.mean() if mean_override is None else mean_override
    var = own.var(False)
    std = [R.sqrt_fraction(v) for v in var] if std_override is None else std_override
    n = own.n
    s_eff = [max(s, eps_v) for s in std]
    c_own = (2.0 ** -24 * (4 + math.sqrt(n))) if dtype == "float32" else 2.0 ** -48 * (4 + n)
    relstd = [c_own if std_override is None else 0.0 for _ in std]
    spread = [std_override is None and mean_override is None and s > 0.0 and s >= eps_v for s in std]
    # a coefficient whose spread is zero must come out as exactly 0 / eps = 0
    _check_normalised(what, [y.double().numpy()], [part_int], dim % case["rank"], mean, s_eff, relstd, dtype,
                      "biased", n, spread, pooled_mean=mean_override is None)


# ====================================================================== MVN: the formula with given / missing statistics


@st.composite
def _mvn_formula(draw, tier):
    rank = draw(st.sampled_from([2, 3, 1, 4]))
    dim = draw(st.integers(-rank, rank - 1))
    X = draw(st.sampled_from([2, 1, 3, 4]))
    shape = [draw(st.sampled_from([2, 1, 3, 4])) for _ in range(rank)]
    shape[dim] = X
    return {
        "rank": rank, "dim": dim, "X": X, "shape": shape,
        "vals": draw(st.lists(st.integers(-16 * Q, 16 * Q), min_size=_prod(shape), max_size=_prod(shape))),
        "const": [list(c) for c in draw(st.lists(st.tuples(st.integers(0, X - 1), st.integers(-16 * Q, 16 * Q)),
                                                 max_size=1))],
        "mode": draw(st.sampled_from(["own", "both", "mean_only", "std_only"])),
        "mean": draw(st.lists(st.integers(-16 * Q, 16 * Q), min_size=X, max_size=X)),
        "std": draw(st.lists(st.integers(1, 8 * Q), min_size=X, max_size=X)),
        "dtype": draw(st.sampled_from(["float32", "float64"])),
        "eps": draw(st.sampled_from([None, None, 0.25, 4.0])),
        "api": draw(st.sampled_from(["module", "functional"])),
        "layout": draw(st.sampled_from(LAYOUTS + ["own"])),
        "stat_layout": draw(st.sampled_from(["own", "offset", "strided"])),
        "twice": draw(st.booleans()),
    }


@subcheck("C18", "mvn_formula", _mvn_formula, 500, 10000,
          doc="one tensor of rank 1..4, statistics given / partly given / absent, module and functional: "
              "y == (x - mean) / max(std, eps) with missing statistics taken from the input itself (exact oracle)",
          required_classes=["own", "both", "mean_only", "std_only", "eps_dominates", "layout_offset", "layout_col_slice",
                            "layout_transposed", "layout_strided", "statistics_offset", "statistics_strided",
                            "module_used_before"])
def _mvn_formula_check(case):
    import torch
    from pydrobert.torch.functional import mean_var_norm
    from pydrobert.torch.modules import MeanVarianceNormalization

    X, dim, dtype, mode = case["X"], case["dim"], case["dtype"], case["mode"]
    c2 = dict(case, parts=[{"shape": case["shape"], "vals": case["vals"]}])
    xi = _parts_int(c2)[0]
    lay, slay = case.get("layout", "own"), case.get("stat_layout", "own")
    x = lmlay.relayout(_tensor(xi, dtype), lay, 2)
    keep = x.clone()
    eps = case["eps"]
    eps_v = TINY if eps is None else eps
    mean_t = std_t = None
    mean_o = std_o = None
    if mode in ("both", "mean_only"):
        mean_t = lmlay.relayout(torch.tensor(case["mean"], dtype=torch.float64) / Q, slay, 1)
        mean_o = [Fraction(k, Q) for k in case["mean"]]
    if mode in ("both", "std_only"):
        std_t = lmlay.relayout(torch.tensor(case["std"], dtype=torch.float64) / Q, slay, 2)
        std_o = [k / Q for k in case["std"]]
    if case["api"] == "module":
        kw = {} if eps is None else {"eps": eps}
        mod = MeanVarianceNormalization(dim, mean_t, std_t, **kw)
        if case.get("twice"):
            # the module has normalised another tensor (other shape, other values) before
            mod(_other_input(x, dim))
        y = mod(x)
    else:
        y = mean_var_norm(x, dim, mean_t, std_t) if eps is None else mean_var_norm(x, dim, mean_t, std_t, eps)
    _unchanged("mean_var_norm", x, keep)
    require(y.dtype == x.dtype and y.shape == x.shape, "output dtype/shape", (str(y.dtype), list(y.shape)),
            (str(x.dtype), list(x.shape)))
    own = R.Pool(X, Q)
    own.add_frames(R.frames_of(xi, dim))
    _check_own(case, "mean_var_norm[%s]" % mode, y, xi, own, eps_v, mean_o, std_o)
    classes = [mode, dtype, case["api"]] + _layout_classes(lay)
    if mode != "own" and slay != "own":
        classes.append("statistics_" + slay)
    if case["api"] == "module" and case.get("twice"):
        classes.append("module_used_before")
    stds = std_o if std_o is not None else [R.sqrt_fraction(v) for v in own.var(False)]
    if any(0 < s < eps_v for s in stds):
        classes.append("eps_dominates")
    if any(s == 0 for s in stds):
        classes.append("constant_coefficient")
    return Info(nontrivial=own.n >= 2 and X >= 1 and mode != "both", classes=classes)


# ====================================================================== deltas

PAD_MODES = ["replicate", "constant", "reflect", "circular"]


@st.composite
def _deltas(draw, tier):
    big = tier == "thorough"
    rank = draw(st.sampled_from([2, 3, 4, 1]))
    concatenate = draw(st.booleans())
    time_dim = draw(st.integers(-rank, rank - 1))
    drank = rank if concatenate else rank + 1
    dim = draw(st.integers(-drank, drank - 1))
    order = draw(st.sampled_from([2, 3, 1, 2, 0, 3]))
    width = draw(st.sampled_from([2, 1, 3]))
    mode = draw(st.sampled_from(PAD_MODES))
    P = order * width
    tmin = 1
    if mode == "reflect":
        tmin = P + 1
    elif mode == "circular":
        tmin = max(P, 1)
    T = draw(st.integers(tmin, max(tmin, 7 if not big else 12)))
    shape = [draw(st.sampled_from([2, 1, 3])) for _ in range(rank)]
    shape[time_dim] = T
    return {
        "shape": shape, "vals": draw(st.lists(st.integers(-16 * Q, 16 * Q), min_size=_prod(shape), max_size=_prod(shape))),
        "dim": dim, "time_dim": time_dim, "concatenate": concatenate, "order": order, "width": width,
        "pad_mode": mode, "value": draw(st.integers(-8 * Q, 8 * Q)) if mode == "constant" else 0,
        "dtype": draw(st.sampled_from(["float32", "float32", "float64"])),
        "api": draw(st.sampled_from(["module", "functional"])),
        "layout": draw(st.sampled_from(LAYOUTS + ["own"])),
        "scale_exp": draw(st.sampled_from([0, 0, 0, 40, -40, 100])),
        "twice": draw(st.booleans()), "train": draw(st.booleans()),
    }


@subcheck("C18", "deltas", _deltas, 900, 30000,
          doc="tensors of rank 1..4, every (dim, time_dim, concatenate), order 0..3, width 1..3, four padding modes: "
              "== regression formula applied `order` times to the explicitly padded input (float64 loops), "
              "stacked / concatenated at dim",
          required_classes=["order>=2_stack_dim!=time", "concat_on_time_dim", "reflect", "circular", "constant_value",
                            "negative_dims", "layout_offset", "layout_col_slice", "layout_transposed", "layout_strided",
                            "values_scaled_up", "values_scaled_down", "module_used_before"])
def _deltas_check(case):
    import numpy as np
    import torch
    from pydrobert.torch.functional import feat_deltas
    from pydrobert.torch.modules import FeatureDeltas

    shape, dtype = list(case["shape"]), case["dtype"]
    xi = _np_int(shape, case["vals"])
    # every value (and the constant padding value) times a power of two: the operation is linear
    factor = 2.0 ** case.get("scale_exp", 0)
    lay = case.get("layout", "own")
    x = lmlay.relayout(_tensor(xi, dtype) * factor, lay, 2)
    keep = x.clone()
    rank = len(shape)
    dim, time_dim, concatenate = case["dim"], case["time_dim"], case["concatenate"]
    order, width, mode = case["order"], case["width"], case["pad_mode"]
    value = case["value"] / Q * factor
    if case["api"] == "module":
        # like every torch module, the layer's (filter) buffers have to be of the input's type
        mod = FeatureDeltas(dim, time_dim, concatenate, order, width, mode, value).to(x.dtype)
        mod.train(bool(case.get("train", True)))
        if case.get("twice"):
            # the module has already been applied to a tensor of another shape
            o = torch.ones([k + (2 if a == time_dim % rank else 1) for a, k in enumerate(shape)], dtype=x.dtype)
            if mode not in ("reflect", "circular") or o.shape[time_dim] > order * width:
                mod(o)
        out = mod(x)
    else:
        out = feat_deltas(x, dim, time_dim, concatenate, order, width, mode, value)
    _unchanged("feat_deltas", x, keep)
    td = time_dim % rank
    drank = rank if concatenate else rank + 1
    dd = dim % drank
    D, A = R.deltas_nd(xi.astype(np.float64) / Q * factor, td, order, width, mode, value)
    exp = R.layout(D, dd, concatenate)
    scale = R.layout(A, dd, concatenate)
    require(list(out.shape) == list(exp.shape), "shape of deltas", list(out.shape), list(exp.shape))
    require(out.dtype == x.dtype, "dtype of deltas", str(out.dtype), str(x.dtype))
    obs = out.double().numpy()
    # filter coefficients are float32 (w / sum w^2 is inexact for width >= 2) whatever the input type
    tol = 1e-5 * scale + 1e-12 * factor
    bad = np.argwhere(~(np.abs(obs - exp) <= tol))
    if len(bad):
        k = tuple(int(i) for i in bad[0])
        require(False, "delta value at %r differs from the regression formula" % (k,), float(obs[k]), float(exp[k]))
    classes = ["order_%d" % order, mode, "concat" if concatenate else "stack", dtype] + _layout_classes(lay)
    if case.get("scale_exp", 0):
        classes.append("values_scaled_up" if case["scale_exp"] > 0 else "values_scaled_down")
    if case["api"] == "module" and case.get("twice"):
        classes.append("module_used_before")
    if order >= 2 and not concatenate and dd != td:
        classes.append("order>=2_stack_dim!=time")
    if concatenate and dd == td:
        classes.append("concat_on_time_dim")
    if mode == "constant" and value != 0:
        classes.append("constant_value")
    if dim < 0 or time_dim < 0:
        classes.append("negative_dims")
    if order * width >= shape[td]:
        classes.append("pad_at_least_length")
    nontrivial = order >= 2 and not concatenate and dd != td and _prod(shape) > shape[td]
    return Info(nontrivial=nontrivial, classes=classes)


# ====================================================================== returns

GAMMAS = [0.5, 0.9, 0.1, 2.0 ** -10, 1.0, 1.5, 0.0, -0.5, 0.99]


@st.composite
def _returns(draw, tier):
    big = tier == "thorough"
    gamma = draw(st.sampled_from(GAMMAS))
    tmax = 64 if not big else 200
    if abs(gamma) > 1:
        tmax = 64
    T = draw(st.one_of(st.integers(1, 8), st.integers(1, tmax), st.integers(max(1, tmax - 20), tmax)))
    N = draw(st.sampled_from([1, 2, 3]))
    r = draw(st.lists(st.lists(st.integers(-64, 64), min_size=N, max_size=N), min_size=T, max_size=T))
    return {"gamma": gamma, "r": r, "batch_first": draw(st.booleans()),
            "dtype": draw(st.sampled_from(["float32", "float32", "float64"])),
            "api": draw(st.sampled_from(["module", "functional"])),
            # "view": the batch-first argument is the transposed view of the time-first tensor (and vice versa)
            "layout": draw(st.sampled_from(LAYOUTS + ["own", "view"])),
            "scale_exp": draw(st.sampled_from([0, 0, 0, 40, -40, 100])) if abs(gamma) <= 1 else 0,
            "twice": draw(st.booleans())}


@subcheck("C18", "returns", _returns, 700, 20000,
          doc="rewards (T<=64|200, N<=3, eighths), gamma in {0, 2^-10, .1, .5, .9, .99, 1, 1.5, -.5}, both layouts: "
              "== backward recursion R_t = r_t + gamma R_(t+1) in float64 (1e-4 of the absolute-value recursion), finite",
          required_classes=["gamma_pow_T_underflows_float32", "gamma_zero", "gamma_above_one", "batch_first",
                            "layout_offset", "layout_col_slice", "layout_transposed", "layout_strided", "layout_view",
                            "values_scaled_up", "values_scaled_down", "module_used_before"])
def _returns_check(case):
    import torch
    from pydrobert.torch.functional import time_distributed_return
    from pydrobert.torch.modules import TimeDistributedReturn

    gamma, dtype = float(case["gamma"]), case["dtype"]
    r8 = [list(row) for row in case["r"]]
    T, N = len(r8), len(r8[0])
    factor = 2.0 ** case.get("scale_exp", 0)     # rewards times a power of two: the operation is linear
    r = [[k / 8.0 * factor for k in row] for row in r8]
    lay = case.get("layout", "own")
    if lay == "view":
        rt = torch.tensor(r, dtype=getattr(torch, dtype))  # (T, N)
        arg = rt.t() if case["batch_first"] else rt.t().contiguous().t()
    else:
        rt = torch.tensor(r, dtype=getattr(torch, dtype))  # (T, N)
        arg = lmlay.relayout(rt.t().contiguous() if case["batch_first"] else rt, lay, 2)
    keep = arg.clone()
    if case["api"] == "module":
        mod = TimeDistributedReturn(gamma, case["batch_first"])
        if case.get("twice"):
            # the module has already been applied to rewards of another shape (and type)
            mod(torch.ones(N + 1, T + 2, dtype=torch.float64) if case["batch_first"] else torch.ones(T + 2, N + 1, dtype=torch.float64))
        out = mod(arg)
    else:
        out = time_distributed_return(arg, gamma, case["batch_first"])
    _unchanged("time_distributed_return", arg, keep)
    require(out.shape == arg.shape and out.dtype == arg.dtype, "shape/dtype of returns",
            (list(out.shape), str(out.dtype)), (list(arg.shape), str(arg.dtype)))
    obs = (out.t() if case["batch_first"] else out).double().tolist()
    exp, scale = R.returns(r, gamma)
    for t in range(T):
        for n in range(N):
            o, e = obs[t][n], exp[t][n]
            require(math.isfinite(o), "return at t=%d is not finite" % t, o, e)
            require(abs(o - e) <= 1e-4 * scale[t][n] + 1e-30 * factor, "R_%d != r_%d + gamma R_%d" % (t, t, t + 1), o, e)
    classes = ["gamma_%g" % gamma, dtype] + _layout_classes(lay)
    if case.get("scale_exp", 0):
        classes.append("values_scaled_up" if case["scale_exp"] > 0 else "values_scaled_down")
    if case["api"] == "module" and case.get("twice"):
        classes.append("module_used_before")
    tiny = 2.0 ** -149 if dtype == "float32" else 5e-324
    under = gamma != 0 and abs(gamma) < 1 and abs(gamma) ** (T - 1) < tiny
    if under:
        classes.append("gamma_pow_T_underflows_%s" % dtype)
    if gamma == 0:
        classes.append("gamma_zero")
    if abs(gamma) > 1:
        classes.append("gamma_above_one")
    if case["batch_first"]:
        classes.append("batch_first")
    nontrivial = (under or T >= 3) and any(k != 0 for row in r8 for k in row) and gamma != 0
    return Info(nontrivial=nontrivial, classes=classes)


# ====================================================================== command line

_ID_ALPHABET = "abcdefgXYZ0123456789_-"


@st.composite
def _cli(draw, tier):
    nfiles = draw(st.sampled_from([3, 1, 2, 4, 6]))
    rank = draw(st.sampled_from([2, 2, 3, 1]))
    dim = draw(st.integers(-rank, rank - 1))
    X = draw(st.sampled_from([2, 1, 3]))
    ids = draw(st.lists(st.text(_ID_ALPHABET, min_size=1, max_size=4), min_size=nfiles, max_size=nfiles, unique=True))
    files = []
    for i in range(nfiles):
        shape = [draw(st.sampled_from([2, 1, 3, 4])) for _ in range(rank)]
        shape[dim] = X
        files.append({"id": ids[i], "shape": shape,
                      "vals": draw(st.lists(st.integers(-16 * Q, 16 * Q), min_size=_prod(shape), max_size=_prod(shape)))})
    groups = draw(st.one_of(st.none(), st.lists(st.sampled_from(["g1", "g2", "spk_3"]), min_size=nfiles, max_size=nfiles)))
    return {
        "files": files, "dim": dim, "X": X, "rank": rank, "groups": groups, "bessel": draw(st.booleans()),
        "prefix": draw(st.sampled_from(["", "", "feat_", "x"])), "suffix": draw(st.sampled_from([".pt", ".pt", "", ".feat.pt"])),
        "num_workers": draw(st.sampled_from([0] * (12 if tier == "quick" else 6) + [2])),
        "junk": draw(st.booleans()), "unused_group": draw(st.booleans()),
        "dtype": draw(st.sampled_from(["float32", "float64"])),
    }


@subcheck("C18", "cli_mvn_stats", _cli, 150, 3000,
          doc="generated feature directories (1..6 files, rank 1..3, prefix/suffix, junk files, optional groups, --bessel, "
              "--dim, workers): saved mean/std == exact pooled statistics per group",
          required_classes=["groups", "no_groups", "bessel"])
def _cli_check(case):
    import torch
    from pydrobert.torch import command_line

    X, dim, dtype = case["X"], case["dim"], case["dtype"]
    files = case["files"]
    groups = case["groups"]
    pools = {}
    arrays = []
    for k, f in enumerate(files):
        a = _np_int(f["shape"], f["vals"])
        arrays.append(a)
        gid = None if groups is None else groups[k]
        pools.setdefault(gid, R.Pool(X, Q)).add_frames(R.frames_of(a, dim))
    need = 2 if case["bessel"] else 1
    tmp = tempfile.mkdtemp(prefix="vf_")
    try:
        d = os.path.join(tmp, "feat")
        os.makedirs(d)
        for f, a in zip(files, arrays):
            torch.save(_tensor(a, dtype), os.path.join(d, case["prefix"] + f["id"] + case["suffix"]))
        junk = "README.txt~"
        if case["junk"] and not (junk.startswith(case["prefix"]) and junk.endswith(case["suffix"])):
            # a file that does not carry the prefix and suffix is not part of the feature directory
            with open(os.path.join(d, junk), "w") as fh:
                fh.write("not a feature file\n")
        out = os.path.join(tmp, "stats.pt")
        args = [d, out, "--file-prefix", case["prefix"], "--file-suffix", case["suffix"],
                "--num-workers", str(case["num_workers"])]
        if dim != -1 or len(files) % 2:
            args += ["--dim", str(dim)]
        if case["bessel"]:
            args.append("--bessel")
        if groups is not None:
            path = os.path.join(tmp, "id2gid")
            with open(path, "w") as fh:
                for f, g in zip(files, groups):
                    fh.write("%s %s\n" % (f["id"], g))
            args += ["--id2gid", path]
        few = [g for g, p in pools.items() if p.n < need]
        if few:
            # a group with too few frames for the requested estimate: the statistics do not exist; the
            # command's behaviour is not specified here, so only the well-defined inputs are judged
            return Info(nontrivial=False, classes=["group_with_too_few_frames"])
        rc = command_line.compute_mvn_stats_for_torch_feat_data_dir(args)
        require(not rc, "exit status of compute-mvn-stats-for-torch-feat-data-dir", rc, 0)
        require(os.path.exists(out), "output file written", False, True)
        got = torch.load(out)
    finally:
        shutil.rmtree(tmp, ignore_errors=True)
    if groups is None:
        got = {None: got}
    require(isinstance(got, dict) and set(got.keys()) == set(pools.keys()), "set of groups in the output",
            sorted(map(str, got)) if isinstance(got, dict) else repr(type(got)), sorted(map(str, pools)))
    for gid, pool in pools.items():
        st_ = got[gid]
        require(set(st_.keys()) == {"mean", "std"}, "keys of the statistics of group %r" % (gid,), sorted(st_), ["mean", "std"])
        mean, var, ex2 = pool.mean(), pool.var(case["bessel"]), [float(v) for v in pool.meansq()]
        require(tuple(st_["mean"].shape) == (X,) and tuple(st_["std"].shape) == (X,), "shape of saved statistics",
                (tuple(st_["mean"].shape), tuple(st_["std"].shape)), X)
        for j in range(X):
            mo, me = float(st_["mean"][j]), float(mean[j])
            require(abs(mo - me) <= 1e-12 * abs(me), "saved mean (group %r, coefficient %d)" % (gid, j), mo, me)
            se = R.sqrt_fraction(var[j])
            so = float(st_["std"][j])
            require(not math.isnan(so) and abs(so - se) <= _std_tolerance(se, ex2[j]),
                    "saved std (group %r, coefficient %d)" % (gid, j), so, se)
    classes = ["groups" if groups is not None else "no_groups"]
    if case["bessel"]:
        classes.append("bessel")
    if case["num_workers"]:
        classes.append("worker_processes")
    if groups is not None and len(pools) >= 2:
        classes.append("several_groups")
    return Info(nontrivial=len(files) >= 3 and (groups is None or len(pools) >= 2), classes=classes)


# ====================================================================== sizes across implementation thresholds
#
# Each of the sub-checks below takes ONE dimension through SIZES inside every case (so that every run
# meets every threshold); the data is expanded deterministically from the few integers of the case.


def _pattern(n, X, a, b, m, K):
    """n frames of X integer numerators in [-K, K] (a pure function of the arguments)."""
    import numpy as np

    f = np.arange(n, dtype=np.int64)[:, None]
    i = np.arange(X, dtype=np.int64)[None, :]
    return ((a * f + b * i + (f * f) % m + 3 * i * i) % (2 * K + 1)) - K


@st.composite
def _mvn_large(draw, tier, which):
    sizes = SIZES + ([4097] if tier == "thorough" and which != "X" else [])
    return {
        "which": which, "sizes": draw(_all_or_few(sizes)),
        "a": draw(st.integers(1, 97)), "b": draw(st.integers(0, 50)), "m": draw(st.sampled_from([7, 11, 13, 17])),
        "X": draw(st.sampled_from([1, 2, 3])), "frames": draw(st.sampled_from([1, 2, 3])),
        "dim_last": draw(st.booleans()), "bessel": draw(st.booleans()),
        "dtype": draw(st.sampled_from(["float32", "float32", "float64"])),
        "layout": draw(st.sampled_from(LAYOUTS + ["own"])),
    }


def _mvn_large_check(case):
    """frames: one accumulate() of n frames for every n (prefixes of one tensor); parts: n accumulate() calls of
    1..3 frames with a store(delete_stats=False) at every n; X: n coefficients.  Stored statistics against exact
    rational pooled statistics, then the normalised prefix / parts (element formula, mean 0, variance 1)."""
    import numpy as np
    import torch
    from pydrobert.torch.modules import MeanVarianceNormalization

    which, sizes, dtype, bessel = case["which"], sorted(case["sizes"]), case["dtype"], case["bessel"]
    nmax = max(sizes)
    classes = set(_layout_classes(case["layout"]))
    c2 = {"X": None, "dim": None, "dtype": dtype, "rank": 2}

    def stats_ok(mvn, pool, what):
        mean, var, ex2 = pool.mean(), pool.var(bessel), [float(v) for v in pool.meansq()]
        std, tol = [], []
        for j in range(pool.X):
            mo, me = float(mvn.mean[j]), float(mean[j])
            require(abs(mo - me) <= 1e-12 * abs(me), "%s: stored mean of coefficient %d != pooled mean" % (what, j), mo, me)
            se = R.sqrt_fraction(var[j])
            t = _std_tolerance(se, ex2[j])
            so = float(mvn.std[j])
            require(not math.isnan(so) and abs(so - se) <= t, "%s: stored std of coefficient %d != pooled standard deviation"
                    % (what, j), so, se)
            std.append(se)
            tol.append(t)
        return mean, std, tol

    def normalised_ok(mvn, xs, xis, dim, mean, std, tol, what):
        ys = [mvn(x).double().numpy() for x in xs]
        s_eff = [max(se, TINY) for se in std]
        relstd = [t / s_ if se >= TINY else 0.0 for t, s_, se in zip(tol, s_eff, std)]
        spread = [se > 0.0 for se in std]
        _check_normalised(what, ys, xis, dim, mean, s_eff, relstd, dtype, "bessel" if bessel else "biased",
                          sum(xi.size // len(mean) for xi in xis), spread)

    if which in ("frames", "parts"):
        X = case["X"]
        per = 1 if which == "frames" else case["frames"]
        total = nmax * per
        # float32 sums of squares stay exact: total * K^2 < 2^24
        K = max(1, min(16 * Q, int(math.isqrt((1 << 24) // total)) - 1))
        xi = _pattern(total, X, case["a"], case["b"], case["m"], K)           # (frames, X)
        dim = 1 if case["dim_last"] else 0
        full_i = xi if dim == 1 else np.ascontiguousarray(xi.T)
        full = lmlay.relayout(_tensor(full_i, dtype), case["layout"], 2)
        keep = full.clone()
        take = (lambda lo, hi: full[lo:hi]) if dim == 1 else (lambda lo, hi: full[:, lo:hi])
        take_i = (lambda lo, hi: xi[lo:hi]) if dim == 1 else (lambda lo, hi: np.ascontiguousarray(xi[lo:hi].T))
        if which == "frames":
            pool, done = R.Pool(X, Q), 0
            for n in sizes:
                if n < 2 and bessel:
                    continue
                pool.add_frames(xi[done:n].tolist())
                done = n
                mvn = MeanVarianceNormalization(dim)
                mvn.accumulate(take(0, n))
                mvn.store(True, bessel)
                mean, std, tol = stats_ok(mvn, pool, "accumulate(%d frames)" % n)
                normalised_ok(mvn, [take(0, n)], [take_i(0, n)], dim, mean, std, tol, "normalise %d frames" % n)
                classes.add("frames=%d" % n)
        else:
            pool = R.Pool(X, Q)
            mvn = MeanVarianceNormalization(dim)
            k = 0
            for n in sizes:
                while k < n:
                    mvn.accumulate(take(k * per, (k + 1) * per))
                    k += 1
                pool.add_frames(xi[pool.n:n * per].tolist())
                if pool.n < 2 and bessel:
                    continue
                mvn.store(False, bessel)
                mean, std, tol = stats_ok(mvn, pool, "%d accumulate() calls" % n)
                if n <= 300 or n == sizes[-1]:
                    normalised_ok(mvn, [take(0, n * per)], [take_i(0, n * per)], dim, mean, std, tol,
                                  "normalise after %d accumulate() calls" % n)
                classes.add("parts=%d" % n)
        _unchanged("accumulate / normalisation", full, keep)
    else:
        F = case["frames"] + 1
        xi = _pattern(F, nmax, case["a"], case["b"], case["m"], 16 * Q)        # (F, Xmax)
        dim = 1 if case["dim_last"] else 0
        full_i = xi if dim == 1 else np.ascontiguousarray(xi.T)
        full = lmlay.relayout(_tensor(full_i, dtype), case["layout"], 2)
        for n in sizes:
            x = full[:, :n] if dim == 1 else full[:n]
            x_i = np.ascontiguousarray(xi[:, :n] if dim == 1 else xi[:, :n].T)
            pool = R.Pool(n, Q)
            pool.add_frames(xi[:, :n].tolist())
            mvn = MeanVarianceNormalization(dim)
            mvn.accumulate(x)
            mvn.store(True, bessel)
            mean, std, tol = stats_ok(mvn, pool, "%d coefficients" % n)
            normalised_ok(mvn, [x], [x_i], dim, mean, std, tol, "normalise %d coefficients" % n)
            # no stored statistics: the input's own
            y = MeanVarianceNormalization(dim)(x)
            _check_own(dict(c2, X=n, dim=dim), "own statistics, %d coefficients" % n, y, x_i, pool, TINY)
            classes.add("X=%d" % n)
    classes.update([dtype, "bessel" if bessel else "biased"])
    return Info(nontrivial=max(sizes) > 1024, classes=sorted(classes))


_MVN_LARGE = [
    ("frames", 10, 100, "one accumulate() of n frames, n = 15..2049 (prefixes of one tensor)", "frames"),
    ("parts", 10, 100, "n = 15..2049 accumulate() calls of 1..3 frames with a store at every threshold", "parts"),
    ("X", 10, 100, "n = 15..2049 coefficients along the normalised dimension (stored and own statistics)", "X"),
]
for _k, _q, _t, _doc, _lab in _MVN_LARGE:
    subcheck("C18", "mvn_large_" + _k, (lambda tier, _k=_k: _mvn_large(tier, _k)), _q, _t,
             doc=_doc + "; data expanded from a few integers (values bounded so that float32 sums stay exact); stored "
                        "mean/std == exact pooled statistics, normalised data checked element by element",
             required_classes=["%s=%d" % (_lab, n) for n in (15, 16, 17, 1023, 1024, 1025, 2049)])(_mvn_large_check)


# ---------------------------------------------------------------------- deltas


@st.composite
def _deltas_large(draw, tier, which):
    if which == "width":
        sizes = [4, 5, 7, 8, 9, 15, 16, 17, 31, 32, 33]
        order = draw(st.sampled_from([1, 2]))
    else:
        sizes = SIZES + ([4097] if tier == "thorough" else [])
        order = draw(st.sampled_from([2, 1, 3]))
    return {
        "which": which, "sizes": draw(_all_or_few(sizes)), "order": order,
        "width": draw(st.sampled_from([2, 1, 3])),
        "pad_mode": draw(st.sampled_from(PAD_MODES)), "value": draw(st.integers(-8 * Q, 8 * Q)),
        "a": draw(st.integers(1, 97)), "b": draw(st.integers(0, 50)), "m": draw(st.sampled_from([7, 11, 13, 17])),
        "other": draw(st.sampled_from([1, 2, 3])), "time_first": draw(st.booleans()),
        "concatenate": draw(st.booleans()),
        "dtype": draw(st.sampled_from(["float32", "float32", "float64"])),
        "api": draw(st.sampled_from(["module", "functional"])),
        "layout": draw(st.sampled_from(LAYOUTS + ["own"])),
    }


def _deltas_large_check(case):
    """T: n frames for every n (prefixes of one (T, F) tensor); F: n features (columns of one tensor);
    width: regression windows of +-n frames."""
    import numpy as np
    import torch
    from pydrobert.torch.functional import feat_deltas
    from pydrobert.torch.modules import FeatureDeltas

    which, sizes, dtype = case["which"], sorted(case["sizes"]), case["dtype"]
    order, mode, concatenate = case["order"], case["pad_mode"], case["concatenate"]
    value = case["value"] / Q if mode == "constant" else 0.0
    classes = set(_layout_classes(case["layout"]) + [mode, dtype, "order_%d" % order])
    nmax = max(sizes)
    if which == "T":
        T, F = nmax, case["other"]
    elif which == "F":
        T, F = case["other"] + order * case["width"] + 1, nmax
    else:
        T, F = 2 * order * nmax + 3, case["other"]
    xi = _pattern(T, F, case["a"], case["b"], case["m"], 16 * Q)       # (T, F)
    tf = case["time_first"]
    full_i = xi if tf else np.ascontiguousarray(xi.T)
    full = lmlay.relayout(_tensor(full_i, dtype), case["layout"], 2)
    keep = full.clone()
    td = 0 if tf else 1
    mods = {}
    for n in sizes:
        width = n if which == "width" else case["width"]
        P = order * width
        if which == "T":
            t_n, f_n = n, F
        elif which == "F":
            t_n, f_n = T, n
        else:
            t_n, f_n = T, F
        if (mode == "reflect" and t_n <= P) or (mode == "circular" and t_n < P):
            classes.add("skipped_pad_longer_than_input")
            continue
        x = full[:t_n, :f_n] if tf else full[:f_n, :t_n]
        x_i = xi[:t_n, :f_n] if tf else xi[:t_n, :f_n].T
        dim = 1 - td if concatenate else 2
        if case["api"] == "module":
            key = width
            if key not in mods:    # one module object for all sizes (but one per width)
                mods[key] = FeatureDeltas(dim, td, concatenate, order, width, mode, value).to(x.dtype)
            out = mods[key](x)
        else:
            out = feat_deltas(x, dim, td, concatenate, order, width, mode, value)
        D, A = R.deltas_nd(np.ascontiguousarray(x_i).astype(np.float64) / Q, td, order, width, mode, value)
        exp, scale = R.layout(D, dim, concatenate), R.layout(A, dim, concatenate)
        require(list(out.shape) == list(exp.shape), "shape of deltas (%s=%d)" % (which, n), list(out.shape), list(exp.shape))
        obs = out.double().numpy()
        bad = np.argwhere(~(np.abs(obs - exp) <= 1e-5 * scale + 1e-12))
        if len(bad):
            k = tuple(int(i) for i in bad[0])
            require(False, "%s=%d: delta value at %r differs from the regression formula" % (which, n, k), float(obs[k]), float(exp[k]))
        classes.add("%s=%d" % (which, n))
    _unchanged("feat_deltas", full, keep)
    return Info(nontrivial=order >= 2, classes=sorted(classes))


_DELTAS_LARGE = [
    ("T", 10, 100, "sequence lengths 15..2049 (prefixes of one tensor)", [15, 16, 17, 1023, 1024, 1025, 2049]),
    ("F", 10, 100, "feature sizes 15..2049 (columns of one tensor)", [15, 16, 17, 1023, 1024, 1025, 2049]),
    ("width", 12, 100, "window half-widths 4..33, order 1..2", [8, 9, 15, 16, 17, 32, 33]),
]
for _k, _q, _t, _doc, _req in _DELTAS_LARGE:
    subcheck("C18", "deltas_large_" + _k, (lambda tier, _k=_k: _deltas_large(tier, _k)), _q, _t,
             doc=_doc + "; data expanded from a few integers; == regression formula on the explicitly padded input (float64 loops)",
             required_classes=["%s=%d" % (_k, n) for n in _req])(_deltas_large_check)


# ---------------------------------------------------------------------- returns


@st.composite
def _returns_large(draw, tier, which):
    sizes = SIZES + ([4097] if tier == "thorough" else [])
    return {
        "which": which, "sizes": draw(_all_or_few(sizes)),
        "gamma": draw(st.sampled_from([0.5, 0.9, 0.99, 1.0, 2.0 ** -10, -0.5, 0.1, 0.999])),
        "a": draw(st.integers(1, 97)), "b": draw(st.integers(0, 50)), "m": draw(st.sampled_from([7, 11, 13, 17])),
        "other": draw(st.sampled_from([1, 2, 3, 5])), "batch_first": draw(st.booleans()),
        "dtype": draw(st.sampled_from(["float32", "float32", "float64"])),
        "api": draw(st.sampled_from(["module", "functional"])),
        "layout": draw(st.sampled_from(LAYOUTS + ["own"])),
    }


def _returns_large_check(case):
    """T: horizons n (the first n steps of one reward tensor); N: batch sizes n (its first n sequences)."""
    import numpy as np
    import torch
    from pydrobert.torch.functional import time_distributed_return
    from pydrobert.torch.modules import TimeDistributedReturn

    which, sizes, dtype, gamma, bf = case["which"], sorted(case["sizes"]), case["dtype"], float(case["gamma"]), case["batch_first"]
    nmax = max(sizes)
    T, N = (nmax, case["other"]) if which == "T" else (case["other"] + 2, nmax)
    r8 = _pattern(T, N, case["a"], case["b"], case["m"], 64)           # (T, N) eighths
    full = torch.tensor((r8 / 8.0).tolist(), dtype=getattr(torch, dtype)).reshape(T, N)
    full = lmlay.relayout(full.t().contiguous() if bf else full, case["layout"], 2)
    keep = full.clone()
    mod = TimeDistributedReturn(gamma, bf)
    classes = set(_layout_classes(case["layout"]) + ["gamma_%g" % gamma, dtype, "batch_first" if bf else "time_first"])
    for n in sizes:
        t_n, n_n = (n, N) if which == "T" else (T, n)
        arg = full[:n_n, :t_n] if bf else full[:t_n, :n_n]
        out = mod(arg) if case["api"] == "module" else time_distributed_return(arg, gamma, bf)
        require(out.shape == arg.shape and out.dtype == arg.dtype, "shape/dtype of returns (%s=%d)" % (which, n),
                (list(out.shape), str(out.dtype)), (list(arg.shape), str(arg.dtype)))
        obs = (out.t() if bf else out).double().numpy()
        exp, scale = R.returns((r8[:t_n, :n_n] / 8.0).tolist(), gamma)
        exp, scale = np.array(exp).reshape(t_n, n_n), np.array(scale).reshape(t_n, n_n)
        bad = np.argwhere(~(np.isfinite(obs) & (np.abs(obs - exp) <= 1e-4 * scale + 1e-30)))
        if len(bad):
            t, b = (int(i) for i in bad[0])
            require(False, "%s=%d: R_%d != r_%d + gamma R_%d (sequence %d)" % (which, n, t, t, t + 1, b), float(obs[t, b]), float(exp[t, b]))
        classes.add("%s=%d" % (which, n))
    _unchanged("time_distributed_return", full, keep)
    return Info(nontrivial=gamma != 0 and nmax > 1024, classes=sorted(classes))


for _k, _doc in (("T", "horizons 15..2049 (the first n steps of one reward tensor)"),
                 ("N", "batch sizes 15..2049 (the first n sequences of one reward tensor)")):
    subcheck("C18", "returns_large_" + _k, (lambda tier, _k=_k: _returns_large(tier, _k)), 12, 120,
             doc=_doc + ", gamma in {2^-10, .1, .5, .9, .99, .999, 1, -.5}, one module object for all sizes; == backward "
                        "recursion in float64 (1e-4 of the absolute-value recursion), finite",
             required_classes=["%s=%d" % (_k, n) for n in (15, 16, 17, 1023, 1024, 1025, 2049)])(_returns_large_check)


# ---------------------------------------------------------------------- command line: many files


@st.composite
def _cli_many(draw, tier):
    sizes = [15, 16, 17, 31, 32, 33, 63, 64, 65, 127, 128, 129, 255, 256, 257] + ([1023, 1024, 1025] if tier == "thorough" else [])
    return {
        "sizes": draw(_all_or_few(sizes)),
        "a": draw(st.integers(1, 97)), "b": draw(st.integers(0, 50)), "m": draw(st.sampled_from([7, 11, 13, 17])),
        "X": draw(st.sampled_from([1, 2])), "frames": draw(st.sampled_from([1, 2])), "dim": draw(st.sampled_from([-1, 0, 1, -2])),
        "bessel": draw(st.booleans()), "num_workers": draw(st.sampled_from([0, 0, 0, 2])),
        "dtype": draw(st.sampled_from(["float32", "float64"])), "warm": draw(st.booleans()),
    }


@subcheck("C18", "cli_many_files", _cli_many, 4, 30,
          doc="one feature directory whose groups (--id2gid) have 15, 16, 17, ... 257 (thorough: ..1025) files each: saved "
              "per-group mean/std == exact pooled statistics; the same directory without groups; optionally after another "
              "run of the command on another directory in the same process",
          required_classes=["files=15", "files=16", "files=17", "files=255", "files=256", "files=257"])
def _cli_many_check(case):
    import numpy as np
    import torch
    from pydrobert.torch import command_line

    X, dim, dtype, bessel = case["X"], case["dim"], case["dtype"], case["bessel"]
    sizes = sorted(case["sizes"])
    total = sum(sizes)
    F = case["frames"]
    vals = _pattern(total * F, X, case["a"], case["b"], case["m"], 16 * Q)      # (total * F, X)
    tmp = tempfile.mkdtemp(prefix="vf_")
    pools, allpool = {}, R.Pool(X, Q)
    try:
        d = os.path.join(tmp, "feat")
        os.makedirs(d)
        lines = []
        k = 0
        for n in sizes:
            gid = "g%d" % n
            pools[gid] = R.Pool(X, Q)
            for j in range(n):
                a = vals[k * F:(k + 1) * F]            # (F, X); feature axis moved to --dim
                k += 1
                pools[gid].add_frames(a.tolist())
                allpool.add_frames(a.tolist())
                t = _tensor(np.ascontiguousarray(a), dtype)
                if dim in (0, -2):
                    t = t.t().contiguous()
                fid = "u%d_%d" % (n, j)
                torch.save(t, os.path.join(d, fid + ".pt"))
                lines.append("%s %s" % (fid, gid))
        path = os.path.join(tmp, "id2gid")
        with open(path, "w") as fh:
            fh.write("\n".join(lines) + "\n")
        if case["warm"]:
            d2 = os.path.join(tmp, "other")
            os.makedirs(d2)
            torch.save(torch.ones(3, 5), os.path.join(d2, "x.pt"))
            rc = command_line.compute_mvn_stats_for_torch_feat_data_dir([d2, os.path.join(tmp, "o.pt"), "--bessel"])
            require(not rc, "exit status of the earlier run", rc, 0)
        base = ["--dim", str(dim), "--num-workers", str(case["num_workers"])] + (["--bessel"] if bessel else [])
        out1, out2 = os.path.join(tmp, "groups.pt"), os.path.join(tmp, "all.pt")
        rc = command_line.compute_mvn_stats_for_torch_feat_data_dir([d, out1, "--id2gid", path] + base)
        require(not rc, "exit status of compute-mvn-stats-for-torch-feat-data-dir --id2gid", rc, 0)
        rc = command_line.compute_mvn_stats_for_torch_feat_data_dir([d, out2] + base)
        require(not rc, "exit status of compute-mvn-stats-for-torch-feat-data-dir", rc, 0)
        got = torch.load(out1)
        got_all = torch.load(out2)
    finally:
        shutil.rmtree(tmp, ignore_errors=True)
    require(isinstance(got, dict) and set(got.keys()) == set(pools.keys()), "set of groups in the output",
            sorted(map(str, got)) if isinstance(got, dict) else repr(type(got)), sorted(pools))
    classes = set()
    for gid, pool, st_ in [(g, p, got[g]) for g, p in pools.items()] + [("(all %d files)" % total, allpool, got_all)]:
        mean, var, ex2 = pool.mean(), pool.var(bessel), [float(v) for v in pool.meansq()]
        for j in range(X):
            mo, me = float(st_["mean"][j]), float(mean[j])
            require(abs(mo - me) <= 1e-12 * abs(me), "saved mean (group %s, coefficient %d)" % (gid, j), mo, me)
            se = R.sqrt_fraction(var[j])
            so = float(st_["std"][j])
            require(not math.isnan(so) and abs(so - se) <= _std_tolerance(se, ex2[j]),
                    "saved std (group %s, coefficient %d)" % (gid, j), so, se)
        if gid.startswith("g"):
            classes.add("files=%s" % gid[1:])
    classes.update(["bessel" if bessel else "biased", "workers_%d" % case["num_workers"]])
    if case["warm"]:
        classes.add("command_run_before")
    return Info(nontrivial=len(sizes) >= 3, classes=sorted(classes))
