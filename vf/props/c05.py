"""C05 CTC prefix search reports true prefix mass, never more, never NaN."""
from __future__ import annotations

import math

from hypothesis import strategies as st

from ..core import Info, close, require, subcheck
from .. import declm
from ..oracles import c05_ctc as ref

NEG_INF = float("-inf")
TINY = 1e-30  # float32 results may underflow to zero below this; no positivity claims are made there


# ------------------------------------------------------------------------- running the library


def run_search(case, elems=None):
    """Call the real CTCPrefixSearch on the whole batch (or on the listed elements' own valid frames)."""
    import torch
    from pydrobert.torch.modules import CTCPrefixSearch

    T, V, N = case["T"], case["V"], case["N"]
    fusion, beta = case["fusion"], case["beta_q"] / 4
    lm = declm.HashLM(case["lm"]) if fusion != "none" else None
    search = CTCPrefixSearch(case["width"], beta, lm, valid_mixture=(fusion == "valid"))
    logits = (torch.tensor(case["logits"], dtype=torch.float32) / 4).view(T, N, V + 1)
    lens = case["lens"]
    if elems is None:
        lens_t = None if lens is None else torch.tensor(lens, dtype=torch.long)
        init = {"cond": torch.tensor(case["conds"], dtype=torch.long)} if lm is not None else None
        if init is None and case.get("omit_state", True):
            return search(logits, lens_t)
        return search(logits, lens_t, init if init is not None else dict())
    out = []
    for n in elems:
        L = T if lens is None else lens[n]
        lg = logits[:L, n:n + 1]
        init = {"cond": torch.tensor([case["conds"][n]], dtype=torch.long)} if lm is not None else dict()
        out.append(search(lg, torch.tensor([L]), init))
    return out


def slots_of(y, y_lens, probs, n, width):
    S = y.size(0)
    out = []
    for k in range(width):
        p = float(probs[n, k])
        L = int(y_lens[n, k])
        toks = tuple(int(v) for v in y[: max(0, min(L, S)), n, k])
        out.append((toks, L, p))
    return out


# ------------------------------------------------------------------------------- the oracle


def element_frames(case, n):
    L = case["T"] if case["lens"] is None else case["lens"][n]
    return [ref.softmax([v / 4 for v in case["logits"][t][n]]) for t in range(L)]


def element_ext(case, n):
    fusion, beta = case["fusion"], case["beta_q"] / 4
    if fusion == "none":
        return ref.make_ext("none", 0.0, None)
    spec, cond = case["lm"], case["conds"][n]
    cache = {}

    def lm_probs(prefix):
        if prefix not in cache:
            cache[prefix] = ref.softmax(declm.py_next_logits(spec, cond, prefix))
        return cache[prefix]

    return ref.make_ext(fusion, beta, lm_probs)


def check_element(case, n, slots, S, cl):
    V, W = case["V"], case["width"]
    frames = element_frames(case, n)
    L = len(frames)
    ext = element_ext(case, n)
    exact = ref.exact_masses(frames, V, ext)
    # float32: the valid mixture computes 1 - p(blank), which is only accurate to about 6e-8 absolutely per frame;
    # every other quantity is a product / sum of softmax outputs and keeps float32 relative accuracy
    atol = 1e-6 if (case["fusion"] == "valid" and case["beta_q"] > 0) else TINY
    beam, info = ref.beam_reference(frames, V, W, ext, tie_abs=atol)
    probs = [p for _, _, p in slots]
    require(not any(math.isnan(p) for p in probs), "element %d: a slot has NaN probability" % n, probs, "no NaN")
    for k in range(W - 1):
        require(probs[k] >= probs[k + 1], "element %d: probabilities are not non-increasing" % n, probs, "y_probs[k] >= y_probs[k+1]")
    positive = []
    seen_nonpos = False
    for k, (toks, Lk, p) in enumerate(slots):
        if p > 0.0:
            require(p < math.inf, "element %d slot %d: infinite probability" % (n, k), p, "<= 1")
            require(not seen_nonpos, "element %d: a real prefix sits behind an empty slot" % n, probs, "positive first")
            require(0 <= Lk <= min(L, S), "element %d slot %d: prefix longer than its input" % (n, k), Lk, L)
            require(all(0 <= v < V for v in toks), "element %d slot %d: blank or out-of-range label in a prefix" % (n, k), list(toks), V)
            positive.append((toks, p))
        else:
            require(p == 0.0 or p == NEG_INF, "element %d slot %d: an empty slot must carry 0 or -inf" % (n, k), p, "0 or -inf")
            seen_nonpos = True
    pre = [t for t, _ in positive]
    require(len(set(pre)) == len(pre), "element %d: a prefix with positive mass occurs twice" % n, [list(t) for t in pre], "distinct")
    for toks, p in positive:
        ex = exact.get(toks, 0.0)
        require(p <= ex * (1 + 1e-4) + atol, "element %d: reported mass of %s exceeds the exact total over alignments" % (n, list(toks)),
                p, ex)
    got = dict(positive)
    if not info["pruned"]:
        # nothing had to be pruned: the exact mass of every prefix
        cl.add("never_pruned")
        for toks, ex in exact.items():
            if ex > 2 * atol:
                require(toks in got, "element %d: unpruned search misses prefix %s" % (n, list(toks)), sorted(map(list, got)), ex)
        for toks, p in positive:
            require(close(p, exact.get(toks, 0.0), rel=2e-5, abs_=atol), "element %d: mass of %s != exact total over alignments" % (n, list(toks)),
                    p, exact.get(toks, 0.0))
    elif not info["ambiguous"]:
        cl.add("pruned_unambiguous")
        exp = {l: m for l, m in beam if m > 0.0}
        for toks, m in exp.items():
            if m > 2 * atol:
                require(toks in got, "element %d: prefix %s kept by the width-%d recursion is missing" % (n, list(toks), W),
                        sorted(map(list, got)), sorted(map(list, exp)))
        for toks, p in positive:
            if p <= 2 * atol:
                continue
            require(toks in exp, "element %d: prefix %s is not kept by the width-%d recursion" % (n, list(toks), W),
                    sorted(map(list, got)), sorted(map(list, exp)))
            require(close(p, exp[toks], rel=1e-4, abs_=atol), "element %d: mass of %s != mass assigned by the width-%d recursion" % (n, list(toks), W),
                    p, exp[toks])
    else:
        cl.add("pruned_near_tie")
    if info["merge"]:
        cl.add("merge_event")
    if info["width_exceeds_live"]:
        cl.add("width_exceeds_live_prefixes")
    if W > info["max_live"] and L > 0:
        cl.add("width_beyond_all_steps")
    if L >= 5:
        cl.add("input_of_5_or_more_frames")
    if any(p == 0.0 for p in probs):
        cl.add("zero_mass_slot")
    if any(p == NEG_INF for p in probs):
        cl.add("neg_inf_slot")
    return positive


# ------------------------------------------------------------------------------ strategies


def reachable(V, T):
    return sum(V ** l for l in range(T + 1))


def _search_cases(tier, width_mode="any", fusion_mode="any"):
    # the alignment enumeration costs (V+1)^T: longer inputs for smaller vocabularies
    maxT = {1: 6, 2: 5, 3: 4} if tier == "quick" else {1: 7, 2: 6, 3: 5}

    @st.composite
    def _s(draw):
        V = draw(st.sampled_from([2, 1, 3]))
        T = draw(st.sampled_from([3, 5, 4, 2, 1, 0, 6, 7]))
        T = min(T, maxT[V])
        N = draw(st.sampled_from([2, 1, 3]))
        kind = draw(st.sampled_from(["generic", "dominant", "identical_frames", "tiny_prob", "zero_prob", "generic"]))
        frame = st.lists(st.integers(-12, 12), min_size=V + 1, max_size=V + 1)
        logits = [[list(draw(frame)) for _ in range(N)] for _ in range(T)]
        if kind == "dominant" and T:
            v = draw(st.integers(0, V))
            for t in range(T):
                for n in range(N):
                    logits[t][n][v] = 12
        if kind == "identical_frames" and T >= 2:
            t0 = draw(st.integers(0, T - 2))
            logits[t0 + 1] = [list(r) for r in logits[t0]]
        if kind == "tiny_prob" and T:
            t0, n0, v0 = draw(st.integers(0, T - 1)), draw(st.integers(0, N - 1)), draw(st.integers(0, V))
            logits[t0][n0][v0] = -120  # logit -30: probability about 1e-13, not zero
        if kind == "zero_prob" and T:
            # logit -120: exp(-120) is below the smallest float32, so the label's probability is exactly zero there
            # (about 1e-52 for the float64 oracle, far below the threshold under which nothing is claimed)
            for _ in range(draw(st.sampled_from([1, 2]))):
                t0, n0, v0 = draw(st.integers(0, T - 1)), draw(st.integers(0, N - 1)), draw(st.integers(0, V))
                logits[t0][n0][v0] = -480
        lens = draw(st.one_of(st.lists(st.integers(0, T), min_size=N, max_size=N), st.none()))
        R = reachable(V, T)
        if width_mode == "wide":
            width = draw(st.sampled_from([R, R + 1, R + 7, 2 * R + 3, max(2, R // 2)]))
        else:
            width = draw(st.sampled_from([2, 1, 3, 4, R, R + 5, 2 * R + 3, max(1, R // 2)]))
        fm = fusion_mode
        if fm == "any":
            fm = draw(st.sampled_from(["none", "none", "shallow", "valid"]))
        elif fm == "lm":
            fm = draw(st.sampled_from(["shallow", "valid"]))
        case = {"T": T, "V": V, "N": N, "logits": logits, "lens": lens, "width": width, "fusion": fm, "kind": kind,
                "beta_q": 0, "lm": None, "conds": None}
        if fm != "none":
            spec = draw(declm.lm_specs(V, V, max_cond=2, lo=-8, hi=8))
            case["lm"] = spec
            case["conds"] = draw(st.lists(st.integers(0, len(spec["cond"]) - 1), min_size=N, max_size=N))
            case["beta_q"] = draw(st.sampled_from([2, 1, 4, 0] if fusion_mode != "lm" else [2, 1, 4, 3]))
        else:
            case["beta_q"] = draw(st.sampled_from([1, 0, 4]))  # beta without a model must change nothing
            case["omit_state"] = draw(st.booleans())
        return case

    return _s()


# ------------------------------------------------------------------------------- sub-checks


def _search_check(case):
    T, V, N, W = case["T"], case["V"], case["N"], case["width"]
    y, y_lens, probs = run_search(case)
    require(y.dim() == 3 and list(y.shape[1:]) == [N, W] and y.size(0) <= T, "shape of y", list(y.shape), ["<=%d" % T, N, W])
    require(list(y_lens.shape) == [N, W] and list(probs.shape) == [N, W], "shapes of y_lens / y_probs",
            [list(y_lens.shape), list(probs.shape)], [N, W])
    cl = set()
    S = y.size(0)
    per_elem = []
    for n in range(N):
        slots = slots_of(y, y_lens, probs, n, W)
        per_elem.append((slots, check_element(case, n, slots, S, cl)))
    # an element's result equals that of searching its own valid frames alone
    if N >= 2 or case["lens"] is not None:
        solo = run_search(case, elems=list(range(N)))
        for n, (ys, ls, ps) in enumerate(solo):
            sslots = slots_of(ys, ls, ps, 0, W)
            spos = [(t, p) for t, _, p in sslots if p > 0.0]
            bpos = per_elem[n][1]
            pa, pb = [p for _, p in bpos], [p for _, p in spos]
            require(len(pa) == len(pb) and all(close(a, b, rel=1e-5, abs_=TINY) for a, b in zip(pa, pb)),
                    "element %d: batched and solo searches report different masses" % n, pa, pb)
            for i, (t, p) in enumerate(bpos):
                others = [q for j, q in enumerate(pa) if j != i] + [q for j, q in enumerate(pb) if j != i]
                if all(abs(p - q) > 1e-4 * max(p, q) for q in others):
                    require(spos[i][0] == t, "element %d: batched and solo searches disagree on slot %d" % (n, i),
                            list(t), list(spos[i][0]))
    lens = case["lens"]
    if lens is not None and len(set(lens)) >= 2:
        cl.add("mixed_lengths")
    if lens is not None and 0 in lens:
        cl.add("zero_length_element")
    if lens is None:
        cl.add("lens_unset")
    if T == 0:
        cl.add("T_0")
    cl.add("fusion_" + case["fusion"])
    if case["fusion"] != "none" and case["beta_q"] > 0:
        cl.add("fusion_active")
        if case["lm"]["M"] >= 2:
            cl.add("stateful_fused_lm")
    cl.add("logits_" + case["kind"])
    nontrivial = bool({"width_exceeds_live_prefixes", "merge_event", "mixed_lengths", "fusion_active"} & cl)
    return Info(nontrivial=nontrivial, classes=sorted(cl))


subcheck("C05", "search", lambda tier: _search_cases(tier), 1200, 30000,
         doc="generated logits on a k/4 grid (classes generic / dominant label / identical frames / one ~1e-13 probability / exactly-zero float32 probability), T 0..4-6|5-7 "
             "(longer for smaller V), "
             "V 1..3 (+blank), N 1..3, lens unset or mixed incl. 0, widths 1..far beyond, fusion none/shallow/valid mixture with a "
             "HashLM; oracle = complete alignment enumeration (exact mass) + dictionary prefix-beam recursion of the same width; "
             "batched vs solo",
         required_classes=["width_exceeds_live_prefixes", "merge_event", "mixed_lengths", "fusion_active", "never_pruned",
                           "pruned_unambiguous", "zero_length_element", "logits_tiny_prob", "logits_zero_prob"])(_search_check)

subcheck("C05", "wide", lambda tier: _search_cases(tier, width_mode="wide", fusion_mode="none"), 800, 20000,
         doc="widths from the number of reachable prefixes to far beyond it, no fusion: exact mass for every prefix, empty slots "
             "carry 0/-inf behind the real ones, no NaN, no duplicates",
         required_classes=["width_exceeds_live_prefixes", "width_beyond_all_steps", "never_pruned", "neg_inf_slot",
                           "input_of_5_or_more_frames"])(_search_check)

subcheck("C05", "fused", lambda tier: _search_cases(tier, fusion_mode="lm"), 800, 20000,
         doc="shallow fusion and valid mixture with beta in {0.25, 0.5, 0.75, 1} and a HashLM whose state lives only in prev "
             "(extract_by_src / mix_by_mask must follow the surviving prefixes): same oracles with the fused extension scores",
         required_classes=["fusion_active", "stateful_fused_lm", "fusion_shallow", "fusion_valid", "pruned_unambiguous",
                           "width_exceeds_live_prefixes"])(_search_check)


# ------------------------------------------------------------------ the step function


def _advance_cases(tier):
    @st.composite
    def _s(draw):
        V = draw(st.sampled_from([2, 1, 3]))
        N = draw(st.sampled_from([1, 2]))
        Kp = draw(st.sampled_from([2, 3, 1, 4]))
        pref = st.lists(st.integers(0, V - 1), min_size=0, max_size=3).map(tuple)
        elems = []
        for _ in range(N):
            ps = draw(st.lists(pref, min_size=Kp, max_size=Kp, unique=True))
            # beams usually hold related prefixes: often make some a one-token extension of another
            if Kp >= 2 and draw(st.booleans()):
                base = ps[0]
                cand = tuple(base) + (draw(st.integers(0, V - 1)),)
                if len(cand) <= 3 and cand not in ps:
                    ps[1] = cand
            nb = [0 if not p else draw(st.integers(0, 8)) for p in ps]
            b = [draw(st.integers(0, 8)) for _ in ps]
            ext = [[draw(st.integers(1, 8)) for _ in range(V)] for _ in ps]
            nonext = [draw(st.integers(1, 8)) for _ in range(V)]
            blank = draw(st.integers(1, 8))
            junk_last = draw(st.integers(0, V - 1))
            elems.append({"prefixes": [list(p) for p in ps], "nb": nb, "b": b, "ext": ext, "nonext": nonext, "blank": blank,
                          "junk_last": junk_last})
        width = draw(st.integers(1, Kp * (V + 1) + 3))
        return {"V": V, "N": N, "Kp": Kp, "elems": elems, "width": width, "extra_row": draw(st.booleans())}

    return _s()


def _is_prefix(a, b):
    return len(a) <= len(b) and tuple(b[: len(a)]) == tuple(a)


@subcheck("C05", "advance", _advance_cases, 1500, 30000,
          doc="ctc_prefix_search_advance on a generated beam of distinct prefixes with dyadic blank / non-blank masses and dyadic frame "
              "scores (all arithmetic exact): the valid slots are the best candidates of one dictionary step (merge of an extension "
              "into an identical prefix included) with exactly their (non-blank, blank) masses; lengths, last tokens, sources and the "
              "prefix-relation matrix are consistent; slots beyond the candidates carry -inf",
          required_classes=["merge", "width_beyond_candidates", "prunes", "batch_2"])
def _advance_check(case):
    import torch
    from pydrobert.torch.functional import ctc_prefix_search_advance

    V, N, Kp, W = case["V"], case["N"], case["Kp"], case["width"]
    S = max(len(p) for e in case["elems"] for p in e["prefixes"]) + (1 if case["extra_row"] else 0)
    y_prev = torch.zeros((S, N, Kp), dtype=torch.long)
    lens = torch.zeros((N, Kp), dtype=torch.long)
    last = torch.zeros((N, Kp), dtype=torch.long)
    isp = torch.zeros((N, Kp, Kp), dtype=torch.bool)
    nb = torch.zeros((N, Kp))
    b = torch.zeros((N, Kp))
    ext = torch.zeros((N, Kp, V))
    nonext = torch.zeros((N, V))
    blank = torch.zeros((N,))
    for n, e in enumerate(case["elems"]):
        for k, p in enumerate(e["prefixes"]):
            for t, v in enumerate(p):
                y_prev[t, n, k] = v
            lens[n, k] = len(p)
            last[n, k] = p[-1] if p else e["junk_last"]
            nb[n, k] = e["nb"][k] / 16
            b[n, k] = e["b"][k] / 16
            for v in range(V):
                ext[n, k, v] = e["ext"][k][v] / 8
            for k2, p2 in enumerate(e["prefixes"]):
                isp[n, k, k2] = _is_prefix(p, p2)
        for v in range(V):
            nonext[n, v] = e["nonext"][v] / 8
        blank[n] = e["blank"] / 8
    (y_next, y_next_last, y_next_lens, (nb_next, b_next), next_isp, next_src, next_nonext) = ctc_prefix_search_advance(
        (ext, nonext, blank), W, (nb, b), y_prev, last, lens, isp)
    require(list(y_next.shape) == [S + 1, N, W] and list(y_next_lens.shape) == [N, W] and list(nb_next.shape) == [N, W]
            and list(b_next.shape) == [N, W] and list(next_isp.shape) == [N, W, W] and list(next_src.shape) == [N, W]
            and list(next_nonext.shape) == [N, W] and list(y_next_last.shape) == [N, W], "result shapes", list(y_next.shape), [S + 1, N, W])
    cl = set()
    for n, e in enumerate(case["elems"]):
        ps = [tuple(p) for p in e["prefixes"]]
        cand = {}
        merged = False
        for k, p in enumerate(ps):
            c = cand.setdefault(p, [0.0, 0.0])
            c[1] += (e["nb"][k] + e["b"][k]) / 16 * e["blank"] / 8
            if p:
                c[0] += e["nb"][k] / 16 * e["nonext"][p[-1]] / 8
            for v in range(V):
                m = (e["b"][k] if (p and p[-1] == v) else e["nb"][k] + e["b"][k]) / 16 * e["ext"][k][v] / 8
                q = p + (v,)
                if q in ps:
                    merged = True
                cand.setdefault(q, [0.0, 0.0])[0] += m
        totals = sorted((x + y for x, y in cand.values()), reverse=True)
        m_valid = min(W, len(cand))
        got_tot = [float(nb_next[n, k] + b_next[n, k]) for k in range(W)]
        require(not any(math.isnan(t) for t in got_tot), "NaN mass", got_tot, "no NaN")
        require(got_tot[:m_valid] == totals[:m_valid], "element %d: total masses are not the best candidates of the step, best first" % n,
                got_tot, totals[:m_valid])
        require(all(t == NEG_INF for t in got_tot[m_valid:]), "element %d: slots beyond the legitimate candidates must carry -inf" % n,
                got_tot[m_valid:], "-inf")
        seen = []
        for k in range(m_valid):
            L = int(y_next_lens[n, k])
            require(0 <= L <= S + 1, "length out of range", L, S + 1)
            p = tuple(int(v) for v in y_next[:L, n, k])
            require(p in cand, "element %d slot %d: %s is not a candidate of the step" % (n, k, list(p)), list(p), sorted(map(list, cand)))
            require(p not in seen, "element %d: prefix %s returned twice" % (n, list(p)), list(p), None)
            seen.append(p)
            require([float(nb_next[n, k]), float(b_next[n, k])] == cand[p], "element %d: (non-blank, blank) mass of %s" % (n, list(p)),
                    [float(nb_next[n, k]), float(b_next[n, k])], cand[p])
            s = int(next_src[n, k])
            require(0 <= s < Kp, "next_src out of range", s, Kp)
            if bool(next_nonext[n, k]):
                require(ps[s] == p, "slot marked non-extending differs from its source", list(p), list(ps[s]))
            else:
                require(p[:-1] == ps[s] and len(p) == len(ps[s]) + 1, "slot marked extending is not source + one token", list(p), list(ps[s]))
            if p:
                require(int(y_next_last[n, k]) == p[-1], "y_next_last", int(y_next_last[n, k]), p[-1])
        for k in range(m_valid):
            for k2 in range(m_valid):
                require(bool(next_isp[n, k, k2]) == _is_prefix(seen[k], seen[k2]), "element %d: next_is_prefix[%d,%d]" % (n, k, k2),
                        bool(next_isp[n, k, k2]), {"k": list(seen[k]), "k'": list(seen[k2])})
        if merged:
            cl.add("merge")
        if W > len(cand):
            cl.add("width_beyond_candidates")
        if W < len(cand):
            cl.add("prunes")
    cl.add("batch_%d" % N)
    return Info(nontrivial="merge" in cl or "width_beyond_candidates" in cl, classes=sorted(cl))
