"""C05 CTC prefix search reports true prefix mass, never more, never NaN."""
from __future__ import annotations

import math

from hypothesis import strategies as st

from ..core import Info, close, require, subcheck
from .. import declm
from ..oracles import c05_ctc as ref

NEG_INF = float("-inf")
TINY = 1e-30  # float32 results may underflow to zero below this; no positivity claims are made there


# ------------------------------------------------------------------------- running the library


def run_search(case, elems=None):
    """Call the real CTCPrefixSearch on the whole batch (or on the listed elements' own valid frames)."""
    import torch
    from pydrobert.torch.modules import CTCPrefixSearch

    T, V, N = case["T"], case["V"], case["N"]
    fusion, beta = case["fusion"], case["beta_q"] / 4
    lm = declm.HashLM(case["lm"]) if fusion != "none" else None
    search = CTCPrefixSearch(case["width"], beta, lm, valid_mixture=(fusion == "valid"))
    logits = (torch.tensor(case["logits"], dtype=torch.float32) / 4).view(T, N, V + 1)
    lens = case["lens"]
    if elems is None:
        lens_t = None if lens is None else torch.tensor(lens, dtype=torch.long)
        init = {"cond": torch.tensor(case["conds"], dtype=torch.long)} if lm is not None else None
        if init is None and case.get("omit_state", True):
            return search(logits, lens_t)
        return search(logits, lens_t, init if init is not None else dict())
    out = []
    for n in elems:
        L = T if lens is None else lens[n]
        lg = logits[:L, n:n + 1]
        init = {"cond": torch.tensor([case["conds"][n]], dtype=torch.long)} if lm is not None else dict()
        out.append(search(lg, torch.tensor([L]), init))
    return out


def slots_of(y, y_lens, probs, n, width):
    S = y.size(0)
    out = []
    for k in range(width):
        p = float(probs[n, k])
        L = int(y_lens[n, k])
        toks = tuple(int(v) for v in y[: max(0, min(L, S)), n, k])
        out.append((toks, L, p))
    return out


# ------------------------------------------------------------------------------- the oracle


def element_frames(case, n):
    L = case["T"] if case["lens"] is None else case["lens"][n]
    return [ref.softmax([v / 4 for v in case["logits"][t][n]]) for t in range(L)]


def element_ext(case, n):
    fusion, beta = case["fusion"], case["beta_q"] / 4
    if fusion == "none":
        return ref.make_ext("none", 0.0, None)
    spec, cond = case["lm"], case["conds"][n]
    cache = {}

    def lm_probs(prefix):
        if prefix not in cache:
            cache[prefix] = ref.softmax(declm.py_next_logits(spec, cond, prefix))
        return cache[prefix]

    return ref.make_ext(fusion, beta, lm_probs)


def check_element(case, n, slots, S, cl):
    V, W = case["V"], case["width"]
    frames = element_frames(case, n)
    L = len(frames)
    ext = element_ext(case, n)
    exact = ref.exact_masses(frames, V, ext)
    # float32: the valid mixture computes 1 - p(blank), which is only accurate to about 6e-8 absolutely per frame;
    # every other quantity is a product / sum of softmax outputs and keeps float32 relative accuracy
    atol = 1e-6 if (case["fusion"] == "valid" and case["beta_q"] > 0) else TINY
    beam, info = ref.beam_reference(frames, V, W, ext, tie_abs=atol)
    probs = [p for _, _, p in slots]
    require(not any(math.isnan(p) for p in probs), "element %d: a slot has NaN probability" % n, probs, "no NaN")
    for k in range(W - 1):
        require(probs[k] >= probs[k + 1], "element %d: probabilities are not non-increasing" % n, probs, "y_probs[k] >= y_probs[k+1]")
    positive = []
    seen_nonpos = False
    for k, (toks, Lk, p) in enumerate(slots):
        if p > 0.0:
            require(p < math.inf, "element %d slot %d: infinite probability" % (n, k), p, "<= 1")
            require(not seen_nonpos, "element %d: a real prefix sits behind an empty slot" % n, probs, "positive first")
            require(0 <= Lk <= min(L, S), "element %d slot %d: prefix longer than its input" % (n, k), Lk, L)
            require(all(0 <= v < V for v in toks), "element %d slot %d: blank or out-of-range label in a prefix" % (n, k), list(toks), V)
            positive.append((toks, p))
        else:
            require(p == 0.0 or p == NEG_INF, "element %d slot %d: an empty slot must carry 0 or -inf" % (n, k), p, "0 or -inf")
            seen_nonpos = True
    pre = [t for t, _ in positive]
    require(len(set(pre)) == len(pre), "element %d: a prefix with positive mass occurs twice" % n, [list(t) for t in pre], "distinct")
    for toks, p in positive:
        ex = exact.get(toks, 0.0)
        require(p <= ex * (1 + 1e-4) + atol, "element %d: reported mass of %s exceeds the exact total over alignments" % (n, list(toks)),
                p, ex)
    got = dict(positive)
    if not info["pruned"]:
        # nothing had to be pruned: the exact mass of every prefix
        cl.add("never_pruned")
        for toks, ex in exact.items():
            if ex > 2 * atol:
                require(toks in got, "element %d: unpruned search misses prefix %s" % (n, list(toks)), sorted(map(list, got)), ex)
        for toks, p in positive:
            require(close(p, exact.get(toks, 0.0), rel=2e-5, abs_=atol), "element %d: mass of %s != exact total over alignments" % (n, list(toks)),
                    p, exact.get(toks, 0.0))
    elif not info["ambiguous"]:
        cl.add("pruned_unambiguous")
        exp = {l: m for l, m in beam if m > 0.0}
        for toks, m in exp.items():
            if m > 2 * atol:
                require(toks in got, "element %d: prefix %s kept by the width-%d recursion is missing" % (n, list(toks), W),
                        sorted(map(list, got)), sorted(map(list, exp)))
        for toks, p in positive:
            if p <= 2 * atol:
                continue
            require(toks in exp, "element %d: prefix %s is not kept by the width-%d recursion" % (n, list(toks), W),
                    sorted(map(list, got)), sorted(map(list, exp)))
            require(close(p, exp[toks], rel=1e-4, abs_=atol), "element %d: mass of %s != mass assigned by the width-%d recursion" % (n, list(toks), W),
                    p, exp[toks])
    else:
        cl.add("pruned_near_tie")
    if info["merge"]:
        cl.add("merge_event")
    if info["width_exceeds_live"]:
        cl.add("width_exceeds_live_prefixes")
    if W > info["max_live"] and L > 0:
        cl.add("width_beyond_all_steps")
    if any(p == 0.0 for p in probs):
        cl.add("zero_mass_slot")
    if any(p == NEG_INF for p in probs):
        cl.add("neg_inf_slot")
    return positive


# ------------------------------------------------------------------------------ strategies


def reachable(V, T):
    return sum(V ** l for l in range(T + 1))


def _search_cases(tier, width_mode="any", fusion_mode="any"):
    maxT = 4 if tier == "quick" else 5

    @st.composite
    def _s(draw):
        V = draw(st.sampled_from([2, 1, 3]))
        T = draw(st.sampled_from([3, 2, 4, 1, 0] + ([5] if maxT >= 5 else [])))
        N = draw(st.sampled_from([2, 1, 3]))
        kind = draw(st.sampled_from(["generic", "dominant", "identical_frames", "tiny_prob", "generic"]))
        frame = st.lists(st.integers(-12, 12), min_size=V + 1, max_size=V + 1)
        logits = [[list(draw(frame)) for _ in range(N)] for _ in range(T)]
        if kind == "dominant" and T:
            v = draw(st.integers(0, V))
            for t in range(T):
                for n in range(N):
                    logits[t][n][v] = 12
        if kind == "identical_frames" and T >= 2:
            t0 = draw(st.integers(0, T - 2))
            logits[t0 + 1] = [list(r) for r in logits[t0]]
        if kind == "tiny_prob" and T:
            t0, n0, v0 = draw(st.integers(0, T - 1)), draw(st.integers(0, N - 1)), draw(st.integers(0, V))
            logits[t0][n0][v0] = -120  # logit -30: probability about 1e-13, not zero
        lens = draw(st.one_of(st.none(), st.lists(st.integers(0, T), min_size=N, max_size=N)))
        R = reachable(V, T)
        if width_mode == "wide":
            width = draw(st.sampled_from([R, R + 1, R + 7, 2 * R + 3, max(2, R // 2)]))
        else:
            width = draw(st.sampled_from([2, 1, 3, 4, R, R + 5, 2 * R + 3, max(1, R // 2)]))
        fm = fusion_mode
        if fm == "any":
            fm = draw(st.sampled_from(["none", "none", "shallow", "valid"]))
        elif fm == "lm":
            fm = draw(st.sampled_from(["shallow", "valid"]))
        case = {"T": T, "V": V, "N": N, "logits": logits, "lens": lens, "width": width, "fusion": fm, "kind": kind,
                "beta_q": 0, "lm": None, "conds": None}
        if fm != "none":
            spec = draw(declm.lm_specs(V, V, max_cond=2, lo=-8, hi=8))
            case["lm"] = spec
            case["conds"] = draw(st.lists(st.integers(0, len(spec["cond"]) - 1), min_size=N, max_size=N))
            case["beta_q"] = draw(st.sampled_from([2, 1, 4, 0] if fusion_mode != "lm" else [2, 1, 4, 3]))
        else:
            case["beta_q"] = draw(st.sampled_from([1, 0, 4]))  # beta without a model must change nothing
            case["omit_state"] = draw(st.booleans())
        return case

    return _s()


# ------------------------------------------------------------------------------- sub-checks


def _search_check(case):
    T, V, N, W = case["T"], case["V"], case["N"], case["width"]
    y, y_lens, probs = run_search(case)
    require(y.dim() == 3 and list(y.shape[1:]) == [N, W] and y.size(0) <= T, "shape of y", list(y.shape), ["<=%d" % T, N, W])
    require(list(y_lens.shape) == [N, W] and list(probs.shape) == [N, W], "shapes of y_lens / y_probs",
            [list(y_lens.shape), list(probs.shape)], [N, W])
    cl = set()
    S = y.size(0)
    per_elem = []
    for n in range(N):
        slots = slots_of(y, y_lens, probs, n, W)
        per_elem.append((slots, check_element(case, n, slots, S, cl)))
    # an element's result equals that of searching its own valid frames alone
    if N >= 2 or case["lens"] is not None:
        solo = run_search(case, elems=list(range(N)))
        for n, (ys, ls, ps) in enumerate(solo):
            sslots = slots_of(ys, ls, ps, 0, W)
            spos = [(t, p) for t, _, p in sslots if p > 0.0]
            bpos = per_elem[n][1]
            pa, pb = [p for _, p in bpos], [p for _, p in spos]
            require(len(pa) == len(pb) and all(close(a, b, rel=1e-5, abs_=TINY) for a, b in zip(pa, pb)),
                    "element %d: batched and solo searches report different masses" % n, pa, pb)
            for i, (t, p) in enumerate(bpos):
                others = [q for j, q in enumerate(pa) if j != i] + [q for j, q in enumerate(pb) if j != i]
                if all(abs(p - q) > 1e-4 * max(p, q) for q in others):
                    require(spos[i][0] == t, "element %d: batched and solo searches disagree on slot %d" % (n, i),
                            list(t), list(spos[i][0]))
    lens = case["lens"]
    if lens is not None and len(set(lens)) >= 2:
        cl.add("mixed_lengths")
    if lens is not None and 0 in lens:
        cl.add("zero_length_element")
    if lens is None:
        cl.add("lens_unset")
    if T == 0:
        cl.add("T_0")
    cl.add("fusion_" + case["fusion"])
    if case["fusion"] != "none" and case["beta_q"] > 0:
        cl.add("fusion_active")
        if case["lm"]["M"] >= 2:
            cl.add("stateful_fused_lm")
    cl.add("logits_" + case["kind"])
    nontrivial = bool({"width_exceeds_live_prefixes", "merge_event", "mixed_lengths", "fusion_active"} & cl)
    return Info(nontrivial=nontrivial, classes=sorted(cl))


subcheck("C05", "search", lambda tier: _search_cases(tier), 1200, 30000,
         doc="generated logits on a k/4 grid (classes generic / dominant label / identical frames / one ~1e-13 probability), T 0..4|5, "
             "V 1..3 (+blank), N 1..3, lens unset or mixed incl. 0, widths 1..far beyond, fusion none/shallow/valid mixture with a "
             "HashLM; oracle = complete alignment enumeration (exact mass) + dictionary prefix-beam recursion of the same width; "
             "batched vs solo",
         required_classes=["width_exceeds_live_prefixes", "merge_event", "mixed_lengths", "fusion_active", "never_pruned",
                           "pruned_unambiguous", "zero_length_element", "logits_tiny_prob"])(_search_check)

subcheck("C05", "wide", lambda tier: _search_cases(tier, width_mode="wide", fusion_mode="none"), 800, 20000,
         doc="widths from the number of reachable prefixes to far beyond it, no fusion: exact mass for every prefix, empty slots "
             "carry 0/-inf behind the real ones, no NaN, no duplicates",
         required_classes=["width_exceeds_live_prefixes", "width_beyond_all_steps", "never_pruned", "neg_inf_slot"])(_search_check)

subcheck("C05", "fused", lambda tier: _search_cases(tier, fusion_mode="lm"), 800, 20000,
         doc="shallow fusion and valid mixture with beta in {0.25, 0.5, 0.75, 1} and a HashLM whose state lives only in prev "
             "(extract_by_src / mix_by_mask must follow the surviving prefixes): same oracles with the fused extension scores",
         required_classes=["fusion_active", "stateful_fused_lm", "fusion_shallow", "fusion_valid", "pruned_unambiguous",
                           "width_exceeds_live_prefixes"])(_search_check)
