"""C05 CTC prefix search reports true prefix mass, never more, never NaN."""
from __future__ import annotations

import math

from hypothesis import strategies as st

from ..core import Info, close, require, subcheck
from .. import declm
from .. import declayout as dl
from ..oracles import c05_ctc as ref

NEG_INF = float("-inf")
TINY = 1e-30  # float32 results may underflow to zero below this; no positivity claims are made there


# ------------------------------------------------------------------------- running the library


def build_search(case):
    from pydrobert.torch.modules import CTCPrefixSearch

    fusion, beta = case["fusion"], case["beta_q"] / 4
    lm = declm.make_lm(case["lm"]) if fusion != "none" else None
    return CTCPrefixSearch(case["width"], beta, lm, valid_mixture=(fusion == "valid"))


def run_search(case, elems=None, search=None):
    """Call the real CTCPrefixSearch on the whole batch (or on the listed elements' own valid frames).
    `search` = an existing module to use again (call-pattern classes); otherwise a fresh one per call of this function."""
    import torch

    T, V, N = case["T"], case["V"], case["N"]
    if search is None:
        search = build_search(case)
    has_lm = case["fusion"] != "none"
    dtype = torch.float64 if case.get("dtype") == "float64" else torch.float32
    logits = (torch.tensor(case["logits"], dtype=dtype) / 4).view(T, N, V + 1)
    lens = case["lens"]
    if elems is None:
        fill = case.get("past_fill")
        if fill is not None and lens is not None:
            # frames past an element's length are documented as not valid: whatever batching code left there
            for n in range(N):
                logits[lens[n]:, n] = float(fill)
        logits = dl.relayout(logits, case.get("layout", "contiguous"))
        if lens is None:
            lens_t = None
        else:
            lens_t = torch.tensor(lens, dtype=torch.int32 if case.get("lens_dtype") == "int32" else torch.long)
            lens_t = dl.relayout(lens_t, case.get("lens_layout", "contiguous"))
        init = declm.initial_state(case["lm"], case["conds"]) if has_lm else None
        if init is None and case.get("omit_state", True):
            return search(logits, lens_t)
        return search(logits, lens_t, init if init is not None else dict())
    out = []
    for n in elems:
        L = T if lens is None else lens[n]
        lg = logits[:L, n:n + 1]
        init = declm.initial_state(case["lm"], [case["conds"][n]]) if has_lm else dict()
        out.append(search(lg, torch.tensor([L]), init))
    return out


def slots_of(y, y_lens, probs, n, width):
    S = y.size(0)
    out = []
    pl, ll = probs[n].tolist(), y_lens[n].tolist()
    for k in range(width):
        p = float(pl[k])
        L = int(ll[k])
        toks = tuple(y[: max(0, min(L, S)), n, k].tolist()) if p > 0.0 else ()
        out.append((toks, L, p))
    return out


# ------------------------------------------------------------------------------- the oracle


def element_frames(case, n):
    L = case["T"] if case["lens"] is None else case["lens"][n]
    return [ref.softmax([v / 4 for v in case["logits"][t][n]]) for t in range(L)]


def element_ext(case, n):
    fusion, beta = case["fusion"], case["beta_q"] / 4
    if fusion == "none":
        return ref.make_ext("none", 0.0, None)
    spec, cond = case["lm"], case["conds"][n]
    cache = {}

    def lm_probs(prefix):
        if prefix not in cache:
            cache[prefix] = ref.softmax(declm.py_next_logits(spec, cond, prefix))
        return cache[prefix]

    return ref.make_ext(fusion, beta, lm_probs)


ENUM_LIMIT = 20000  # alignments enumerated per element; beyond that only the width-W recursion is the oracle


def check_element(case, n, slots, S, cl, enum_limit=ENUM_LIMIT):
    V, W = case["V"], case["width"]
    frames = element_frames(case, n)
    L = len(frames)
    ext = element_ext(case, n)
    enumerate_exact = (V + 1) ** L <= enum_limit
    exact = ref.exact_masses(frames, V, ext) if enumerate_exact else None
    # float32: the valid mixture computes 1 - p(blank), which is only accurate to about 6e-8 absolutely per frame;
    # every other quantity is a product / sum of softmax outputs and keeps float32 relative accuracy
    atol = 1e-6 if (case["fusion"] == "valid" and case["beta_q"] > 0) else TINY
    # rounding accumulates over the frames (a few float32 operations per frame): the relative tolerances and the
    # near-tie threshold of the reference grow with the number of frames (unchanged for the short inputs)
    ulp = 8 * L * 2.0 ** -24
    rel_exact, rel_pruned, tie_rel = max(2e-5, ulp), max(1e-4, ulp), max(1e-6, 4 * ulp)
    beam, info = ref.beam_reference(frames, V, W, ext, tie_rel=tie_rel, tie_abs=atol)
    if exact is None:
        cl.add("no_enumeration")
        if not info["pruned"]:
            # without pruning the recursion is the exact dynamic programme over alignments
            exact = {l: m for l, m in beam}
    probs = [p for _, _, p in slots]
    require(not any(math.isnan(p) for p in probs), "element %d: a slot has NaN probability" % n, probs, "no NaN")
    for k in range(W - 1):
        require(probs[k] >= probs[k + 1], "element %d: probabilities are not non-increasing" % n, probs, "y_probs[k] >= y_probs[k+1]")
    positive = []
    seen_nonpos = False
    for k, (toks, Lk, p) in enumerate(slots):
        if p > 0.0:
            require(p < math.inf, "element %d slot %d: infinite probability" % (n, k), p, "<= 1")
            require(not seen_nonpos, "element %d: a real prefix sits behind an empty slot" % n, probs, "positive first")
            require(0 <= Lk <= min(L, S), "element %d slot %d: prefix longer than its input" % (n, k), Lk, L)
            require(all(0 <= v < V for v in toks), "element %d slot %d: blank or out-of-range label in a prefix" % (n, k), list(toks), V)
            positive.append((toks, p))
        else:
            require(p == 0.0 or p == NEG_INF, "element %d slot %d: an empty slot must carry 0 or -inf" % (n, k), p, "0 or -inf")
            seen_nonpos = True
    pre = [t for t, _ in positive]
    require(len(set(pre)) == len(pre), "element %d: a prefix with positive mass occurs twice" % n, [list(t) for t in pre], "distinct")
    if exact is not None:
        for toks, p in positive:
            ex = exact.get(toks, 0.0)
            require(p <= ex * (1 + max(1e-4, ulp)) + atol, "element %d: reported mass of %s exceeds the exact total over alignments" % (n, list(toks)),
                    p, ex)
    got = dict(positive)
    if not info["pruned"]:
        # nothing had to be pruned: the exact mass of every prefix
        cl.add("never_pruned")
        for toks, ex in exact.items():
            if ex > 2 * atol:
                require(toks in got, "element %d: unpruned search misses prefix %s" % (n, list(toks)), sorted(map(list, got)), ex)
        for toks, p in positive:
            require(close(p, exact.get(toks, 0.0), rel=rel_exact, abs_=atol), "element %d: mass of %s != exact total over alignments" % (n, list(toks)),
                    p, exact.get(toks, 0.0))
    elif not info["ambiguous"]:
        cl.add("pruned_unambiguous")
        exp = {l: m for l, m in beam if m > 0.0}
        for toks, m in exp.items():
            if m > 2 * atol:
                require(toks in got, "element %d: prefix %s kept by the width-%d recursion is missing" % (n, list(toks), W),
                        sorted(map(list, got)), sorted(map(list, exp)))
        for toks, p in positive:
            if p <= 2 * atol:
                continue
            require(toks in exp, "element %d: prefix %s is not kept by the width-%d recursion" % (n, list(toks), W),
                    sorted(map(list, got)), sorted(map(list, exp)))
            require(close(p, exp[toks], rel=rel_pruned, abs_=atol), "element %d: mass of %s != mass assigned by the width-%d recursion" % (n, list(toks), W),
                    p, exp[toks])
    else:
        cl.add("pruned_near_tie")
    if info["merge"]:
        cl.add("merge_event")
    if info["width_exceeds_live"]:
        cl.add("width_exceeds_live_prefixes")
    if W > info["max_live"] and L > 0:
        cl.add("width_beyond_all_steps")
    if L >= 5:
        cl.add("input_of_5_or_more_frames")
    if any(p == 0.0 for p in probs):
        cl.add("zero_mass_slot")
    if any(p == NEG_INF for p in probs):
        cl.add("neg_inf_slot")
    return positive


# ------------------------------------------------------------------------------ strategies


def reachable(V, T):
    return sum(V ** l for l in range(T + 1))


def _search_cases(tier, width_mode="any", fusion_mode="any"):
    # the alignment enumeration costs (V+1)^T: longer inputs for smaller vocabularies
    maxT = {1: 6, 2: 5, 3: 4} if tier == "quick" else {1: 7, 2: 6, 3: 5}

    @st.composite
    def _s(draw):
        V = draw(st.sampled_from([2, 1, 3]))
        T = draw(st.sampled_from([3, 5, 4, 2, 1, 0, 6, 7]))
        T = min(T, maxT[V])
        N = draw(st.sampled_from([2, 1, 3]))
        kind = draw(st.sampled_from(["generic", "dominant", "identical_frames", "tiny_prob", "zero_prob", "generic", "prob_one",
                                     "tied_labels"]))
        frame = st.lists(st.integers(-12, 12), min_size=V + 1, max_size=V + 1)
        logits = [[list(draw(frame)) for _ in range(N)] for _ in range(T)]
        if kind == "dominant" and T:
            v = draw(st.integers(0, V))
            for t in range(T):
                for n in range(N):
                    logits[t][n][v] = 12
        if kind == "identical_frames" and T >= 2:
            t0 = draw(st.integers(0, T - 2))
            logits[t0 + 1] = [list(r) for r in logits[t0]]
        if kind == "tiny_prob" and T:
            t0, n0, v0 = draw(st.integers(0, T - 1)), draw(st.integers(0, N - 1)), draw(st.integers(0, V))
            logits[t0][n0][v0] = -120  # logit -30: probability about 1e-13, not zero
        if kind == "zero_prob" and T:
            # logit -120: exp(-120) is below the smallest float32, so the label's probability is exactly zero there
            # (about 1e-52 for the float64 oracle, far below the threshold under which nothing is claimed)
            for _ in range(draw(st.sampled_from([1, 2]))):
                t0, n0, v0 = draw(st.integers(0, T - 1)), draw(st.integers(0, N - 1)), draw(st.integers(0, V))
                logits[t0][n0][v0] = -480
        if kind == "prob_one" and T:
            # logit +-1e6: in float32 and in float64 alike the label's probability is exactly 1 (0 for every other label)
            for _ in range(draw(st.sampled_from([1, 2]))):
                t0, n0, v0 = draw(st.integers(0, T - 1)), draw(st.integers(0, N - 1)), draw(st.integers(0, V))
                logits[t0][n0][v0] = draw(st.sampled_from([4000000, -4000000, 4000000]))
        if kind == "tied_labels" and V >= 2:
            # two labels with the same score in every frame: prefixes that differ by swapping them have exactly equal mass
            a, b = draw(st.sampled_from([(0, 1), (0, V - 1), (V - 1, V - 2)]))
            for t in range(T):
                for n in range(N):
                    logits[t][n][b] = logits[t][n][a]
        lens = draw(st.one_of(st.lists(st.integers(0, T), min_size=N, max_size=N), st.none()))
        R = reachable(V, T)
        if width_mode == "wide":
            width = draw(st.sampled_from([R, R + 1, R + 7, 2 * R + 3, max(2, R // 2)]))
        else:
            width = draw(st.sampled_from([2, 1, 3, 4, R, R + 5, 2 * R + 3, max(1, R // 2)]))
        fm = fusion_mode
        if fm == "any":
            fm = draw(st.sampled_from(["none", "none", "shallow", "valid"]))
        elif fm == "lm":
            fm = draw(st.sampled_from(["shallow", "valid"]))
        case = {"T": T, "V": V, "N": N, "logits": logits, "lens": lens, "width": width, "fusion": fm, "kind": kind,
                "beta_q": 0, "lm": None, "conds": None}
        if fm != "none":
            # (one fused model in five gives some tokens probability exactly zero in some states)
            spec = draw(declm.lm_specs(V, V, max_cond=2, lo=-8, hi=8, zero_prob=draw(st.sampled_from([False] * 4 + [True]))))
            if draw(st.integers(0, 3)) == 0:
                # the library's own MixableShallowFusionLanguageModel over two stateful models as the search's model
                s2 = draw(declm.lm_specs(V, V, max_cond=len(spec["cond"]), min_cond=len(spec["cond"]), lo=-8, hi=8))
                spec = {"V": V, "M": max(spec["M"], s2["M"]), "cond": spec["cond"],
                        "fusion": [spec, s2, draw(st.sampled_from([0.5, 1.0, 0.25, -0.5, 2.0]))]}
            case["lm"] = spec
            case["conds"] = draw(st.lists(st.integers(0, len(spec["cond"]) - 1), min_size=N, max_size=N))
            case["beta_q"] = draw(st.sampled_from([2, 1, 4, 0] if fusion_mode != "lm" else [2, 1, 4, 3]))
        else:
            case["beta_q"] = draw(st.sampled_from([1, 0, 4]))  # beta without a model must change nothing
            case["omit_state"] = draw(st.booleans())
        # memory layout / dtype of the tensor arguments (same values)
        case["layout"] = draw(st.sampled_from(dl.LAYOUT_CHOICES))
        case["dtype"] = draw(st.sampled_from(["float32", "float32", "float64"]))
        if lens is not None:
            case["lens_layout"] = draw(st.sampled_from(["contiguous", "offset", "strided"]))
            case["lens_dtype"] = draw(st.sampled_from(["int64", "int64", "int32"]))
            # what sits in the frames past an element's length
            case["past_fill"] = draw(st.sampled_from([None, "nan", "-inf", "inf", 1e30, -1e30, "nan"]))
        # call pattern: a module per call / one module (and one fused model object) for the batched call, every solo call and
        # the batched call again / the same with train()-eval() switches in between
        case["pattern"] = draw(st.sampled_from(["fresh", "shared", "shared_modes"]))
        return case

    return _s()


# ------------------------------------------------------------------------------- sub-checks


def _same_output(a, b, S_lens):
    """Bitwise-equal results in everything the documentation defines (tokens only inside the reported lengths)."""
    import torch

    (ya, la, pa), (yb, lb, pb) = a, b
    if ya.shape != yb.shape or not torch.equal(la, lb):
        return False
    if not torch.equal(pa.nan_to_num(nan=-7.0), pb.nan_to_num(nan=-7.0)):
        return False
    mask = torch.arange(ya.size(0)).view(-1, 1, 1) < la.unsqueeze(0)
    return bool(((ya == yb) | ~mask).all())


def _search_check(case, enum_elems=None, solo_elems=None):
    T, V, N, W = case["T"], case["V"], case["N"], case["width"]
    cl = set()
    pattern = case.get("pattern", "fresh")
    shared = build_search(case) if pattern != "fresh" else None
    toggle = [0]

    def run(elems=None):
        if pattern == "shared_modes":
            toggle[0] += 1
            shared.train(toggle[0] % 2 == 0)
        return run_search(case, elems, search=shared)

    y, y_lens, probs = first = run()
    require(y.dim() == 3 and list(y.shape[1:]) == [N, W] and y.size(0) <= T, "shape of y", list(y.shape), ["<=%d" % T, N, W])
    require(list(y_lens.shape) == [N, W] and list(probs.shape) == [N, W], "shapes of y_lens / y_probs",
            [list(y_lens.shape), list(probs.shape)], [N, W])
    S = y.size(0)
    per_elem = {}
    for n in (range(N) if enum_elems is None else enum_elems):
        slots = slots_of(y, y_lens, probs, n, W)
        per_elem[n] = (slots, check_element(case, n, slots, S, cl))
    # an element's result equals that of searching its own valid frames alone
    if N >= 2 or case["lens"] is not None:
        which = sorted(per_elem) if solo_elems is None else [n for n in solo_elems if n in per_elem]
        solo = run(elems=which)
        for n, (ys, ls, ps) in zip(which, solo):
            sslots = slots_of(ys, ls, ps, 0, W)
            spos = [(t, p) for t, _, p in sslots if p > 0.0]
            bpos = per_elem[n][1]
            pa, pb = [p for _, p in bpos], [p for _, p in spos]
            require(len(pa) == len(pb) and all(close(a, b, rel=1e-5, abs_=TINY) for a, b in zip(pa, pb)),
                    "element %d: batched and solo searches report different masses" % n, pa, pb)
            for i, (t, p) in enumerate(bpos):
                others = [q for j, q in enumerate(pa) if j != i] + [q for j, q in enumerate(pb) if j != i]
                if all(abs(p - q) > 1e-4 * max(p, q) for q in others):
                    require(spos[i][0] == t, "element %d: batched and solo searches disagree on slot %d" % (n, i),
                            list(t), list(spos[i][0]))
    if shared is not None:
        cl.add("module_reused")
        if pattern == "shared_modes":
            cl.add("train_eval_toggled")
        again = run()
        require(_same_output(first, again, None), "the same call on the same module returns something else the second time",
                [t.tolist() for t in again[1:]], [t.tolist() for t in first[1:]])
    lens = case["lens"]
    if lens is not None and len(set(lens)) >= 2:
        cl.add("mixed_lengths")
    if lens is not None and 0 in lens:
        cl.add("zero_length_element")
    if lens is None:
        cl.add("lens_unset")
    if T == 0:
        cl.add("T_0")
    cl.add("fusion_" + case["fusion"])
    if case["fusion"] != "none" and case["beta_q"] > 0:
        cl.add("fusion_active")
        if case["lm"]["M"] >= 2:
            cl.add("stateful_fused_lm")
        if case["lm"].get("ninf") or ("fusion" in case["lm"] and case["lm"]["fusion"][0].get("ninf")):
            cl.add("fused_lm_zero_prob")
        if "fusion" in case["lm"] and case["lm"]["fusion"][0]["M"] >= 2 and case["lm"]["fusion"][1]["M"] >= 2:
            cl.add("library_fusion_model_both_stateful")
    cl.add("logits_" + case["kind"])
    if case.get("layout", "contiguous") != "contiguous":
        cl.add("layout_" + case["layout"])
    if lens is not None and case.get("lens_layout", "contiguous") != "contiguous":
        cl.add("lens_layout_" + case["lens_layout"])
    if lens is not None and case.get("lens_dtype") == "int32":
        cl.add("lens_int32")
    if case.get("dtype") == "float64":
        cl.add("float64_logits")
    if lens is not None and case.get("past_fill") is not None and any(l < T for l in lens):
        cl.add("garbage_past_length")
        if case["past_fill"] in ("nan", "-inf", "inf"):
            cl.add("non_finite_past_length")
    nontrivial = bool({"width_exceeds_live_prefixes", "merge_event", "mixed_lengths", "fusion_active"} & cl)
    return Info(nontrivial=nontrivial, classes=sorted(cl))


def _search_check_all(case):
    return _search_check(case)


subcheck("C05", "search", lambda tier: _search_cases(tier), 1200, 30000,
         doc="generated logits on a k/4 grid (classes generic / dominant label / identical frames / one ~1e-13 probability / exactly-zero float32 probability), T 0..4-6|5-7 "
             "(longer for smaller V), "
             "V 1..3 (+blank), N 1..3, lens unset or mixed incl. 0, widths 1..far beyond, fusion none/shallow/valid mixture with a "
             "HashLM; oracle = complete alignment enumeration (exact mass) + dictionary prefix-beam recursion of the same width; "
             "batched vs solo. Also: a logit of +-1e6 (probability exactly 1/0), two labels tied in every frame; logits as offset / "
             "column-slice / transposed / strided views and as float64, lens as offset / strided views and int32; NaN / +-inf / "
             "+-1e30 in the frames past each length; one module object for the batched call, the solo calls and the batched call "
             "again (identical), optionally with train()/eval() switches",
         required_classes=["width_exceeds_live_prefixes", "merge_event", "mixed_lengths", "fusion_active", "never_pruned",
                           "pruned_unambiguous", "zero_length_element", "logits_tiny_prob", "logits_zero_prob", "logits_prob_one",
                           "logits_tied_labels", "layout_offset", "layout_transposed", "layout_col_slice", "layout_strided",
                           "lens_layout_offset", "lens_layout_strided", "lens_int32", "float64_logits", "garbage_past_length",
                           "non_finite_past_length", "module_reused", "train_eval_toggled"])(_search_check_all)

subcheck("C05", "wide", lambda tier: _search_cases(tier, width_mode="wide", fusion_mode="none"), 800, 20000,
         doc="widths from the number of reachable prefixes to far beyond it, no fusion: exact mass for every prefix, empty slots "
             "carry 0/-inf behind the real ones, no NaN, no duplicates",
         required_classes=["width_exceeds_live_prefixes", "width_beyond_all_steps", "never_pruned", "neg_inf_slot",
                           "input_of_5_or_more_frames", "layout_offset", "layout_transposed", "non_finite_past_length",
                           "module_reused"])(_search_check_all)

subcheck("C05", "fused", lambda tier: _search_cases(tier, fusion_mode="lm"), 800, 20000,
         doc="shallow fusion and valid mixture with beta in {0.25, 0.5, 0.75, 1} and a HashLM whose state lives only in prev "
             "(extract_by_src / mix_by_mask must follow the surviving prefixes): same oracles with the fused extension scores; one "
             "fused model in five gives some tokens probability exactly zero; layouts / garbage past the lengths / module reuse as in `search`",
         required_classes=["fusion_active", "stateful_fused_lm", "fusion_shallow", "fusion_valid", "library_fusion_model_both_stateful", "pruned_unambiguous",
                           "width_exceeds_live_prefixes", "fused_lm_zero_prob", "layout_offset", "layout_transposed",
                           "non_finite_past_length", "module_reused", "train_eval_toggled", "float64_logits"])(_search_check_all)


# ------------------------------------------------------------------ the step function


JUNK_IDS = [-1, -5, 1 << 40, -(1 << 62), (1 << 63) - 1]
ADV_TENSORS = ["ext", "nonext", "blank", "nb", "b", "y", "last", "lens", "isp"]


def _advance_cases(tier):
    @st.composite
    def _s(draw):
        V = draw(st.sampled_from([2, 1, 3]))
        N = draw(st.sampled_from([1, 2]))
        Kp = draw(st.sampled_from([2, 3, 1, 4]))
        pref = st.lists(st.integers(0, V - 1), min_size=0, max_size=3).map(tuple)
        shared_ext = draw(st.sampled_from([False, False, True]))
        elems = []
        for _ in range(N):
            ps = draw(st.lists(pref, min_size=Kp, max_size=Kp, unique=True))
            # beams usually hold related prefixes: often make some a one-token extension of another
            if Kp >= 2 and draw(st.booleans()):
                base = ps[0]
                cand = tuple(base) + (draw(st.integers(0, V - 1)),)
                if len(cand) <= 3 and cand not in ps:
                    ps[1] = cand
            nb = [0 if not p else draw(st.integers(0, 8)) for p in ps]
            b = [draw(st.integers(0, 8)) for _ in ps]
            ext = [[draw(st.integers(1, 8)) for _ in range(V)] for _ in ps]
            if shared_ext:
                ext = [list(ext[0]) for _ in ps]
            nonext = [draw(st.integers(1, 8)) for _ in range(V)]
            blank = draw(st.integers(1, 8))
            junk_last = draw(st.integers(0, V - 1))
            elems.append({"prefixes": [list(p) for p in ps], "nb": nb, "b": b, "ext": ext, "nonext": nonext, "blank": blank,
                          "junk_last": junk_last})
        width = draw(st.integers(1, Kp * (V + 1) + 3))
        case = {"V": V, "N": N, "Kp": Kp, "elems": elems, "width": width, "extra_row": draw(st.booleans())}
        # memory layout of each of the nine tensor arguments; the extension scores as the stride-0 view the module itself passes
        lay = st.sampled_from(dl.LAYOUT_CHOICES)
        case["layouts"] = {k: draw(lay) for k in ADV_TENSORS}
        if shared_ext:
            case["layouts"]["ext"] = "expanded"
        # ids stored past a prefix's length and the "last token" of an empty prefix are documented as arbitrary
        case["junk"] = draw(st.sampled_from([None] + JUNK_IDS + JUNK_IDS))
        case["dtype"] = draw(st.sampled_from(["float32", "float32", "float64"]))
        # trailing beam slots that hold no prefix (what the step function itself appends when the width exceeds the
        # candidates): non-blank mass -inf, blank mass -inf or 0, length 0, anything in the token columns
        ninv = draw(st.sampled_from([0, 0, 1, 2]))
        if ninv:
            case["invalid"] = [draw(st.sampled_from(["-inf", "0"])) for _ in range(ninv)]
        return case

    return _s()


def _is_prefix(a, b):
    return len(a) <= len(b) and tuple(b[: len(a)]) == tuple(a)


def _advance_core(case):
    import torch
    from pydrobert.torch.functional import ctc_prefix_search_advance

    V, N, Kv, W = case["V"], case["N"], case["Kp"], case["width"]
    inval = case.get("invalid") or []
    Kp = Kv + len(inval)  # old beam width including the slots that hold no prefix
    lay = case.get("layouts", {})
    dtype = torch.float64 if case.get("dtype") == "float64" else torch.float32
    junk = case.get("junk")
    cl = set()
    S = max(len(p) for e in case["elems"] for p in e["prefixes"]) + (1 if case["extra_row"] else 0)
    y_prev = torch.zeros((S, N, Kp), dtype=torch.long)
    lens = torch.zeros((N, Kp), dtype=torch.long)
    last = torch.zeros((N, Kp), dtype=torch.long)
    isp = torch.zeros((N, Kp, Kp), dtype=torch.bool)
    nb = torch.zeros((N, Kp), dtype=dtype)
    b = torch.zeros((N, Kp), dtype=dtype)
    ext = torch.zeros((N, Kp, V), dtype=dtype)
    nonext = torch.zeros((N, V), dtype=dtype)
    blank = torch.zeros((N,), dtype=dtype)
    if junk is not None:
        y_prev.fill_(junk)
    for n, e in enumerate(case["elems"]):
        for k, p in enumerate(e["prefixes"]):
            if len(p):
                y_prev[: len(p), n, k] = torch.tensor(p, dtype=torch.long)
            if len(p) < S and junk is not None:
                cl.add("junk_past_prefix_length")
            lens[n, k] = len(p)
            last[n, k] = p[-1] if p else (e["junk_last"] if junk is None else junk)
            nb[n, k] = e["nb"][k] / 16
            b[n, k] = e["b"][k] / 16
            ext[n, k] = torch.tensor(e["ext"][k], dtype=dtype) / 8
            for k2, p2 in enumerate(e["prefixes"]):
                isp[n, k, k2] = _is_prefix(p, p2)
        for j, how in enumerate(inval):
            k = Kv + j
            nb[n, k] = NEG_INF
            b[n, k] = NEG_INF if how == "-inf" else 0.0
            ext[n, k] = torch.tensor(e["ext"][j % Kv], dtype=dtype) / 8
            if junk is not None:
                last[n, k] = junk
        nonext[n] = torch.tensor(e["nonext"], dtype=dtype) / 8
        blank[n] = e["blank"] / 8
    if inval:
        cl.add("slots_without_prefix_in_the_old_beam")
    if lay.get("ext") == "expanded" and not inval:
        ext_t = ext[:, :1].expand(N, Kp, V)
        cl.add("layout_expanded")
    else:
        ext_t = dl.relayout(ext, lay.get("ext", "contiguous") if lay.get("ext") != "expanded" else "contiguous")
    args = {"nonext": nonext, "blank": blank, "nb": nb, "b": b, "y": y_prev, "last": last, "lens": lens, "isp": isp}
    args = {k: dl.relayout(v, lay.get(k, "contiguous")) for k, v in args.items()}
    (y_next, y_next_last, y_next_lens, (nb_next, b_next), next_isp, next_src, next_nonext) = ctc_prefix_search_advance(
        (ext_t, args["nonext"], args["blank"]), W, (args["nb"], args["b"]), args["y"], args["last"], args["lens"], args["isp"])
    require(list(y_next.shape) == [S + 1, N, W] and list(y_next_lens.shape) == [N, W] and list(nb_next.shape) == [N, W]
            and list(b_next.shape) == [N, W] and list(next_isp.shape) == [N, W, W] and list(next_src.shape) == [N, W]
            and list(next_nonext.shape) == [N, W] and list(y_next_last.shape) == [N, W], "result shapes", list(y_next.shape), [S + 1, N, W])
    require(nb_next.dtype == dtype and b_next.dtype == dtype, "dtype of the returned masses", str(nb_next.dtype), str(dtype))
    nb_l, b_l, len_l = nb_next.tolist(), b_next.tolist(), y_next_lens.tolist()
    src_l, nonext_l, last_l = next_src.tolist(), next_nonext.tolist(), y_next_last.tolist()
    y_l = y_next.permute(1, 2, 0).tolist()
    for n, e in enumerate(case["elems"]):
        ps = [tuple(p) for p in e["prefixes"]]
        pset = set(ps)
        cand = {}
        merged = False
        for k, p in enumerate(ps):
            c = cand.setdefault(p, [0.0, 0.0])
            c[1] += (e["nb"][k] + e["b"][k]) / 16 * e["blank"] / 8
            if p:
                c[0] += e["nb"][k] / 16 * e["nonext"][p[-1]] / 8
            for v in range(V):
                m = (e["b"][k] if (p and p[-1] == v) else e["nb"][k] + e["b"][k]) / 16 * e["ext"][k][v] / 8
                q = p + (v,)
                if q in pset:
                    merged = True
                cand.setdefault(q, [0.0, 0.0])[0] += m
        totals = sorted((x + y for x, y in cand.values()), reverse=True)
        m_valid = min(W, len(cand))
        got_tot = [nb_l[n][k] + b_l[n][k] for k in range(W)]
        require(not any(math.isnan(t) for t in got_tot), "NaN mass", got_tot, "no NaN")
        require(got_tot[:m_valid] == totals[:m_valid], "element %d: total masses are not the best candidates of the step, best first" % n,
                got_tot, totals[:m_valid])
        require(all(t == NEG_INF for t in got_tot[m_valid:]), "element %d: slots beyond the legitimate candidates must carry -inf" % n,
                got_tot[m_valid:], "-inf")
        seen = []
        seen_set = set()
        for k in range(m_valid):
            L = int(len_l[n][k])
            require(0 <= L <= S + 1, "length out of range", L, S + 1)
            p = tuple(y_l[n][k][:L])
            require(p in cand, "element %d slot %d: %s is not a candidate of the step" % (n, k, list(p)), list(p),
                    sorted(map(list, cand)) if len(cand) <= 64 else len(cand))
            require(p not in seen_set, "element %d: prefix %s returned twice" % (n, list(p)), list(p), None)
            seen.append(p)
            seen_set.add(p)
            require([nb_l[n][k], b_l[n][k]] == cand[p], "element %d: (non-blank, blank) mass of %s" % (n, list(p)),
                    [nb_l[n][k], b_l[n][k]], cand[p])
            s = int(src_l[n][k])
            require(0 <= s < Kv, "next_src out of range (or a slot without prefix as source)", s, Kv)
            if bool(nonext_l[n][k]):
                require(ps[s] == p, "slot marked non-extending differs from its source", list(p), list(ps[s]))
            else:
                require(p[:-1] == ps[s] and len(p) == len(ps[s]) + 1, "slot marked extending is not source + one token", list(p), list(ps[s]))
            if p:
                require(int(last_l[n][k]) == p[-1], "y_next_last", int(last_l[n][k]), p[-1])
        # the prefix-relation matrix: every pair for small beams, else the first / last 16 rows and every 16th (sampled)
        rows = range(m_valid) if m_valid <= 48 else sorted(set(range(16)) | set(range(m_valid - 16, m_valid)) | set(range(0, m_valid, 16)))
        isp_l = next_isp[n].tolist()
        for k in rows:
            for k2 in range(m_valid):
                require(bool(isp_l[k][k2]) == _is_prefix(seen[k], seen[k2]), "element %d: next_is_prefix[%d,%d]" % (n, k, k2),
                        bool(isp_l[k][k2]), {"k": list(seen[k]), "k'": list(seen[k2])})
        if merged:
            cl.add("merge")
        if W > len(cand):
            cl.add("width_beyond_candidates")
        if W < len(cand):
            cl.add("prunes")
    cl.add("batch_%d" % N if N <= 2 else "batch_many")
    cl.update(dl.layout_classes(v for v in lay.values() if v != "expanded"))
    if case.get("dtype") == "float64":
        cl.add("float64_masses")
    return cl


@subcheck("C05", "advance", _advance_cases, 1500, 30000,
          doc="ctc_prefix_search_advance on a generated beam of distinct prefixes with dyadic blank / non-blank masses and dyadic frame "
              "scores (all arithmetic exact): the valid slots are the best candidates of one dictionary step (merge of an extension "
              "into an identical prefix included) with exactly their (non-blank, blank) masses; lengths, last tokens, sources and the "
              "prefix-relation matrix are consistent; slots beyond the candidates carry -inf. Each of the nine tensor arguments also as "
              "an offset / column-slice / transposed / strided / expanded view; out-of-range and huge ids past the prefix lengths and as "
              "the last token of an empty prefix; float64 masses; trailing old-beam slots that hold no prefix (-inf mass)",
          required_classes=["merge", "width_beyond_candidates", "prunes", "batch_2", "layout_offset", "layout_transposed",
                            "layout_col_slice", "layout_strided", "layout_expanded", "junk_past_prefix_length", "float64_masses",
                            "slots_without_prefix_in_the_old_beam"])
def _advance_check(case):
    cl = _advance_core(case)
    return Info(nontrivial="merge" in cl or "width_beyond_candidates" in cl, classes=sorted(cl))


# ---------------------------------------------------------------- sizes at implementation thresholds


def _advance_large_cases(tier):
    hi = 257 if tier == "quick" else 1025

    @st.composite
    def _s(draw):
        big = draw(st.sampled_from(["Kp", "V", "width", "N", "S"]))
        V, N, Kp, S = draw(st.sampled_from([2, 3, 1])), draw(st.sampled_from([1, 2])), draw(st.sampled_from([2, 3, 4, 1])), 3
        if big == "Kp":
            Kp = draw(dl.threshold_sizes(15, hi))
            V = draw(st.sampled_from([2, 3, 4]))
            width = draw(st.sampled_from([Kp, Kp - 1, Kp + 1, 2, Kp * (V + 1), Kp * (V + 1) + 3, 16, 17, 2 * Kp]))
        elif big == "V":
            V = draw(dl.threshold_sizes(15, hi))
            Kp = draw(st.sampled_from([2, 3, 1, 4]))
            width = draw(st.sampled_from([2, 1, V, V + 1, V + 2, Kp * (V + 1) + 1, 17]))
        elif big == "width":
            width = draw(dl.threshold_sizes(15, hi))
            V = draw(st.sampled_from([2, 3, 7]))
            Kp = draw(st.sampled_from([max(1, width // (V + 1)), width // (V + 1) + 2, max(1, width // 2), 5]))
        elif big == "N":
            N = draw(dl.threshold_sizes(15, hi))
            width = draw(st.integers(1, Kp * (V + 1) + 2))
        else:
            S = draw(dl.threshold_sizes(15, hi))
            width = draw(st.integers(1, Kp * (V + 1) + 2))
        lay = st.sampled_from(dl.LAYOUT_CHOICES)
        return {"big": big, "V": V, "N": N, "Kp": Kp, "S": S, "width": max(1, width), "seed": draw(st.integers(0, 2 ** 31 - 1)),
                "layouts": {k: draw(lay) for k in ADV_TENSORS}, "dtype": draw(st.sampled_from(["float32", "float64"])),
                "junk": draw(st.sampled_from([None, -1, 1 << 40])), "extra_row": draw(st.booleans())}

    return _s()


def expand_ctc_advance_case(c):
    """The full step-function case as a pure function of the small one (64-bit LCG streams)."""
    import itertools

    V, N, Kp, S = c["V"], c["N"], c["Kp"], c["S"]
    elems = []
    for n in range(N):
        seed = c["seed"] + 7 * n
        if c["big"] == "S":
            # a few long, related prefixes: a base sequence, its truncations and one-token variants
            base = dl.lcg_ints(seed, S, 0, V - 1)
            pool = [tuple(base), tuple(base[:-1]), tuple(base[:-1] + [(base[-1] + 1) % V]), tuple(base[:-2]), tuple(base[: S // 2])]
            ps = []
            for p in pool:
                if p not in ps and len(ps) < Kp:
                    ps.append(p)
            Kp_n = len(ps)
        else:
            # Kp distinct prefixes drawn from all prefixes up to the shortest sufficient length (dense: many are
            # one-token extensions of others, so extensions merge into existing prefixes)
            Lmax = 0
            while reachable(V, Lmax) < Kp + Kp // 2 + 1 and Lmax < 12:
                Lmax += 1
            allp = [()] + [p for l in range(1, Lmax + 1) for p in itertools.product(range(V), repeat=l)]
            keys = dl.lcg_ints(seed, len(allp), 0, 2 ** 30)
            order = sorted(range(len(allp)), key=lambda i: (keys[i], i))
            ps = [allp[i] for i in order[:Kp]]
            Kp_n = len(ps)
        if Kp_n < Kp:
            raise AssertionError("could not build %d distinct prefixes" % Kp)
        nb = dl.lcg_ints(seed + 1, Kp, 0, 8)
        nb = [0 if not p else x for p, x in zip(ps, nb)]
        b = dl.lcg_ints(seed + 2, Kp, 0, 8)
        e = dl.lcg_ints(seed + 3, Kp * V, 1, 8)
        ext = [e[k * V:(k + 1) * V] for k in range(Kp)]
        nonext = dl.lcg_ints(seed + 4, V, 1, 8)
        blank = dl.lcg_ints(seed + 5, 1, 1, 8)[0]
        elems.append({"prefixes": [list(p) for p in ps], "nb": nb, "b": b, "ext": ext, "nonext": nonext, "blank": blank,
                      "junk_last": 0})
    return {"V": V, "N": N, "Kp": Kp, "elems": elems, "width": c["width"], "extra_row": c["extra_row"], "layouts": c["layouts"],
            "junk": c["junk"], "dtype": c["dtype"]}


@subcheck("C05", "advance_large", _advance_large_cases, 300, 4000,
          doc="ctc_prefix_search_advance with ONE dimension at an implementation-threshold size (old width, V, width, N, or prefix "
              "length S in 15/16/17 ... 255/256/257; thorough ... 1023/1024/1025); beam, masses and frame scores expanded from a "
              "generated seed by a 64-bit LCG (pure function of the case); the same exact dictionary-step oracle (prefix-relation "
              "matrix checked on sampled rows when the beam has more than 48 valid slots)",
          required_classes=["big_Kp", "big_V", "big_width", "big_N", "big_S", "about_16", "about_64", "about_256", "merge", "prunes",
                            "width_beyond_candidates"])
def _advance_large_check(case):
    if case["big"] == "S":
        # the pool of related long prefixes has at most five members (fewer when V == 1)
        case = dict(case, Kp=min(case["Kp"], 5 if case["V"] > 1 else 3))
    full = expand_ctc_advance_case(case)
    cl = _advance_core(full)
    cl.add("big_" + case["big"])
    size = {"Kp": case["Kp"], "V": case["V"], "width": case["width"], "N": case["N"], "S": case["S"]}[case["big"]]
    sc = dl.size_class("x", size)
    if sc:
        cl.add(sc[2:])
    return Info(nontrivial="merge" in cl or "width_beyond_candidates" in cl, classes=sorted(cl))


def _large_cases(tier):
    quick = tier == "quick"

    @st.composite
    def _s(draw):
        big = draw(st.sampled_from(["T", "N", "V", "width", "T"]))
        V, N, T = draw(st.sampled_from([2, 3, 1])), draw(st.sampled_from([2, 1])), draw(st.sampled_from([4, 3, 5, 2]))
        width = draw(st.sampled_from([2, 3, 1, 4]))
        fusion = draw(st.sampled_from(["none", "shallow", "valid", "none"]))
        lens_kind = draw(st.sampled_from(["mixed", "unset", "full", "mixed"]))
        if big == "T":
            T = draw(dl.threshold_sizes(15, 257 if quick else 2049))
            # mostly two or three elements of different lengths: one as long as the input, the others cut at smaller thresholds
            N = draw(st.sampled_from([2, 2, 3, 1]))
            lens_kind = draw(st.sampled_from(["mixed", "mixed", "unset", "full", "mixed"]))
            if V == 1 and T <= 65 and draw(st.booleans()):
                width = T + draw(st.sampled_from([1, 2, 5]))  # wide enough that nothing is ever pruned: exact masses
        elif big == "N":
            N = draw(dl.threshold_sizes(15, 129 if quick else 1025))
        elif big == "V":
            V = draw(dl.threshold_sizes(15, 257 if quick else 1025))
            T = draw(st.sampled_from([2, 3, 1]))
            width = draw(st.sampled_from([2, 1, 4, 8] + ([V, V + 1, V + 2] if V <= 129 else [])))
        else:
            width = draw(dl.threshold_sizes(15, 257 if quick else 1025, extra=[1025] if quick and draw(st.integers(0, 4)) == 0 else []))  # (1025 costs 2 s a case)
            V = draw(st.sampled_from([2, 3]))
            # input lengths on both sides of the point where the reachable prefixes outnumber the width
            t_full = 1
            while reachable(V, t_full) < width:
                t_full += 1
            T = max(1, draw(st.sampled_from([t_full, t_full - 1, t_full + 1])))
            N = draw(st.sampled_from([1, 2]))
        case = {"big": big, "T": T, "V": V, "N": N, "width": width, "fusion": fusion, "lens_kind": lens_kind,
                "seed": draw(st.integers(0, 2 ** 31 - 1)), "peak": draw(st.sampled_from([12, 8, 16])),
                "beta_q": draw(st.sampled_from([2, 1, 4, 3])) if fusion != "none" else 0,
                "layout": draw(st.sampled_from(dl.LAYOUT_CHOICES)), "dtype": draw(st.sampled_from(["float32", "float64"])),
                "past_fill": draw(st.sampled_from([None, "nan", "-inf", 1e30])),
                "lens_dtype": draw(st.sampled_from(["int64", "int32"])),
                "pattern": draw(st.sampled_from(["fresh", "shared"]))}
        if fusion != "none":
            case["lm_small"] = {"V": V, "M": draw(st.sampled_from([3, 5, 7, 2])), "mult": draw(st.sampled_from([2, 1, 3])),
                                "C": draw(st.integers(1, 2)), "seed": draw(st.integers(0, 2 ** 31 - 1))}
        return case

    return _s()


def expand_search_case(c):
    """The full search case as a pure function of the small one.  Frames are peaky (one label - often the blank - leads by
    `peak`/4 in the logit) so that the float32 probability-domain masses of the leading prefixes do not underflow even
    after two thousand frames."""
    T, V, N = c["T"], c["V"], c["N"]
    vals = dl.lcg_ints(c["seed"], T * N * (V + 1), -12, 0)
    lead = dl.lcg_ints(c["seed"] + 1, T * N, 0, 2 * V + 1)  # values > V mean blank: about half of the frames
    logits = []
    for t in range(T):
        row = []
        for n in range(N):
            f = vals[(t * N + n) * (V + 1):(t * N + n + 1) * (V + 1)]
            f[min(lead[t * N + n], V)] = c["peak"]
            row.append(f)
        logits.append(row)
    if c["lens_kind"] == "unset":
        lens = None
    elif c["lens_kind"] == "full":
        lens = [T] * N
    else:
        # lengths at / next to the thresholds below T, plus 0 and T
        cands = sorted({0, T, max(0, T - 1), T // 2} | {x for x in dl.THRESHOLDS if x <= T})
        picks = dl.lcg_ints(c["seed"] + 2, N, 0, len(cands) - 1)
        lens = [cands[i] for i in picks]
        lens[0] = T
    case = {"T": T, "V": V, "N": N, "logits": logits, "lens": lens, "width": c["width"], "fusion": c["fusion"], "kind": "peaky",
            "beta_q": c["beta_q"], "lm": None, "conds": None, "layout": c["layout"], "dtype": c["dtype"],
            "past_fill": c["past_fill"], "lens_dtype": c["lens_dtype"], "lens_layout": "contiguous", "pattern": c["pattern"],
            "omit_state": True}
    if c["fusion"] != "none":
        case["lm"] = declm.expand_spec(c["lm_small"])
        C = len(case["lm"]["cond"])
        case["conds"] = dl.lcg_ints(c["seed"] + 3, N, 0, C - 1)
    return case


@subcheck("C05", "large", _large_cases, 240, 2500,
          doc="CTCPrefixSearch with ONE size at an implementation threshold: T (15/16/17 ... 129, 257; thorough ... 1025, 2049), N "
              "(... 129 | 1025), V (... 257 | 1025) or width (... 257, 1025); peaky frames, lengths and fused HashLM expanded from "
              "generated seeds (pure function of the case). Oracle: complete alignment enumeration only where it has <= 20000 terms, "
              "otherwise the dictionary recursion of the same width alone (exact when it never pruned); tolerances 8*T*2^-24 "
              "relative; for N > 6 the elements at threshold positions are judged (sampled), batched == solo for up to four",
          required_classes=["big_T", "big_N", "big_V", "big_width", "about_16", "about_64", "about_256",
                            "no_enumeration", "pruned_unambiguous", "never_pruned", "fusion_active", "mixed_lengths",
                            "non_finite_past_length"])
def _large_check(case):
    full = expand_search_case(case)
    N = full["N"]
    elems = None
    if N > 6:
        elems = sorted({0, 1, N - 1, min(N - 1, 15), min(N - 1, 16), min(N - 1, 17)})
    info = _search_check(full, enum_elems=elems, solo_elems=None if N <= 4 else sorted({0, N - 1, min(N - 1, 16)}))
    cl = set(info.classes)
    cl.add("big_" + case["big"])
    size = {"T": case["T"], "N": N, "V": case["V"], "width": case["width"]}[case["big"]]
    sc = dl.size_class("x", size)
    if sc:
        cl.add(sc[2:])
    return Info(nontrivial=info.nontrivial, classes=sorted(cl))
