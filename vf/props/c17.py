"""C17 Command-line conversions invert each other, report the documented figures, and do
not depend on the number of worker processes."""
from __future__ import annotations

import os
import re
import warnings
from decimal import Decimal, getcontext
from fractions import Fraction

from hypothesis import strategies as st

from ..core import Info, Reject, expect_raises, require, subcheck
from .. import tx
from ..oracles.c17_edits import banded_unit_distance, edit_bounds, unit_distance

# =============================================================================== common pieces

_SAFE_TOKEN = tx.words(set('{}/()";'), max_size=3)  # usable in trn, ctm, TextGrid and mapping files alike
_FIX = st.fixed_dictionaries({
    "prefix": st.sampled_from(["", "", "p_", "x.", "p_"]),
    "suffix": st.sampled_from([".pt", ".pt", ".t", "", "_s"]),
})


def _workers(max_k=4):
    many = st.fixed_dictionaries({"n": st.sampled_from([2, 1, 3, max_k]), "chunk": st.integers(1, 4),
                                  "order": st.lists(st.integers(0, 5), min_size=2, max_size=7)})
    return st.one_of(st.just({"n": 0, "chunk": 1, "order": [0]}), many, many)


# ids are stored in long tensors and parsed with int(): negative ids and ids beyond 32 bits are legal
_BIG_ID = st.sampled_from([2 ** 31 - 1, 2 ** 31, 2 ** 40 + 1, 2 ** 62, -1, -5, -2 ** 31 - 1, -2 ** 40])
_ID = st.one_of(st.integers(0, 40), st.integers(0, 40), st.integers(0, 40), st.integers(0, 40), _BIG_ID)
# how a stored tensor lies in memory: torch.save keeps a view's strides, storage offset and whole storage
_LAYOUT = st.sampled_from(["own", "own"] + tx.LAYOUTS[1:])


def _save(torch, t, path, layout="own"):
    """torch.save of a tensor equal to ``t`` that is a view (``layout``) into a larger tensor of other values
    (NaN for floating point data)."""
    junk = float("nan") if t.is_floating_point() else -(2 ** 40) - 7
    v, _ = tx.as_layout(torch, t, layout or "own", junk)
    torch.save(v, path)


def _restore(torch, d, names, layout, junk_times=False):
    """Store the tensors of the files ``names`` of ``d`` again, as views laid out as ``layout`` (same values); with
    ``junk_times`` the boundary columns of (R, 3) token tensors are overwritten first (for consumers that ignore them)."""
    for k, n in enumerate(names):
        path = os.path.join(d, n)
        t = torch.load(path)
        if junk_times and t.ndim == 2 and t.size(1) == 3:
            t = t.clone()
            junk = [[5, 2], [2 ** 40, -3], [-1, 7], [0, 0], [-7, -7]]
            for r in range(t.size(0)):
                t[r, 1], t[r, 2] = junk[(r + k) % len(junk)]
        _save(torch, t, path, layout)


def _layout_classes(*layouts):
    cl = {"layout_" + (l or "own") for l in layouts}
    if cl & {"layout_storage_offset", "layout_row_slice", "layout_col_slice", "layout_strided_rows"}:
        cl.add("view_storage_offset")   # the stored tensor does not start at the beginning of its storage
    if cl & {"layout_col_slice", "layout_transposed", "layout_strided_rows"}:
        cl.add("view_noncontiguous")    # ... is not laid out row-major without gaps
    return sorted(cl)


def _big_ids(ids):
    return any(i < 0 or i >= 2 ** 31 for i in ids)


def _vocab(min_size=1, max_size=6):
    @st.composite
    def build(draw):
        toks = draw(st.lists(_SAFE_TOKEN, min_size=min_size, max_size=max_size, unique=True))
        ids = draw(st.lists(_ID, min_size=len(toks), max_size=len(toks), unique=True))
        return {"pairs": [[t, i] for t, i in zip(toks, ids)], "layout": draw(st.sampled_from(["tok_id", "id_tok"]))}

    return build()


def _utt_ids(n_min, n_max):
    # (1 name in 5 is made of the characters of the generated prefixes / suffixes, some a prefix of another)
    name = st.one_of(tx.file_ids(), tx.file_ids(), tx.file_ids(), tx.file_ids(),
                     st.sampled_from(["clip", "cli", "tap", "t", "a.pt", "x.t", "p_", "p_p", "u_s", "s"]))
    return st.lists(name, min_size=n_min, max_size=n_max, unique=True)


def _cl():
    from pydrobert.torch import command_line

    return command_line


def _fix_args(fix):
    return ["--file-prefix=" + fix["prefix"], "--file-suffix=" + fix["suffix"]]


def _vocab_file(d, vocab, name="vocab.txt"):
    """One mapping file serves both directions: '<tok> <id>' is a token2id file as is and an
    id2token file with --swap; '<id> <tok>' the other way round."""
    p = os.path.join(d, name)
    lines = ["%s %d" % (t, i) if vocab["layout"] == "tok_id" else "%d %s" % (i, t) for t, i in vocab["pairs"]]
    tx.write_text(p, "\n".join(lines) + "\n")
    t2i_swap = ["--swap"] if vocab["layout"] == "id_tok" else []
    i2t_swap = ["--swap"] if vocab["layout"] == "tok_id" else []
    return p, t2i_swap, i2t_swap


def _run(name, args, workers=None, dataloader_workers=None):
    """Call a command; ``workers``: simulated pool with a generated completion order."""
    fn = getattr(_cl(), name)
    args = [str(a) for a in args]
    with warnings.catch_warnings():
        warnings.simplefilter("ignore")
        if dataloader_workers is not None:
            rc = fn(args + ["--num-workers", str(dataloader_workers)])
        elif workers is None:
            rc = fn(args)
        elif workers["n"] == 0:
            rc = fn(args + ["--num-workers", "0"])
        else:
            with tx.simulated_pool(workers["order"]):
                rc = fn(args + ["--num-workers", str(workers["n"]), "--mp-chunk-size", str(workers["chunk"])])
    require(rc in (0, None), "%s %s: non-zero exit status" % (name, " ".join(args)), rc, 0)


def _names(fix, utts):
    return sorted(fix["prefix"] + u + fix["suffix"] for u in utts)


def _decoy(d, fix):
    """A file that is *not* a data file of this prefix/suffix (None if every name qualifies)."""
    if fix["suffix"]:
        name = fix["prefix"] + "README"
        if name.endswith(fix["suffix"]):
            return None
    elif fix["prefix"]:
        name = "README"
        if name.startswith(fix["prefix"]):
            return None
    else:
        return None
    tx.write_text(os.path.join(d, name), "not a tensor\n")
    return name


def _listing(d, ignore=()):
    return sorted(x for x in os.listdir(d) if x not in ignore)


def _same_dirs(a, b, what):
    A, B = tx.dir_bytes(a), tx.dir_bytes(b)
    require(sorted(A) == sorted(B), what + ": different sets of output files", sorted(A), sorted(B))
    for k in A:
        if A[k] == B[k]:
            continue
        # a saved view drags its whole storage along (possibly uninitialised padding), so two runs of the *same*
        # configuration may differ in bytes; what the file means is the tensor it loads to
        torch = _torch()
        try:
            x, y = torch.load(os.path.join(a, k)), torch.load(os.path.join(b, k))
        except Exception:
            x = y = None
        same = x is not None and torch.is_tensor(x) and torch.is_tensor(y) and x.dtype == y.dtype and x.shape == y.shape and torch.equal(x, y)
        require(same, what + ": file %r differs" % k, None if x is None else x.tolist(), None if y is None else y.tolist())


def _wk_classes(workers, units):
    cl = ["workers_%s" % ("0" if workers["n"] == 0 else "1" if workers["n"] == 1 else "many")]
    perm = tx.perm_of(workers["order"], units)
    nontriv = workers["n"] > 0 and units >= 3 and perm != sorted(perm)
    if nontriv:
        cl.append("reordered_completion")
    return cl, nontriv


def _fix_classes(fix):
    return ["prefix_" + (fix["prefix"] or "empty"), "suffix_" + (fix["suffix"] or "empty")]


def _torch():
    import torch

    return torch


# =============================================================================== ali <-> ref


@st.composite
def _ali_case(draw, tier):
    big = tier == "thorough"
    utts = draw(_utt_ids(1, 8 if big else 6))
    labels = draw(st.sampled_from([[0, 1, 2], [0, 1], [5], [3, 17, 4], [0, -1, 2], [2 ** 40, -2 ** 40, 7], [2 ** 31, 2 ** 31 - 1]]))
    alis = [draw(st.lists(st.sampled_from(labels), min_size=1, max_size=20 if big else 12)) for _ in utts]
    return {"fix": draw(_FIX), "utts": utts, "alis": alis, "workers": draw(_workers()),
            "feat_dir": draw(st.booleans()), "decoy": draw(st.booleans()),
            "layout": {"ali": draw(_LAYOUT), "ref": draw(_LAYOUT), "feat": draw(_LAYOUT)}}


def _rle(seq):
    out = []
    for t, x in enumerate(seq):
        if out and out[-1][0] == x:
            out[-1][2] = t + 1
        else:
            out.append([x, t, t + 1])
    return out


@subcheck("C17", "ali_ref_ali", lambda tier: _ali_case(tier), quick=200, thorough=3000,
          doc="1..6 alignments (T 1..12, 1..3 labels), every prefix/suffix, decoy non-data file, simulated pool: ali->ref holds one "
              "file per utterance with the run-length segments, ref->ali (optionally --feat-dir) returns identical tensors; "
              "worker count changes no byte",
          required_classes=["prefix_p_", "prefix_x.", "suffix_empty", "decoy", "reordered_completion", "view_storage_offset", "view_noncontiguous", "big_ids"])
def _ali_ref_ali(case):
    torch = _torch()
    fix, utts, workers = case["fix"], case["utts"], case["workers"]
    lay = case.get("layout") or {}
    with tx.scratch() as d:
        ali, ref, ali2, feat = (os.path.join(d, x) for x in ("ali", "ref", "ali2", "feat"))
        os.makedirs(ali)
        for u, a in zip(utts, case["alis"]):
            _save(torch, torch.tensor(a, dtype=torch.long), os.path.join(ali, fix["prefix"] + u + fix["suffix"]), lay.get("ali"))
        decoys = []
        if case["decoy"]:
            n = _decoy(ali, fix)
            if n:
                decoys.append(n)
        _run("torch_ali_data_dir_to_torch_token_data_dir", [ali, ref] + _fix_args(fix), workers)
        require(_listing(ref) == _names(fix, utts), "ali->ref: one file per utterance, nothing else", _listing(ref), _names(fix, utts))
        for u, a in zip(utts, case["alis"]):
            r = torch.load(os.path.join(ref, fix["prefix"] + u + fix["suffix"]))
            require(r.dtype == torch.long and r.tolist() == _rle(a), "ali->ref: segments of %r" % u, r.tolist(), _rle(a))
        if workers["n"]:
            ref0 = os.path.join(d, "ref0")
            _run("torch_ali_data_dir_to_torch_token_data_dir", [ali, ref0] + _fix_args(fix), {"n": 0})
            _same_dirs(ref, ref0, "ali->ref with %d workers vs 0" % workers["n"])
        if decoys:
            tx.write_text(os.path.join(ref, decoys[0]), "not a tensor\n")
        # the reference directory as some other program might have stored it: the same values, as views of larger tensors
        _restore(torch, ref, _names(fix, utts), lay.get("ref"))
        extra = []
        if case["feat_dir"]:
            os.makedirs(feat)
            for u, a in zip(utts, case["alis"]):
                # only the number of frames of a feature file matters here: its values are NaN
                _save(torch, torch.full((len(a), 2), float("nan")), os.path.join(feat, fix["prefix"] + u + fix["suffix"]), lay.get("feat"))
            extra = ["--feat-dir", feat]
        _run("torch_token_data_dir_to_torch_ali_data_dir", [ref, ali2] + extra + _fix_args(fix), workers)
        require(_listing(ali2) == _names(fix, utts), "ref->ali: one file per utterance, nothing else", _listing(ali2), _names(fix, utts))
        for u, a in zip(utts, case["alis"]):
            b = torch.load(os.path.join(ali2, fix["prefix"] + u + fix["suffix"]))
            require(b.dtype == torch.long and b.tolist() == a, "ali->ref->ali of %r" % u, b.tolist(), a)
        if workers["n"]:
            ali0 = os.path.join(d, "ali0")
            _run("torch_token_data_dir_to_torch_ali_data_dir", [ref, ali0] + extra + _fix_args(fix), {"n": 0})
            _same_dirs(ali2, ali0, "ref->ali with %d workers vs 0" % workers["n"])
    wcl, wnt = _wk_classes(workers, len(utts))
    cl = _fix_classes(fix) + wcl + (["decoy"] if decoys else []) + (["feat_dir"] if case["feat_dir"] else [])
    cl += _layout_classes(lay.get("ali"), lay.get("ref"))
    if _big_ids([x for a in case["alis"] for x in a]):
        cl.append("big_ids")
    return Info(nontrivial=bool(fix["prefix"]) or wnt, classes=cl)


# =============================================================================== trn -> dir -> trn


@st.composite
def _trn_cli_case(draw, tier):
    big = tier == "thorough"
    vocab = draw(_vocab(1, 6))
    toks = [t for t, _ in vocab["pairs"]]
    unk = draw(st.one_of(st.none(), st.none(), st.sampled_from(toks)))
    tok = st.sampled_from(toks)
    if unk is not None:
        tok = st.one_of(tok, tok, tok, _SAFE_TOKEN.filter(lambda w: w not in toks))
    alts = draw(st.sampled_from([False, False, True]))
    utts = draw(_utt_ids(1, 8 if big else 6))
    items = st.lists(tok, min_size=0, max_size=6) if not alts else tx.trn_transcript(tok, 2, 5)
    return {"fix": draw(_FIX), "vocab": vocab, "unk": unk, "alts": alts,
            "corpus": [{"utt": u, "items": draw(items)} for u in utts],
            "shape": draw(st.sampled_from(["default", "default", "skip", "feat"])),
            "workers": draw(_workers()), "decoy": draw(st.booleans()), "pad": draw(st.lists(st.integers(0, 1), min_size=1, max_size=3)),
            "mid": {"layout": draw(_LAYOUT), "junk_times": draw(st.booleans())},
            "aborted_first": draw(st.sampled_from([False, False, True])), "stale_out": draw(st.booleans())}


def _parse_plain_trn(text):
    out = {}
    order = []
    for line in text.split("\n"):
        if not line.strip():
            continue
        body, _, tail = line.rpartition("(")
        utt = tail[: tail.rindex(")")]
        require(utt not in out, "output trn lists utterance %r twice" % utt, text, None)
        out[utt] = body.split()
        order.append(utt)
    return out, order


@subcheck("C17", "trn_dir_trn", lambda tier: _trn_cli_case(tier), quick=250, thorough=3000,
          doc="trn file (independent writer; with alternates under --alt-handler first; OOV under --unk-symbol) -> token dir -> trn for "
              "every prefix/suffix, both mapping-file layouts (--swap), (R,3)/(R,)/(R,1) storage, simulated pool: one tensor per "
              "utterance with the mapped ids, the final trn maps every utterance to its original tokens",
          required_classes=["prefix_p_", "prefix_x.", "suffix_empty", "alternates", "oov", "layout_id_tok", "shape_skip", "shape_feat",
                            "reordered_completion", "view_storage_offset", "view_noncontiguous",
                            "junk_times_ignored", "restart_after_aborted_pass", "stale_out_file", "big_ids"])
def _trn_dir_trn(case):
    torch = _torch()
    fix, vocab, workers = case["fix"], case["vocab"], case["workers"]
    t2i = {t: i for t, i in vocab["pairs"]}
    utts = [u["utt"] for u in case["corpus"]]
    flat = {u["utt"]: tx.trn_first(u["items"]) for u in case["corpus"]}
    exp_tokens = {u: [w if w in t2i else case["unk"] for w in ws] for u, ws in flat.items()}
    n_oov = sum(w not in t2i for ws in flat.values() for w in ws)
    with tx.scratch() as d:
        vf, t2i_swap, i2t_swap = _vocab_file(d, vocab)
        trn = os.path.join(d, "in.trn")
        tx.write_text(trn, "".join(tx.trn_reference_line(u["items"], u["utt"], case["pad"]) + "\n" for u in case["corpus"]))
        opts = _fix_args(fix) + t2i_swap
        if case["unk"] is not None:
            opts += ["--unk-symbol=" + case["unk"]]
        if case["alts"]:
            opts += ["--alt-handler", "first"]
        opts += {"default": [], "skip": ["--skip-frame-times"], "feat": ["--feat-sizing"]}[case["shape"]]
        out = os.path.join(d, "tok")
        if case.get("aborted_first"):
            # a first pass that dies half-way (an alternate in the last line, --alt-handler error) after storing the other
            # utterances in another shape; the pass is then started again into the same directory
            trn_bad = os.path.join(d, "bad.trn")
            with open(trn) as f:
                tx.write_text(trn_bad, f.read() + "{ " + vocab["pairs"][0][0] + " / " + vocab["pairs"][0][0] + " } (zzz-last)\n")
            other = {"default": ["--skip-frame-times"], "skip": ["--feat-sizing"], "feat": []}[case["shape"]]
            bad_opts = [o for o in _fix_args(fix) + t2i_swap + (["--unk-symbol=" + case["unk"]] if case["unk"] is not None else [])] + other
            with expect_raises(ValueError, what="trn->dir with --alt-handler error on a file with an alternate"):
                getattr(_cl(), "trn_to_torch_token_data_dir")([trn_bad, vf, out] + bad_opts + ["--alt-handler", "error", "--num-workers", "0"])
        _run("trn_to_torch_token_data_dir", [trn, vf, out] + opts, workers)
        require(_listing(out) == _names(fix, utts), "trn->dir: one file per utterance, nothing else", _listing(out), _names(fix, utts))
        for u in utts:
            t = torch.load(os.path.join(out, fix["prefix"] + u + fix["suffix"]))
            ids = [t2i[w] for w in exp_tokens[u]]
            exp = {"default": [[i, -1, -1] for i in ids], "skip": ids, "feat": [[i] for i in ids]}[case["shape"]]
            shape = {"default": [len(ids), 3], "skip": [len(ids)], "feat": [len(ids), 1]}[case["shape"]]
            require(t.dtype == torch.long and list(t.shape) == shape and t.tolist() == exp, "trn->dir: tensor of %r" % u,
                    [list(t.shape), t.tolist()], [shape, exp])
        if workers["n"]:
            out0 = os.path.join(d, "tok0")
            _run("trn_to_torch_token_data_dir", [trn, vf, out0] + opts, {"n": 0})
            _same_dirs(out, out0, "trn->dir with %d workers vs 0" % workers["n"])
        decoy = _decoy(out, fix) if case["decoy"] else None
        mid = case.get("mid") or {}
        _restore(torch, out, _names(fix, utts), mid.get("layout"), mid.get("junk_times"))
        back = os.path.join(d, "out.trn")
        if case.get("stale_out"):
            tx.write_text(back, "stale stale stale (old_utt)\n" * 40)  # the output file exists and is longer than what is written
        _run("torch_token_data_dir_to_trn", [out, vf, back] + _fix_args(fix) + i2t_swap, dataloader_workers=0)
        with open(back) as f:
            got, order = _parse_plain_trn(f.read())
        require(got == exp_tokens, "trn->dir->trn: utterances/tokens differ from the original", got, exp_tokens)
    wcl, wnt = _wk_classes(workers, len(utts))
    cl = _fix_classes(fix) + wcl + ["layout_" + vocab["layout"], "shape_" + case["shape"]]
    if case["alts"] and any(tx.trn_depth(u["items"]) for u in case["corpus"]):
        cl.append("alternates")
    if n_oov:
        cl.append("oov")
    if decoy:
        cl.append("decoy")
    cl += _layout_classes(mid.get("layout"))
    if mid.get("junk_times") and case["shape"] == "default" and any(exp_tokens.values()):
        cl.append("junk_times_ignored")
    if case.get("aborted_first"):
        cl.append("restart_after_aborted_pass")
    if case.get("stale_out"):
        cl.append("stale_out_file")
    if _big_ids([i for _, i in vocab["pairs"]]):
        cl.append("big_ids")
    return Info(nontrivial=bool(fix["prefix"]) or wnt, classes=cl)


# =============================================================================== timed corpora (ctm, TextGrid)

_FS_PREC = [(10, 2), (10, 3), (1, 3), (1, 4), (0.0625, 7), (0.0625, 8)]


@st.composite
def _timed_corpus(draw, tier, vocab, unk, points_allowed, min_tokens):
    """Utterances whose tokens sit on the frame grid: start frames at least two frames apart
    (so that the documented one-frame uncertainty cannot reorder tokens), non-overlapping;
    an utterance is either all segments (length >= 1 frame) or all points (TextGrid only)."""
    big = tier == "thorough"
    toks = [t for t, _ in vocab["pairs"]]
    tok = st.sampled_from(toks)
    if unk is not None:
        tok = st.one_of(tok, tok, tok, _SAFE_TOKEN.filter(lambda w: w not in toks))
    utts = draw(_utt_ids(1, 6 if big else 5))
    corpus = []
    for u in utts:
        kind = draw(st.sampled_from(["segments", "segments", "points"])) if points_allowed else "segments"
        pos = draw(st.one_of(st.integers(0, 3), st.integers(0, 3), st.sampled_from([0, 95, 990, 1000, 9985]), st.sampled_from([0, 95, 990, 1000, 9985]),
                             st.sampled_from([99990, 100000, 999985, 16000000])))
        toks_u = []
        for _ in range(draw(st.integers(min_tokens, 6 if big else 5))):
            ln = 0 if kind == "points" else draw(st.one_of(st.integers(1, 4), st.integers(1, 12)))
            toks_u.append([draw(tok), pos, pos + ln])
            if kind == "points" and draw(st.integers(0, 3)) == 0:
                continue  # the next point coincides with this one: file order is the only order there is
            pos += max(2, ln) + draw(st.integers(0, 3))
        corpus.append({"utt": u, "kind": kind, "tokens": toks_u})
    return corpus


def _sec(frame, fs):
    return frame * fs / 1000


def _close_times(got, exp_frames, fs, extra=0.0):
    # one frame, plus the resolution of a double at that magnitude (times reach 10^4 s)
    tol = fs / 1000 * (1 + 1e-9) + 1e-12 + extra + 2e-15 * abs(_sec(exp_frames, fs))
    return abs(got - _sec(exp_frames, fs)) <= tol


# ------------------------------------------------------------------- ctm


@st.composite
def _ctm_cli_case(draw, tier):
    vocab = draw(_vocab(1, 6))
    unk = draw(st.one_of(st.none(), st.none(), st.sampled_from([t for t, _ in vocab["pairs"]])))
    corpus = draw(_timed_corpus(tier, vocab, unk, False, 0))
    utts = [u["utt"] for u in corpus]
    mapping = draw(st.sampled_from(["none", "wc2utt", "utt2wc", "utt2wc"]))
    m = {"kind": mapping, "channel": draw(st.sampled_from(["A", "B", "1", "ch"]))}
    if mapping != "none":
        wfns = draw(st.lists(tx.file_ids(4), min_size=1, max_size=3, unique=True))
        chans = ["A", "B", "x"]
        combos = [(w, c) for w in wfns for c in chans]
        pairs = draw(st.permutations(combos))[: len(utts)] if len(combos) >= len(utts) else [(u + "w", "A") for u in utts]
        m["pairs"] = [[u, w, c] for u, (w, c) in zip(utts, pairs)]
        m["back"] = draw(st.sampled_from(["wc2utt", "utt2wc"]))
    return {"fix": draw(_FIX), "vocab": vocab, "unk": unk, "corpus": corpus, "map": m,
            "fs": draw(st.sampled_from([10, 10, 1, 0.0625])), "shuffle": draw(st.lists(st.integers(0, 9), min_size=1, max_size=6)),
            "workers": draw(_workers()), "decoy": draw(st.booleans()), "mid_layout": draw(_LAYOUT), "stale_out": draw(st.booleans()),
            # what follows a line of the input file: a trailing ';;' comment (as in the command's help text), comment lines, blank lines
            "after": draw(st.lists(st.sampled_from(["", "", "", "  ;; comment", ";;c", " ;; w A 0.0 1.0 x", "\n;; a comment line", "\n", "\n;;"]),
                                   min_size=1, max_size=5))}


def _map_file(d, m, kind, name):
    p = os.path.join(d, name)
    if kind == "wc2utt":
        tx.write_text(p, "".join("%s %s %s\n" % (w, c, u) for u, w, c in m["pairs"]))
    else:
        tx.write_text(p, "".join("%s %s %s\n" % (u, w, c) for u, w, c in m["pairs"]))
    return p


@subcheck("C17", "ctm_dir_ctm", lambda tier: _ctm_cli_case(tier), quick=250, thorough=3000,
          doc="ctm file (independent writer, lines in generated order, times on the frame grid of 10/1/0.0625 ms) -> token dir -> ctm "
              "with --wc2utt / --utt2wc / --channel, every prefix/suffix, OOV under --unk-symbol, simulated pool: one (R,3) tensor per "
              "utterance; final ctm has, per (wave, channel), the original tokens in order with start/end within one frame",
          required_classes=["prefix_p_", "prefix_x.", "map_wc2utt", "map_utt2wc", "map_none", "fs_0.0625", "reordered_completion", "oov",
                            "view_storage_offset", "view_noncontiguous", "stale_out_file",
                            "comments_in_input", "time_ge_1000s", "big_ids"])
def _ctm_dir_ctm(case):
    torch = _torch()
    fix, vocab, workers, fs, m = case["fix"], case["vocab"], case["workers"], case["fs"], case["map"]
    t2i = {t: i for t, i in vocab["pairs"]}
    corpus = [u for u in case["corpus"] if u["tokens"]]  # an utterance without tokens has no line in a ctm
    if not corpus:
        raise Reject("no tokens at all")
    utts = [u["utt"] for u in corpus]
    if m["kind"] == "none":
        wc = {u: (u, m["channel"]) for u in utts}
    else:
        wc = {u: (w, c) for u, w, c in m["pairs"]}
    lines = []
    for u in corpus:
        for tok, a, b in u["tokens"]:
            after = (case.get("after") or [""])
            lines.append("%s %s %r %r %s%s\n" % (wc[u["utt"]][0], wc[u["utt"]][1], _sec(a, fs), _sec(b, fs) - _sec(a, fs), tok,
                                                  after[len(lines) % len(after)]))
    perm = tx.perm_of(case["shuffle"], len(lines))
    n_oov = sum(t[0] not in t2i for u in corpus for t in u["tokens"])
    with tx.scratch() as d:
        vf, t2i_swap, i2t_swap = _vocab_file(d, vocab)
        ctm = os.path.join(d, "in.ctm")
        tx.write_text(ctm, "".join(lines[i] for i in perm))
        opts = _fix_args(fix) + t2i_swap + ["--frame-shift-ms", repr(fs)]
        if case["unk"] is not None:
            opts += ["--unk-symbol=" + case["unk"]]
        if m["kind"] != "none":
            opts += ["--" + m["kind"], _map_file(d, m, m["kind"], "map_fwd.txt")]
        out = os.path.join(d, "tok")
        _run("ctm_to_torch_token_data_dir", [ctm, vf, out] + opts, workers)
        require(_listing(out) == _names(fix, utts), "ctm->dir: one file per utterance, nothing else", _listing(out), _names(fix, utts))
        for u in corpus:
            t = torch.load(os.path.join(out, fix["prefix"] + u["utt"] + fix["suffix"]))
            ids = [t2i[w] if w in t2i else t2i[case["unk"]] for w, _, _ in u["tokens"]]
            ok = t.dtype == torch.long and list(t.shape) == [len(ids), 3] and t[:, 0].tolist() == ids and all(
                abs(s - a) <= 1 and abs(e - b) <= 1 and e > s for (s, e), (_, a, b) in zip(t[:, 1:].tolist(), u["tokens"]))
            require(ok, "ctm->dir: tensor of %r (ids, frames within one of the original)" % u["utt"], t.tolist(), [ids, u["tokens"]])
        if workers["n"]:
            out0 = os.path.join(d, "tok0")
            _run("ctm_to_torch_token_data_dir", [ctm, vf, out0] + opts, {"n": 0})
            _same_dirs(out, out0, "ctm->dir with %d workers vs 0" % workers["n"])
        decoy = _decoy(out, fix) if case["decoy"] else None
        _restore(torch, out, _names(fix, utts), case.get("mid_layout"))
        back = os.path.join(d, "out.ctm")
        if case.get("stale_out"):
            tx.write_text(back, "old A 0.0 1.0 stale\n" * 60)
        bopts = _fix_args(fix) + i2t_swap + ["--frame-shift-ms", repr(fs)]
        if m["kind"] == "none":
            bopts += ["--channel=" + m["channel"]]
        else:
            bopts += ["--" + m["back"], _map_file(d, m, m["back"], "map_back.txt")]
        _run("torch_token_data_dir_to_ctm", [out, vf, back] + bopts)
        got = {}
        with open(back) as f:
            for line in f:
                w, c, s, dur, tok = line.split()
                got.setdefault((w, c), []).append((tok, float(s), float(s) + float(dur)))
    exp_keys = sorted(wc[u] for u in utts)
    require(sorted(got) == exp_keys, "ctm->dir->ctm: (wave, channel) pairs", sorted(got), exp_keys)
    for u in corpus:
        g = got[wc[u["utt"]]]
        exp = [(w if w in t2i else case["unk"], a, b) for w, a, b in u["tokens"]]
        ok = len(g) == len(exp) and all(x[0] == y[0] and _close_times(x[1], y[1], fs) and _close_times(x[2], y[2], fs) for x, y in zip(g, exp))
        require(ok, "ctm->dir->ctm: tokens of %r (times within one frame of %g ms)" % (u["utt"], fs), g,
                [(w, _sec(a, fs), _sec(b, fs)) for w, a, b in exp])
    wcl, wnt = _wk_classes(workers, len(utts))
    cl = _fix_classes(fix) + wcl + ["map_" + m["kind"], "fs_%s" % fs, "layout_" + vocab["layout"]]
    if n_oov:
        cl.append("oov")
    if decoy:
        cl.append("decoy")
    if perm != sorted(perm):
        cl.append("shuffled_lines")
    cl += _layout_classes(case.get("mid_layout"))
    if case.get("stale_out"):
        cl.append("stale_out_file")
    if any(a.strip() for a in (case.get("after") or [""])[:len(lines)]):
        cl.append("comments_in_input")
    if any(_sec(t[2], fs) >= 1000 for u in corpus for t in u["tokens"]):
        cl.append("time_ge_1000s")
    if _big_ids([i for _, i in vocab["pairs"]]):
        cl.append("big_ids")
    return Info(nontrivial=bool(fix["prefix"]) or wnt, classes=cl)


# ------------------------------------------------------------------- TextGrid directories

# torch-token-data-dir-to-textgrids --infer computes the recording's length in seconds from a 0-dim *tensor*
# (T = ref[..., 1:].max(); T * frame_shift_ms / 1000), i.e. in single precision: once frames * shift exceeds 2^24 (a recording
# longer than 4 h 39 min) the length can come out below the last boundary and write_textgrid refuses ("could not write textgrid").
# Minimal input: a token file [[id, 16000000, 16000000], [id, 16000004, 16000004]] with --frame-shift-ms 10 --infer.
# Proposed repair: fixes/C17-textgrids-infer-length-in-double.diff; directed case:
# replays/C17/textgrid_export_infer_beyond_4h.json.pending (rename to .json once merged).  Until then times that long are kept out
# of the TextGrid export generator; VERIF_C17_TG_BEYOND_4H=1 switches them on (use with VERIF_REPO_SRC=<patched tree>).
ENABLE_TEXTGRID_EXPORT_BEYOND_4H = True  # repaired in /repo by f71807b



@st.composite
def _tg_cli_case(draw, tier):
    vocab = draw(_vocab(2, 6))
    toks = [t for t, _ in vocab["pairs"]]
    unk = draw(st.one_of(st.none(), st.none(), st.sampled_from(toks)))
    corpus = draw(_timed_corpus(tier, vocab, unk, True, 1))
    fs, p = draw(st.sampled_from(_FS_PREC))
    if not ENABLE_TEXTGRID_EXPORT_BEYOND_4H:
        for u in corpus:
            if u["tokens"][-1][2] * fs >= 2 ** 24 - 1000:
                u["tokens"] = [[w, a - 15000000, b - 15000000] for w, a, b in u["tokens"]]  # 1.6e5 s -> 1e4 s
    return {"fix": draw(_FIX), "vocab": vocab, "unk": unk, "corpus": corpus, "fs": fs, "p": p,
            "tg_suffix": draw(st.sampled_from([".TextGrid", ".TextGrid", ".tg", ".phn.TextGrid", "_tg.txt"])),
            "format": draw(st.sampled_from(["short", "long", "long2"])),
            "tier_name": draw(st.sampled_from(["transcript", "words", "t 1"])),
            "select": draw(st.sampled_from(["default", "name", "idx"])),
            "out_tier_name": draw(st.sampled_from([None, "phones"])),
            "fill": draw(st.one_of(st.none(), st.none(), st.sampled_from(toks))),
            "length": draw(st.sampled_from(["infer", "infer", "feat"])),
            "workers": draw(_workers()), "decoy": draw(st.booleans()), "mid_layout": draw(_LAYOUT), "feat_layout": draw(_LAYOUT),
            "stale_out": draw(st.booleans())}


def _tg_text(case, u):
    """Input TextGrid of one utterance, by an independent writer; times printed exactly."""
    fs, p = case["fs"], case["p"]
    n = lambda frame: tx.dec_str(_sec(frame, fs), p)
    point = u["kind"] == "points"
    first, last = u["tokens"][0][1], u["tokens"][-1][2]
    if case["format"] == "short":
        s = 'File type = "ooTextFile"\nObject class = "TextGrid"\n%s\n%s\n<exists>\n1\n"%s"\n"%s"\n%s\n%s\n%d\n' % (
            n(0), n(last), "TextTier" if point else "IntervalTier", case["tier_name"], n(first), n(last), len(u["tokens"]))
        for tok, a, b in u["tokens"]:
            s += ("%s\n" % n(a)) + ("" if point else "%s\n" % n(b)) + '"%s"\n' % tok
        return s, 0
    tiers = [(case["tier_name"], point, u["tokens"])]
    idx = 0
    if case["format"] == "long2":
        other = ("other", True, [["zz", 1, 1]])
        if len(u["utt"]) % 2:
            tiers, idx = [other] + tiers, 1
        else:
            tiers = tiers + [other]
    s = 'File type = "ooTextFile"\nObject class = "TextGrid"\n\nxmin = %s\nxmax = %s\ntiers? <exists>\nsize = %d\nitem []:\n' % (
        n(0), n(max(last, 1)), len(tiers))
    for i, (name, pt, toks) in enumerate(tiers):
        kind = "points" if pt else "intervals"
        s += '    item [%d]:\n        class = "%s"\n        name = "%s"\n        xmin = %s\n        xmax = %s\n        %s: size = %d\n' % (
            i + 1, "TextTier" if pt else "IntervalTier", name, n(toks[0][1]), n(toks[-1][2]), kind, len(toks))
        for j, (tok, a, b) in enumerate(toks):
            s += "        %s [%d]:\n" % (kind, j + 1)
            if pt:
                s += '            number = %s\n            mark = "%s"\n' % (n(a), tok)
            else:
                s += '            xmin = %s\n            xmax = %s\n            text = "%s"\n' % (n(a), n(b), tok)
    return s, idx


def _parse_short_textgrid(text, p):
    lines = text.split("\n")
    require(lines[0] == 'File type = "ooTextFile"' and lines[4] == "<exists>" and lines[5] == "1", "output TextGrid header", lines[:6], None)
    point = {'"TextTier"': True, '"IntervalTier"': False}[lines[6]]
    name = lines[7][1:-1]
    n = int(lines[10])
    num = re.compile(r"^\d+$" if p == 0 else r"^\d+\.\d{%d}$" % p)
    for x in lines[2:4] + lines[8:10]:
        require(num.match(x) is not None, "output TextGrid: time %r not printed with --precision %d" % (x, p), x, p)
    out = []
    k = 11
    for _ in range(n):
        width = 2 if point else 3
        rec = lines[k:k + width]
        k += width
        for x in rec[:-1]:
            require(num.match(x) is not None, "output TextGrid: time %r not printed with --precision %d" % (x, p), x, p)
        out.append((rec[-1][1:-1], float(rec[0]), float(rec[0] if point else rec[1])))
    require(lines[k:] == [""], "output TextGrid: trailing content", lines[k:], [""])
    return point, name, out


@subcheck("C17", "textgrids_dir_textgrids", lambda tier: _tg_cli_case(tier), quick=250, thorough=3000,
          doc="directory of TextGrids (independent writer: short / Praat long format, 1-2 tiers, interval or point tier, times on the frame "
              "grid, tier chosen by default/name/index, --fill-symbol) -> token dir -> TextGrids (--infer / --feat-dir, --precision "
              "matching the frame shift): original tokens in order, times within one frame + half a print unit, interval tiers stay "
              "interval tiers, times printed with the requested precision; point tiers may hold several points at one time (labels in any order: file order is kept); simulated pool changes no byte",
          required_classes=["prefix_p_", "prefix_x.", "kind_points", "kind_segments", "fs_0.0625", "precision_not3", "format_long2",
                            "fill_gap", "feat_dir", "reordered_completion", "time_ge_10s", "time_ge_1000s", "view_storage_offset", "view_noncontiguous", "stale_out_file", "big_ids",
                            "coincident_points_labels_descending", "textgrid_suffix_not_one_extension"])
def _tg_dir_tg(case):
    torch = _torch()
    fix, vocab, workers, fs, p = case["fix"], case["vocab"], case["workers"], case["fs"], case["p"]
    t2i = {t: i for t, i in vocab["pairs"]}
    corpus = case["corpus"]
    utts = [u["utt"] for u in corpus]
    n_oov = sum(t[0] not in t2i for u in corpus for t in u["tokens"])
    fill_used = False
    # "unlabelled intervals" exist in interval tiers only (the flag's meaning for point tiers is not documented consistently)
    fill = case["fill"] if all(u["kind"] == "segments" for u in corpus) else None
    with tx.scratch() as d:
        vf, t2i_swap, i2t_swap = _vocab_file(d, vocab)
        tg_in, tok_dir, tg_out, feat = (os.path.join(d, x) for x in ("tg_in", "tok", "tg_out", "feat"))
        os.makedirs(tg_in)
        idxs = set()
        for u in corpus:
            text, idx = _tg_text(case, u)
            idxs.add(idx)
            tx.write_text(os.path.join(tg_in, fix["prefix"] + u["utt"] + case["tg_suffix"]), text)
        select = case["select"]
        if select == "default" and (idxs != {0}):
            select = "name"
        if select == "idx" and len(idxs) != 1:
            select = "name"
        opts = _fix_args(fix) + t2i_swap + ["--frame-shift-ms", repr(fs), "--textgrid-suffix", case["tg_suffix"]]
        if select == "name":
            opts += ["--tier-name=" + case["tier_name"]]
        elif select == "idx":
            opts += ["--tier-idx", str(list(idxs)[0])]
        if case["unk"] is not None:
            opts += ["--unk-symbol=" + case["unk"]]
        if fill is not None:
            opts += ["--fill-symbol=" + fill]
        if case["decoy"]:
            tx.write_text(os.path.join(tg_in, fix["prefix"] + "notes.txt"), "not a TextGrid\n")
        _run("textgrids_to_torch_token_data_dir", [tg_in, vf, tok_dir] + opts, workers)
        require(_listing(tok_dir) == _names(fix, utts), "TextGrids->dir: one file per utterance, nothing else", _listing(tok_dir), _names(fix, utts))
        expected = {}
        for u in corpus:
            exp = []
            prev_end = None
            for w, a, b in u["tokens"]:
                if fill is not None and prev_end is not None and prev_end < a:
                    exp.append((fill, prev_end, a))
                    fill_used = True
                exp.append((w if w in t2i else case["unk"], a, b))
                prev_end = b
            expected[u["utt"]] = exp
            t = torch.load(os.path.join(tok_dir, fix["prefix"] + u["utt"] + fix["suffix"]))
            ids = [t2i[w] for w, _, _ in exp]
            ok = t.dtype == torch.long and list(t.shape) == [len(ids), 3] and t[:, 0].tolist() == ids and all(
                abs(s - a) <= 1 and abs(e - b) <= 1 for (s, e), (_, a, b) in zip(t[:, 1:].tolist(), exp))
            require(ok, "TextGrids->dir: tensor of %r (ids in order, frames within one of the original)" % u["utt"], t.tolist(), [ids, exp])
        if workers["n"]:
            tok0 = os.path.join(d, "tok0")
            _run("textgrids_to_torch_token_data_dir", [tg_in, vf, tok0] + opts, {"n": 0})
            _same_dirs(tok_dir, tok0, "TextGrids->dir with %d workers vs 0" % workers["n"])
        bopts = _fix_args(fix) + i2t_swap + ["--frame-shift-ms", repr(fs), "--textgrid-suffix", case["tg_suffix"], "--precision", str(p)]
        if case["out_tier_name"]:
            bopts += ["--tier-name=" + case["out_tier_name"]]
        if case["length"] == "feat":
            os.makedirs(feat)
            for u in corpus:
                T = u["tokens"][-1][2] + 2 + len(u["utt"])
                # only the number of frames matters: NaN values, stored as a view
                _save(torch, torch.full((T, 1), float("nan")), os.path.join(feat, fix["prefix"] + u["utt"] + fix["suffix"]), case.get("feat_layout"))
            bopts += ["--feat-dir", feat]
        else:
            bopts += ["--infer"]
        decoy = _decoy(tok_dir, fix) if case["decoy"] else None
        _restore(torch, tok_dir, _names(fix, utts), case.get("mid_layout"))
        if case.get("stale_out"):
            # the output directory holds an older, longer TextGrid of the first utterance
            os.makedirs(tg_out)
            tx.write_text(os.path.join(tg_out, fix["prefix"] + utts[0] + case["tg_suffix"]), _tg_text(case, corpus[0])[0] + '9\n"stale"\n' * 50)
        _run("torch_token_data_dir_to_textgrids", [tok_dir, vf, tg_out] + bopts, workers)
        exp_names = sorted(fix["prefix"] + u + case["tg_suffix"] for u in utts)
        require(_listing(tg_out) == exp_names, "dir->TextGrids: one file per utterance, nothing else", _listing(tg_out), exp_names)
        half = float(Fraction(1, 2) / 10 ** p) * (1 + 1e-9)
        for u in corpus:
            with open(os.path.join(tg_out, fix["prefix"] + u["utt"] + case["tg_suffix"])) as f:
                point, name, got = _parse_short_textgrid(f.read(), p)
            require(point == (u["kind"] == "points"), "dir->TextGrids: tier type of %r" % u["utt"], "TextTier" if point else "IntervalTier", u["kind"])
            require(name == (case["out_tier_name"] or "transcript"), "dir->TextGrids: tier name", name, case["out_tier_name"] or "transcript")
            exp = expected[u["utt"]]
            ok = len(got) == len(exp) and all(
                x[0] == y[0] and _close_times(x[1], y[1], fs, half) and _close_times(x[2], y[2], fs, half) for x, y in zip(got, exp))
            require(ok, "TextGrids->dir->TextGrids: tokens of %r (times within one frame of %g ms + half a print unit)" % (u["utt"], fs),
                    got, [(w, _sec(a, fs), _sec(b, fs)) for w, a, b in exp])
        if workers["n"]:
            tg0 = os.path.join(d, "tg_out0")
            _run("torch_token_data_dir_to_textgrids", [tok_dir, vf, tg0] + bopts, {"n": 0})
            _same_dirs(tg_out, tg0, "dir->TextGrids with %d workers vs 0" % workers["n"])
    wcl, wnt = _wk_classes(workers, len(utts))
    cl = _fix_classes(fix) + wcl + ["fs_%s" % fs, "precision_3" if p == 3 else "precision_not3", "format_" + case["format"],
                                    "select_" + select] + sorted({"kind_" + u["kind"] for u in corpus})
    if fill_used:
        cl.append("fill_gap")
    if case["length"] == "feat":
        cl.append("feat_dir")
    if n_oov:
        cl.append("oov")
    if decoy:
        cl.append("decoy")
    if any(_sec(u["tokens"][-1][2], fs) >= 10 for u in corpus):
        cl.append("time_ge_10s")
    if any(_sec(u["tokens"][-1][2], fs) >= 1000 for u in corpus):
        cl.append("time_ge_1000s")
    if any(u["kind"] == "points" and any(a[1] == b[1] and a[0] > b[0] for a, b in zip(u["tokens"], u["tokens"][1:])) for u in corpus):
        cl.append("coincident_points_labels_descending")
    if case["tg_suffix"].count(".") != 1 or not case["tg_suffix"].startswith("."):
        cl.append("textgrid_suffix_not_one_extension")
    cl += _layout_classes(case.get("mid_layout"))
    if case.get("stale_out"):
        cl.append("stale_out_file")
    if _big_ids([i for _, i in vocab["pairs"]]):
        cl.append("big_ids")
    return Info(nontrivial=bool(fix["prefix"]) or wnt, classes=cl)


# =============================================================================== error rates


@st.composite
def _er_case(draw, tier):
    big = tier == "thorough"
    use_vocab = draw(st.booleans())
    V = draw(st.integers(2, 5))
    vocab = draw(_vocab(V, V))
    ids = [i for _, i in vocab["pairs"]]
    # ids[0] is never ignored nor replaced: every reference keeps it, so no reference becomes empty
    safe = ids[0]
    rest = ids[1:]
    ignore = draw(st.lists(st.sampled_from(rest), max_size=2, unique=True))
    rep_src = draw(st.lists(st.sampled_from(rest), max_size=2, unique=True))
    replace = [[a, draw(st.sampled_from(ids))] for a in rep_src]
    n = draw(st.integers(1, 8 if big else 6))
    utts = draw(_utt_ids(n, n))
    tok = st.sampled_from(ids)
    pairs = []
    for u in utts:
        ref = draw(st.lists(tok, min_size=0, max_size=8 if big else 6))
        ref.insert(draw(st.integers(0, len(ref))), safe)
        other = [draw(tok) if draw(st.integers(0, 2)) == 0 else x for x in ref]
        j = draw(st.integers(0, len(ref) - 1))
        forced = list(ref)
        forced[j] = draw(tok.filter(lambda x: x != ref[j]))  # one substitution for certain
        hyp = draw(st.one_of(st.lists(tok, min_size=0, max_size=8 if big else 6), st.just(other), st.just(other[1:]), st.just(forced),
                             st.just(list(ref)), st.just(ref[1:]), st.just(ref + ref[:1])))
        pairs.append({"utt": u, "ref": ref, "hyp": hyp})
    costs = draw(st.sampled_from(["default", "default", "nist", "dyadic", "tie", "sub_big", "sub_big", "scaled", "scaled", "scaled"]))
    q = st.integers(1, 12).map(lambda k: k / 4)
    if costs == "dyadic":
        cvals = [draw(q), draw(q), draw(q)]
    elif costs == "scaled":  # the same grid times 2^-10 or 2^10: the printed figures are counts, so the scale must not matter
        sc = draw(st.sampled_from([2.0 ** -10, 2.0 ** -10, 2.0 ** 10]))
        # half of them with max(ins, del) < sub < ins + del: there the counts depend on the exact ratios of the costs
        base = draw(st.one_of(st.tuples(q, q, q), st.sampled_from([(0.5, 0.5, 0.75), (0.5, 0.75, 1.0), (0.75, 0.5, 1.0), (1.0, 1.0, 1.75),
                                                                  (0.25, 0.5, 0.625), (1.5, 1.0, 2.25)])))
        cvals = [c * sc for c in base]
        # a scale can only matter where something is aligned: identical pairs get one substitution
        for pr in pairs:
            if pr["hyp"] == pr["ref"]:
                j = len(pr["ref"]) // 2
                pr["hyp"] = list(pr["ref"])
                pr["hyp"][j] = ids[(ids.index(pr["ref"][j]) + 1) % len(ids)]
    elif costs == "tie":  # sub = ins + del: optimal alignments with different edit counts coexist
        i, dl = draw(st.integers(1, 6)) / 4, draw(st.integers(1, 6)) / 4
        cvals = [i, dl, i + dl]
    elif costs == "sub_big":  # a substitution costs more than a deletion plus an insertion: it counts as two edits
        i, dl = draw(st.integers(1, 6)) / 4, draw(st.integers(1, 6)) / 4
        cvals = [i, dl, i + dl + draw(st.integers(1, 6)) / 4]
    else:
        cvals = None
    case = {"fix": draw(_FIX), "use_vocab": use_vocab, "vocab": vocab, "ignore": ignore, "replace": replace, "pairs": pairs,
            "costs": costs, "cost_values": cvals, "batch_sizes": [draw(st.integers(1, 7)), draw(st.sampled_from([1, 2, 3, 100]))],
            "per_utt": draw(st.booleans()), "distances": draw(st.sampled_from([False, False, True])),
            "dirs": draw(st.sampled_from(["parent", "two", "two", "same"] if costs != "scaled" else ["parent", "two"])),
            "store": draw(st.sampled_from(["R3", "R3_timed", "R3_junk_times", "R", "R1"])),
            "decoy": draw(st.booleans()), "layout": [draw(_LAYOUT), draw(_LAYOUT)]}
    if n >= 2 and case["dirs"] != "same" and draw(st.integers(0, 3)) == 0:
        # --warn-missing: some utterances exist on one side only (never all of them); they are skipped, the others scored
        k = draw(st.integers(1, n - 1))
        idxs = draw(st.permutations(list(range(n))))[:k]
        case["missing"] = [[i, draw(st.sampled_from(["ref", "hyp"]))] for i in sorted(idxs)]
    return case


def _store_tokens(torch, path, ids, how, layout="own"):
    if how == "R":
        t = torch.tensor(ids, dtype=torch.long)
    elif how == "R1":
        t = torch.tensor(ids, dtype=torch.long).view(-1, 1)
    else:
        t = torch.full((len(ids), 3), -1, dtype=torch.long)
        t[:, 0] = torch.tensor(ids, dtype=torch.long)
        if how == "R3_timed":
            for r in range(len(ids)):
                t[r, 1], t[r, 2] = 2 * r, 2 * r + 1 + (r % 2)
        elif how == "R3_junk_times":  # the boundaries play no part in an error rate: anything may stand there
            junk = [[5, 2], [2 ** 40, -3], [-1, 7], [-7, -7], [0, 0], [-2 ** 62, 2 ** 62]]
            for r in range(len(ids)):
                t[r, 1], t[r, 2] = junk[r % len(junk)]
    _save(torch, t, path, layout)


@subcheck("C17", "error_rates", lambda tier: _er_case(tier), quick=400, thorough=4000,
          doc="1..6 reference/hypothesis pairs stored as (R,3)/(R,)/(R,1), with or without --id2token, --replace then --ignore (no reference "
              "becomes empty), default / NIST / dyadic / tie-provoking costs, --per-utt, --distances, two batch sizes: printed figure == "
              "edits / reference length with edits inside the [min, max] edit counts of the minimum-cost alignments (== Levenshtein for "
              "equal costs); identical print-out for both batch sizes whenever the count is unique; 1 case in 4 with utterances present on one "
              "side only: ValueError without --warn-missing, with it the figures of the common utterances",
          required_classes=["ignore_removes_token", "replace_changes_token", "costs_tie", "costs_sub_big", "count_ambiguous", "per_utt", "total", "prefix_p_",
                            "use_vocab", "ids_only", "batches_differ", "costs_scaled", "store_R3_junk_times", "same_dir_both_roles",
                            "view_storage_offset", "view_noncontiguous", "big_ids", "warn_missing_one_sided_utterances"])
def _error_rates(case):
    torch = _torch()
    fix, vocab = case["fix"], case["vocab"]
    i2t = {i: t for t, i in vocab["pairs"]}
    name = (lambda i: i2t[i]) if case["use_vocab"] else (lambda i: str(i))
    rep = {a: b for a, b in case["replace"]}
    ign = set(case["ignore"])
    norm = lambda seq: [rep.get(x, x) for x in seq if rep.get(x, x) not in ign]
    if case["costs"] == "nist":
        costs, cargs = (3.0, 3.0, 4.0), ["--nist-costs"]
    elif case["cost_values"]:
        costs, cargs = tuple(case["cost_values"]), ["--costs"] + [repr(c) for c in case["cost_values"]]
    else:
        costs, cargs = (1.0, 1.0, 1.0), []
    bounds = {}
    removed = changed = False
    same = case["dirs"] == "same"  # one directory in both roles: every hypothesis is its reference
    lay = case.get("layout") or ["own", "own"]
    missing = {case["pairs"][i]["utt"]: side for i, side in case.get("missing", [])}
    for pr in case["pairs"]:
        if pr["utt"] in missing:
            continue
        r, h = norm(pr["ref"]), norm(pr["ref"] if same else pr["hyp"])
        removed |= len(r) < len(pr["ref"]) or len(h) < len(pr["hyp"])
        changed |= any(x in rep and rep[x] != x and rep[x] not in ign for x in pr["ref"] + pr["hyp"])
        if case.get("band") is not None:
            # long pairs (sub-check size_thresholds): the hypothesis was derived from the reference by at most `band` edits and the
            # costs are equal, so the banded programme is exact and the quadratic ones are not needed
            assert costs[0] == costs[1] == costs[2], "harness: banded oracle needs equal costs"
            lo = hi = banded_unit_distance(r, h, case["band"])
            assert lo <= case["band"], "harness: more edits than the band allows"
            if len(r) * len(h) <= 5000:
                assert lo == unit_distance(r, h), "harness: banded and full programme disagree"
        else:
            _, lo, hi = edit_bounds(r, h, *costs)
            if costs[0] == costs[1] == costs[2]:
                u = unit_distance(r, h)
                assert lo == hi == u, "harness: the two reference DPs disagree"
        bounds[pr["utt"]] = (lo, hi, len(r))
    unique = all(lo == hi for lo, hi, _ in bounds.values())
    outputs = []
    with tx.scratch() as d:
        if case["dirs"] == "parent":
            ref_dir, hyp_dir = os.path.join(d, "ref"), os.path.join(d, "hyp")
            pos = [d]
        else:
            ref_dir, hyp_dir = os.path.join(d, "gold"), os.path.join(d, "sys")
            pos = [ref_dir, ref_dir if same else hyp_dir]
        os.makedirs(ref_dir)
        os.makedirs(hyp_dir)
        for pr in case["pairs"]:
            fn = fix["prefix"] + pr["utt"] + fix["suffix"]
            _store_tokens(torch, os.path.join(ref_dir, fn), pr["ref"], case["store"], lay[0])
            _store_tokens(torch, os.path.join(hyp_dir, fn), pr["hyp"], "R3" if case["store"] == "R3_timed" else case["store"], lay[1])
        for u, side in missing.items():
            os.remove(os.path.join(ref_dir if side == "ref" else hyp_dir, fix["prefix"] + u + fix["suffix"]))
        if case["decoy"]:
            _decoy(ref_dir, fix)
            _decoy(hyp_dir, fix)
        opts = _fix_args(fix) + cargs + ["--quiet"]
        if case["use_vocab"]:
            vf, _, i2t_swap = _vocab_file(d, vocab)
            opts += ["--id2token", vf] + i2t_swap
        if case["replace"]:
            p = os.path.join(d, "replace.txt")
            tx.write_text(p, "".join("%s %s\n" % (name(a), name(b)) for a, b in case["replace"]))
            opts += ["--replace", p]
        if case["ignore"]:
            p = os.path.join(d, "ignore.txt")
            tx.write_text(p, " ".join(name(a) for a in case["ignore"]) + "\n")
            opts += ["--ignore", p]
        if case["per_utt"]:
            opts.append("--per-utt")
        if case["distances"]:
            opts.append("--distances")
        if missing:
            with expect_raises(ValueError, what="error rates over directories that list different utterances, without --warn-missing"):
                _run("compute_torch_token_data_dir_error_rates", pos + ([os.path.join(d, "none.txt")] if case["dirs"] != "parent" else []) + opts)
            opts.append("--warn-missing")
        for k, bs in enumerate(case["batch_sizes"]):
            out = os.path.join(d, "out%d.txt" % k)
            args = pos + ([out] if case["dirs"] != "parent" else []) + opts + ["--batch-size", str(bs)]
            if case["dirs"] == "parent":
                # 'out' is the third positional; with a parent directory the figure goes to stdout
                import contextlib
                import io

                buf = io.StringIO()
                with contextlib.redirect_stdout(buf):
                    _run("compute_torch_token_data_dir_error_rates", args)
                outputs.append(buf.getvalue())
            else:
                _run("compute_torch_token_data_dir_error_rates", args)
                with open(out) as f:
                    outputs.append(f.read())
    for bs, text in zip(case["batch_sizes"], outputs):
        what = "batch size %d: " % bs
        if case["per_utt"]:
            got = {}
            for line in text.splitlines():
                u, v = line.split()
                require(u not in got, what + "utterance %r printed twice" % u, text, None)
                got[u] = float(v)
            require(sorted(got) == sorted(bounds), what + "--per-utt lists exactly the utterances", sorted(got), sorted(bounds))
            for u, (lo, hi, n) in bounds.items():
                den = 1 if case["distances"] else n
                ok = any(got[u] == m / den for m in range(lo, hi + 1))
                require(ok, what + "figure of %r is not edits/%d with edits in [%d, %d]" % (u, den, lo, hi), got[u], [lo / den, hi / den])
        else:
            lines = text.splitlines()
            require(len(lines) == 1, what + "one figure expected", text, None)
            v = float(lines[0])
            LO, HI = sum(b[0] for b in bounds.values()), sum(b[1] for b in bounds.values())
            den = len(bounds) if case["distances"] else sum(b[2] for b in bounds.values())
            ok = any(v == m / den for m in range(LO, HI + 1))
            require(ok, what + "figure is not total edits/%d with total edits in [%d, %d]" % (den, LO, HI), v, [LO / den, HI / den])
    if unique:
        require(outputs[0] == outputs[1], "print-out depends on the batch size (%d vs %d)" % tuple(case["batch_sizes"]), outputs[0], outputs[1])
    cl = _fix_classes(fix) + ["costs_" + case["costs"], "per_utt" if case["per_utt"] else "total", "use_vocab" if case["use_vocab"] else "ids_only",
                              "store_" + case["store"], "dirs_" + case["dirs"]]
    if removed:
        cl.append("ignore_removes_token")
    if changed:
        cl.append("replace_changes_token")
    if not unique:
        cl.append("count_ambiguous")
    if case["distances"]:
        cl.append("distances")
    if missing:
        cl.append("warn_missing_one_sided_utterances")
    n = len(case["pairs"])
    if -(-n // case["batch_sizes"][0]) != -(-n // case["batch_sizes"][1]):
        cl.append("batches_differ")
    cl += _layout_classes(*lay)
    if same:
        require(all(float(x.split()[-1]) == 0.0 for t in outputs for x in t.splitlines()), "one directory as reference and hypothesis: every figure is 0",
                outputs, 0.0)
        cl.append("same_dir_both_roles")
    if _big_ids([i for _, i in vocab["pairs"]]):
        cl.append("big_ids")
    return Info(nontrivial=removed or bool(fix["prefix"]), classes=cl)


# =============================================================================== subsetting

_CRITERIA = ["utt-list", "utt-list-file", "first-n", "first-ratio", "last-n", "last-ratio", "shortest-n", "shortest-ratio",
             "longest-n", "longest-ratio", "rand-n", "rand-ratio"]


@st.composite
def _subset_case(draw, tier):
    big = tier == "thorough"
    n = draw(st.integers(1, 9 if big else 7))
    utts = draw(_utt_ids(n, n))
    lens = [draw(st.integers(1, 4)) for _ in utts]  # few distinct lengths: ties broken by id
    crit = draw(st.sampled_from(_CRITERIA))
    c = {"fix": draw(_FIX), "utts": utts, "lens": lens, "criterion": crit,
         "has_ali": [draw(st.booleans()) for _ in utts], "has_ref": [draw(st.booleans()) for _ in utts],
         "ali_dir": draw(st.booleans()), "ref_dir": draw(st.booleans()), "only": draw(st.sampled_from([False, False, True])),
         "style": draw(st.sampled_from(["link", "copy", "symlink"])), "workers": draw(_workers()), "decoy": draw(st.booleans()),
         "seed": draw(st.integers(0, 99)), "layout": draw(st.lists(_LAYOUT, min_size=1, max_size=4))}
    if crit.startswith("utt-list"):
        pool = utts + draw(st.lists(tx.file_ids().filter(lambda x: x not in utts), max_size=2, unique=True))
        c["ids"] = draw(st.lists(st.sampled_from(pool), min_size=1, max_size=len(pool), unique=True))
    elif crit.endswith("-n"):
        c["n"] = draw(st.integers(0, n + 2))
    else:
        c["ratio"] = draw(st.sampled_from([0.0, 0.125, 0.25, 0.5, 0.75, 1.0]))  # dyadic: N * ratio is exact
    return c


@subcheck("C17", "subset", lambda tier: _subset_case(tier), quick=250, thorough=3000,
          doc="feat/ (+ partial ali/, ref/) directories with every prefix/suffix; every criterion (--utt-list incl. unknown ids, list file, "
              "first/last/shortest/longest n and dyadic ratios, seeded random), hard link / copy / symlink, --only, simulated pool: the "
              "destination holds exactly the requested utterances' files, byte-identical to the source; random selection has the requested "
              "size and is repeatable for a fixed seed",
          required_classes=["prefix_p_", "crit_shortest", "crit_longest", "crit_first", "crit_last", "crit_utt-list", "crit_rand",
                            "length_ties", "style_symlink", "only", "reordered_completion", "partial_ali_ref", "lengths_of_stored_views"])
def _subset(case):
    torch = _torch()
    fix, utts, lens, workers, crit = case["fix"], case["utts"], case["lens"], case["workers"], case["criterion"]
    N = len(utts)
    length = dict(zip(utts, lens))
    layouts = case.get("layout") or ["own"]
    if isinstance(layouts, str):
        layouts = [layouts]
    if crit.startswith("utt-list"):
        want = [u for u in case["ids"] if u in length]
        exact = True
    else:
        k = case["n"] if "n" in case else int(Fraction(case["ratio"]) * N)  # "Ratios are rounded down"
        k = min(k, N)
        kind = crit.split("-")[0]
        if kind == "first":
            want = sorted(utts)[:k]
        elif kind == "last":
            want = sorted(utts, reverse=True)[:k]
        elif kind == "shortest":
            want = sorted(utts, key=lambda u: (length[u], u))[:k]
        elif kind == "longest":
            want = sorted(utts, key=lambda u: (-length[u], u))[:k]
        else:
            want = None
        exact = want is not None
    # shortest/longest read the features through a DataLoader with --num-workers processes: keep those at 0 here
    # (real worker processes are exercised by the sub-check workers_real)
    if crit.startswith(("shortest", "longest")):
        workers = {"n": 0, "chunk": 1, "order": [0]}
    with tx.scratch() as d:
        src = os.path.join(d, "src")
        only = case["only"]
        subdirs = ["feat"] + (["ali"] if case["ali_dir"] else []) + (["ref"] if case["ref_dir"] else [])
        if only:
            subdirs = [""]
        for sd in subdirs:
            os.makedirs(os.path.join(src, sd), exist_ok=True)
        present = {sd: [] for sd in subdirs}
        for i, u in enumerate(utts):
            fn = fix["prefix"] + u + fix["suffix"]
            for sd in subdirs:
                if sd == "ali" and not case["has_ali"][i] or sd == "ref" and not case["has_ref"][i]:
                    continue
                if sd in ("feat", ""):
                    t = torch.full((lens[i], 2), float(i))
                elif sd == "ali":
                    t = torch.full((lens[i],), i, dtype=torch.long)
                else:
                    t = torch.tensor([[i, 0, lens[i]]])
                _save(torch, t, os.path.join(src, sd, fn), layouts[i % len(layouts)])
                present[sd].append(u)
        if case["decoy"]:
            _decoy(os.path.join(src, subdirs[0]), fix)
        opts = _fix_args(fix) + {"link": [], "copy": ["--copy"], "symlink": ["--symlink"]}[case["style"]] + (["--only"] if only else [])
        if crit == "utt-list":
            copts = ["--utt-list"] + case["ids"]
        elif crit == "utt-list-file":
            lf = os.path.join(d, "list.txt")
            tx.write_text(lf, "".join(u + "\n" for u in case["ids"]))
            copts = ["--utt-list-file", lf]
        elif "n" in case:
            copts = ["--" + crit, str(case["n"])]
        else:
            copts = ["--" + crit, repr(case["ratio"])]
        if crit.startswith("rand"):
            copts += ["--seed", str(case["seed"])]

        def run(dest, wk):
            # positional arguments first: --utt-list takes a variable number of values
            fn = getattr(_cl(), "subset_torch_spect_data_dir")
            args = [src, dest] + opts + ["--num-workers", str(wk["n"]), "--mp-chunk-size", str(wk["chunk"])] + copts
            with warnings.catch_warnings():
                warnings.simplefilter("ignore")
                if wk["n"]:
                    with tx.simulated_pool(wk["order"]):
                        rc = fn(args)
                else:
                    rc = fn(args)
            require(rc in (0, None), "subset_torch_spect_data_dir %s: non-zero exit status" % " ".join(args), rc, 0)

        dest = os.path.join(d, "dest")
        run(dest, workers)
        got_feat = _listing(os.path.join(dest, subdirs[0]))
        if exact:
            require(got_feat == _names(fix, want), "--%s: destination %s/ does not hold exactly the requested utterances" % (crit, subdirs[0] or "."),
                    got_feat, _names(fix, want))
            chosen = want
        else:
            k = min(case["n"] if "n" in case else int(Fraction(case["ratio"]) * N), N)
            all_names = set(_names(fix, utts))
            require(len(got_feat) == k and set(got_feat) <= all_names, "--%s: %d of the source utterances expected" % (crit, k), got_feat, k)
            plen, slen = len(fix["prefix"]), len(fix["suffix"])
            chosen = [x[plen:len(x) - slen] for x in got_feat]
            dest2 = os.path.join(d, "dest2")
            run(dest2, {"n": 0, "chunk": 1, "order": [0]})
            require(_listing(os.path.join(dest2, subdirs[0])) == got_feat, "--%s with a fixed --seed is not repeatable" % crit,
                    _listing(os.path.join(dest2, subdirs[0])), got_feat)
        for sd in subdirs:
            exp = _names(fix, [u for u in chosen if u in present[sd]])
            got = _listing(os.path.join(dest, sd))
            require(got == exp, "destination %s/: files of the chosen utterances present in the source, nothing else" % (sd or "."), got, exp)
            for fn in got:
                a, b = tx.read_bytes(os.path.join(dest, sd, fn)), tx.read_bytes(os.path.join(src, sd, fn))
                require(a == b, "destination file %s/%s differs from the source" % (sd, fn), len(a), len(b))
                if case["style"] == "symlink":
                    require(os.path.islink(os.path.join(dest, sd, fn)), "--symlink: not a symbolic link", fn, None)
        if not only:
            extra = sorted(set(os.listdir(dest)) - set(subdirs))
            require(not extra, "destination has unexpected entries", extra, [])
        if workers["n"] and exact:
            dest0 = os.path.join(d, "dest0")
            run(dest0, {"n": 0, "chunk": 1, "order": [0]})
            _same_dirs(dest, dest0, "subset with %d workers vs 0" % workers["n"])
    wcl, wnt = _wk_classes(workers, len(chosen))
    cl = _fix_classes(fix) + wcl + ["crit_" + crit.split("-")[0] if not crit.startswith("utt-list") else "crit_utt-list", "style_" + case["style"]]
    if only:
        cl.append("only")
    if len(set(lens)) < len(lens) and crit.startswith(("shortest", "longest")):
        cl.append("length_ties")
    if not only and any(len(present[sd]) < N for sd in subdirs):
        cl.append("partial_ali_ref")
    if crit.startswith("utt-list") and len(want) < len(case["ids"]):
        cl.append("unknown_ids_requested")
    cl += _layout_classes(*layouts)
    if crit.startswith(("shortest", "longest")) and len({layouts[i % len(layouts)] for i in range(N)}) > 1:
        cl.append("lengths_of_stored_views")  # utterances stored in different ways: storage sizes and lengths are ordered differently
    return Info(nontrivial=bool(fix["prefix"]) or wnt or 0 < len(chosen) < N, classes=cl)


# =============================================================================== statistics commands


def _fmt_ok(printed, exact, p, sqrt=False):
    """``printed`` has exactly p decimals and lies within half a print unit of the exact value."""
    if not re.match(r"^-?\d+$" if p == 0 else r"^-?\d+\.\d{%d}$" % p, printed):
        return False
    getcontext().prec = 60
    ex = Decimal(exact.numerator) / Decimal(exact.denominator)
    if sqrt:
        ex = ex.sqrt()
    return abs(Decimal(printed) - ex) <= Decimal(1).scaleb(-p) / 2 + Decimal(10) ** -9


def _expected_moments(lens, bessel):
    c = len(lens)
    if c == 0:
        return None, None
    mean = Fraction(sum(lens), c)
    var = Fraction(sum(x * x for x in lens), c) - mean * mean
    if bessel:
        if c == 1:
            return mean, "n/a"
        var = var * c / (c - 1)
    return mean, var


@st.composite
def _moments_case(draw, tier):
    big = tier == "thorough"
    kind = draw(st.sampled_from(["ali", "ref"]))
    utts = draw(_utt_ids(1, 7 if big else 5))
    labels = draw(st.sampled_from([[0, 1, 2, 7], [0, 1, 2, 7], [-1, 2 ** 40, 2, 7]]))
    data = []
    for _ in utts:
        if kind == "ali":
            data.append(draw(st.lists(st.sampled_from(labels), min_size=1, max_size=14)))
        else:
            segs = []
            for _ in range(draw(st.integers(0, 6))):
                a = draw(st.integers(0, 30))
                how = draw(st.sampled_from(["ok", "ok", "ok", "zero", "missing", "reversed"]))
                b = {"ok": a + draw(st.integers(1, 9)), "zero": a, "missing": -1, "reversed": a - 1 - draw(st.integers(0, 3))}[how]
                if how == "missing" and draw(st.booleans()):
                    a = -1
                segs.append([draw(st.sampled_from(labels)), a, b])
            data.append(segs)
    return {"kind": kind, "fix": draw(_FIX), "utts": utts, "data": data, "p": draw(st.sampled_from([3, 0, 1, 2, 4, 6])),
            "bessel": draw(st.booleans()), "std": draw(st.booleans()),
            "exclude": draw(st.one_of(st.none(), st.lists(st.sampled_from(labels[:2] + [2, 7, 9]), min_size=1, max_size=3))),
            "strict": draw(st.sampled_from([False, False, False, True])), "workers": draw(_workers()), "decoy": draw(st.booleans()),
            "layout": draw(_LAYOUT)}


@subcheck("C17", "length_moments", lambda tier: _moments_case(tier), quick=300, thorough=4000,
          doc="ali/ and ref/ directories (refs with zero-length, missing and reversed segments), --exclude-ids, --bessel, --std, --precision "
              "0..6, every prefix/suffix, simulated pool: printed '<mean> (<var>)' == pooled moments of run lengths / segment lengths in exact "
              "rational arithmetic (within half a print unit), 'n/a' conventions, --strict raises on unusable segments; same text for 0 workers",
          required_classes=["kind_ali", "kind_ref", "bessel", "std", "exclude", "precision_not3", "prefix_p_", "reordered_completion",
                            "invalid_segments", "n/a", "view_storage_offset", "view_noncontiguous",
                            "big_ids"])
def _length_moments(case):
    torch = _torch()
    fix, workers, p, kind = case["fix"], case["workers"], case["p"], case["kind"]
    excl = set(case["exclude"] or [])
    lens = []
    invalid = False
    for item in case["data"]:
        if kind == "ali":
            lens += [b - a for lab, a, b in _rle(item) if lab not in excl]
        else:
            for lab, a, b in item:
                if lab in excl:
                    continue
                if 0 <= a <= b:
                    lens.append(b - a)
                else:
                    invalid = True
    mean, var = _expected_moments(lens, case["bessel"])
    cmd = "print_torch_%s_data_dir_length_moments" % kind
    with tx.scratch() as d:
        src = os.path.join(d, kind)
        os.makedirs(src)
        for u, item in zip(case["utts"], case["data"]):
            t = torch.tensor(item, dtype=torch.long) if kind == "ali" else torch.tensor(item, dtype=torch.long).view(-1, 3)
            _save(torch, t, os.path.join(src, fix["prefix"] + u + fix["suffix"]), case.get("layout"))
        if case["decoy"]:
            _decoy(src, fix)
        opts = _fix_args(fix) + ["--precision", str(p)] + (["--bessel"] if case["bessel"] else []) + (["--std"] if case["std"] else [])
        strict = kind == "ref" and case["strict"]
        if kind == "ref":
            opts += ["--strict"] if strict else ["--quiet"]

        def run(wk, out):
            # positional arguments first: --exclude-ids takes a variable number of values
            args = [src, out] + opts + (["--exclude-ids"] + [str(x) for x in case["exclude"]] if case["exclude"] else [])
            _run(cmd, args, wk)
            with open(out) as f:
                return f.read()

        if strict and invalid:
            with expect_raises(ValueError, what="--strict with segments lacking usable boundaries"):
                run({"n": 0}, os.path.join(d, "o.txt"))
            return Info(nontrivial=True, classes=["kind_ref", "strict_raises", "invalid_segments"])
        text = run(workers, os.path.join(d, "out.txt"))
        m = re.match(r"^(\S+) \((\S+)\)\n$", text)
        require(m is not None, "output is not '<mean> (<var>)'", text, None)
        gm, gv = m.groups()
        if mean is None:
            require((gm, gv) == ("n/a", "n/a"), "no segments counted: 'n/a (n/a)' expected", text, "n/a (n/a)")
        else:
            require(_fmt_ok(gm, mean, p), "mean of %d lengths at precision %d" % (len(lens), p), gm, float(mean))
            if var == "n/a":
                require(gv == "n/a", "Bessel correction with one sample: 'n/a' expected", gv, "n/a")
            else:
                require(_fmt_ok(gv, var, p, sqrt=case["std"]), "%s of %d lengths at precision %d (bessel=%s)" % (
                    "standard deviation" if case["std"] else "variance", len(lens), p, case["bessel"]), gv,
                    float(var) ** 0.5 if case["std"] else float(var))
        if workers["n"]:
            text0 = run({"n": 0}, os.path.join(d, "out0.txt"))
            require(text == text0, "print-out with %d workers differs from 0 workers" % workers["n"], text, text0)
    wcl, wnt = _wk_classes(workers, len(case["utts"]))
    cl = _fix_classes(fix) + wcl + ["kind_" + kind, "precision_3" if p == 3 else "precision_not3"]
    for k in ("bessel", "std"):
        if case[k]:
            cl.append(k)
    if excl:
        cl.append("exclude")
    if invalid:
        cl.append("invalid_segments")
    if mean is None or var == "n/a":
        cl.append("n/a")
    cl += _layout_classes(case.get("layout"))
    if _big_ids([x if kind == "ali" else x[0] for item in case["data"] for x in item]):
        cl.append("big_ids")
    return Info(nontrivial=bool(fix["prefix"]) or wnt or bool(excl), classes=cl)


@st.composite
def _mvn_case(draw, tier):
    utts = draw(_utt_ids(1, 5))
    F = draw(st.integers(1, 3))
    val = st.integers(-32, 32).map(lambda k: k / 8)
    feats = [draw(st.lists(st.lists(val, min_size=F, max_size=F), min_size=2, max_size=5)) for _ in utts]
    groups = draw(st.one_of(st.none(), st.lists(st.sampled_from(["g1", "g2", "g3"]), min_size=len(utts), max_size=len(utts))))
    return {"fix": draw(_FIX), "utts": utts, "feats": feats, "groups": groups, "bessel": draw(st.booleans()),
            "dtype": draw(st.sampled_from(["float32", "float64"])), "decoy": draw(st.booleans()), "layout": draw(_LAYOUT)}


@subcheck("C17", "mvn_stats", lambda tier: _mvn_case(tier), quick=150, thorough=2000,
          doc="feature directories (dyadic values, 1..5 files, optional --id2gid groups, --bessel): stored mean / std == pooled moments of "
              "all frames of the group (exact rationals; mean at 1e-6, std at 1e-5)",
          required_classes=["groups", "bessel", "prefix_p_", "view_storage_offset", "view_noncontiguous"])
def _mvn_stats(case):
    torch = _torch()
    fix = case["fix"]
    groups = case["groups"]
    by = {}
    for u, f, g in zip(case["utts"], case["feats"], groups or [None] * len(case["utts"])):
        by.setdefault(g, []).extend(f)
    # MeanVarianceNormalization.store() documents one frame as enough without Bessel's correction but demands two in
    # either case; that is the module's own contract (not this command's), so one-frame groups are left out here
    if any(len(rows) < 2 for rows in by.values()):
        raise Reject("fewer than two frames in a group")
    with tx.scratch() as d:
        src = os.path.join(d, "feat")
        os.makedirs(src)
        for u, f in zip(case["utts"], case["feats"]):
            _save(torch, torch.tensor(f, dtype=getattr(torch, case["dtype"])), os.path.join(src, fix["prefix"] + u + fix["suffix"]), case.get("layout"))
        if case["decoy"]:
            _decoy(src, fix)
        out = os.path.join(d, "stats.pt")
        opts = _fix_args(fix) + (["--bessel"] if case["bessel"] else [])
        if groups:
            gf = os.path.join(d, "id2gid.txt")
            tx.write_text(gf, "".join("%s %s\n" % (u, g) for u, g in zip(case["utts"], groups)))
            opts += ["--id2gid", gf]
        _run("compute_mvn_stats_for_torch_feat_data_dir", [src, out] + opts, dataloader_workers=0)
        stats = torch.load(out)
    if not groups:
        stats = {None: stats}
    require(sorted(stats, key=str) == sorted(by, key=str), "groups in the statistics file", sorted(stats, key=str), sorted(by, key=str))
    for g, rows in by.items():
        n = len(rows)
        F = len(rows[0])
        mean = [Fraction(0)] * F
        for r in rows:
            mean = [m + Fraction(x) for m, x in zip(mean, r)]
        mean = [m / n for m in mean]
        var = [sum((Fraction(r[j]) - mean[j]) ** 2 for r in rows) / (n - 1 if case["bessel"] else n) for j in range(F)]
        gm, gs = stats[g]["mean"].tolist(), stats[g]["std"].tolist()
        ok = len(gm) == F and all(abs(a - float(b)) <= 1e-6 for a, b in zip(gm, mean))
        require(ok, "mean of group %r over %d frames" % (g, n), gm, [float(x) for x in mean])
        ok = len(gs) == F and all(abs(a - float(b) ** 0.5) <= 1e-5 for a, b in zip(gs, var))
        require(ok, "std of group %r over %d frames (bessel=%s)" % (g, n, case["bessel"]), gs, [float(x) ** 0.5 for x in var])
    cl = _fix_classes(fix) + (["groups"] if groups and len(by) >= 2 else []) + (["bessel"] if case["bessel"] else [])
    cl += _layout_classes(case.get("layout")) + ["dtype_" + case["dtype"]]
    return Info(nontrivial=len(case["utts"]) >= 2, classes=cl)


# =============================================================================== real worker processes


@st.composite
def _real_case(draw, tier):
    kinds = [draw(st.sampled_from(["dataloader_trn", "dataloader_mvn", "dataloader_subset"]))]
    spawn = draw(st.sampled_from([None, None, "spawn_ali", "spawn_moments"]))  # a spawn pool costs seconds: one case in two
    if spawn:
        kinds.append(spawn)
    utts = draw(_utt_ids(3, 6))
    return {"kinds": kinds, "fix": draw(_FIX), "utts": utts, "k": draw(st.sampled_from([1, 2, 3])), "chunk": draw(st.integers(1, 3)),
            "seqs": [draw(st.lists(st.integers(0, 2), min_size=1, max_size=8)) for _ in utts]}


@subcheck("C17", "workers_real", lambda tier: _real_case(tier), quick=6, thorough=40, timeout_s=2400,
          doc="a bounded number of runs with real processes: DataLoader workers (dir->trn, mvn statistics, subset --shortest-n) and real spawn "
              "pools (ali->ref, ali length moments) with 1..3 workers produce the same files / text as --num-workers 0",
          required_classes=["real_dataloader"])
def _workers_real(case):
    cl = []
    for kind in case["kinds"]:
        cl += _workers_real_one(case, kind)
    return Info(nontrivial=len(case["utts"]) >= 3, classes=sorted(set(cl)))


def _workers_real_one(case, kind):
    torch = _torch()
    fix, utts, k = case["fix"], case["utts"], case["k"]
    wargs = lambda n: ["--num-workers", str(n)] + (["--mp-chunk-size", str(case["chunk"])] if kind.startswith("spawn") or kind == "dataloader_subset" else [])
    fn = lambda u: fix["prefix"] + u + fix["suffix"]

    def call(name, args):
        with warnings.catch_warnings():
            warnings.simplefilter("ignore")
            rc = getattr(_cl(), name)([str(a) for a in args])
        require(rc in (0, None), name + ": non-zero exit status", rc, 0)

    with tx.scratch() as d:
        src = os.path.join(d, "src")
        os.makedirs(src)
        if kind == "dataloader_trn":
            for u, s in zip(utts, case["seqs"]):
                torch.save(torch.tensor(s), os.path.join(src, fn(u)))
            vf = os.path.join(d, "id2token.txt")
            tx.write_text(vf, "0 a\n1 b\n2 c\n")
            outs = []
            for n in (0, k):
                out = os.path.join(d, "out%d.trn" % n)
                call("torch_token_data_dir_to_trn", [src, vf, out] + _fix_args(fix) + wargs(n))
                outs.append(tx.read_bytes(out))
            require(outs[0] == outs[1], "dir->trn: %d DataLoader workers vs 0" % k, outs[1].decode(), outs[0].decode())
            exp = "".join("%s (%s)\n" % (" ".join("abc"[x] for x in s), u) for u, s in sorted(zip(utts, case["seqs"])))
            require([l.split() for l in outs[0].decode().split("\n")] == [l.split() for l in exp.split("\n")],
                    "dir->trn content", outs[0].decode(), exp)
        elif kind == "dataloader_mvn":
            for u, s in zip(utts, case["seqs"]):
                torch.save(torch.tensor(s, dtype=torch.float32).view(-1, 1) / 4, os.path.join(src, fn(u)))
            res = []
            for n in (0, k):
                out = os.path.join(d, "stats%d.pt" % n)
                call("compute_mvn_stats_for_torch_feat_data_dir", [src, out] + _fix_args(fix) + wargs(n))
                res.append(torch.load(out))
            if sum(len(s) for s in case["seqs"]) < 2:
                raise Reject("too few frames")
            ok = all(torch.equal(res[0][key], res[1][key]) for key in ("mean", "std"))
            require(ok, "mvn statistics: %d DataLoader workers vs 0" % k, [res[1]["mean"].tolist(), res[1]["std"].tolist()],
                    [res[0]["mean"].tolist(), res[0]["std"].tolist()])
        elif kind == "dataloader_subset":
            os.makedirs(os.path.join(src, "feat"))
            for u, s in zip(utts, case["seqs"]):
                torch.save(torch.zeros(len(s), 1), os.path.join(src, "feat", fn(u)))
            dests = []
            for n in (0, k):
                dest = os.path.join(d, "dest%d" % n)
                call("subset_torch_spect_data_dir", [src, dest, "--shortest-n", "2", "--copy"] + _fix_args(fix) + wargs(n))
                dests.append(dest)
            _same_dirs(dests[1], dests[0], "subset --shortest-n: %d workers vs 0" % k)
            want = sorted(utts, key=lambda u: (len(case["seqs"][utts.index(u)]), u))[:2]
            require(_listing(os.path.join(dests[0], "feat")) == _names(fix, want), "subset --shortest-n 2", _listing(os.path.join(dests[0], "feat")), _names(fix, want))
        elif kind == "spawn_ali":
            for u, s in zip(utts, case["seqs"]):
                torch.save(torch.tensor(s), os.path.join(src, fn(u)))
            outs = []
            for n in (0, k):
                out = os.path.join(d, "ref%d" % n)
                call("torch_ali_data_dir_to_torch_token_data_dir", [src, out] + _fix_args(fix) + wargs(n))
                outs.append(out)
            _same_dirs(outs[1], outs[0], "ali->ref: real pool of %d vs 0 workers" % k)
            require(_listing(outs[0]) == _names(fix, utts), "ali->ref: one file per utterance", _listing(outs[0]), _names(fix, utts))
        else:
            for u, s in zip(utts, case["seqs"]):
                torch.save(torch.tensor(s), os.path.join(src, fn(u)))
            texts = []
            for n in (0, k):
                out = os.path.join(d, "m%d.txt" % n)
                call("print_torch_ali_data_dir_length_moments", [src, out] + _fix_args(fix) + wargs(n))
                with open(out) as f:
                    texts.append(f.read())
            require(texts[0] == texts[1], "ali length moments: real pool of %d vs 0 workers" % k, texts[1], texts[0])
    return ["kind_" + kind, "real_dataloader" if kind.startswith("dataloader") else "real_spawn_pool"] + _fix_classes(fix)


# =============================================================================== chunking command (window of one unit)


@st.composite
def _chunk_case(draw, tier):
    utts = draw(_utt_ids(1, 5))
    policy = draw(st.sampled_from(["fixed", "ali", "ref"]))
    alis = [draw(st.lists(st.integers(0, 2), min_size=1, max_size=10)) for _ in utts]
    return {"fix": draw(_FIX), "utts": utts, "policy": policy, "alis": alis,
            "with_ali": policy == "ali" or draw(st.booleans()), "with_ref": policy == "ref" or draw(st.booleans()),
            "workers": draw(_workers()), "layout": draw(_LAYOUT), "feat_dtype": draw(st.sampled_from(["float32", "float32", "float64"]))}


@subcheck("C17", "chunk_cli", lambda tier: _chunk_case(tier), quick=120, thorough=1500,
          doc="chunk-torch-spect-data-dir with --lobe-size 0 under the three policies (fixed: one frame per chunk; ali: one chunk per run of "
              "equal labels; ref: one chunk per token segment, the segments partitioning the utterance): the output feat/ and ali/ hold "
              "exactly the documented slices under the documented names; simulated pool changes no byte",
          required_classes=["policy_fixed", "policy_ali", "policy_ref", "prefix_p_", "reordered_completion", "view_storage_offset", "view_noncontiguous", "feat_float64"])
def _chunk_cli(case):
    torch = _torch()
    fix, utts, policy, workers = case["fix"], case["utts"], case["policy"], case["workers"]
    fn = lambda u: fix["prefix"] + u + fix["suffix"]
    fdt = getattr(torch, case.get("feat_dtype") or "float32")
    exp = {}
    for i, (u, a) in enumerate(zip(utts, case["alis"])):
        T = len(a)
        segs = [(s, e) for _, s, e in _rle(a)]
        slices = [(t, t + 1) for t in range(T)] if policy == "fixed" else segs
        for s, e in slices:
            exp["%s.%05d.%05d" % (u, s, e)] = (i, s, e)
    with tx.scratch() as d:
        src = os.path.join(d, "src")
        for sd in ["feat"] + (["ali"] if case["with_ali"] else []) + (["ref"] if case["with_ref"] else []):
            os.makedirs(os.path.join(src, sd))
        for i, (u, a) in enumerate(zip(utts, case["alis"])):
            T = len(a)
            feats = torch.arange(T * 2, dtype=fdt).view(T, 2) + 100 * i
            _save(torch, feats, os.path.join(src, "feat", fn(u)), case.get("layout"))
            if case["with_ali"]:
                _save(torch, torch.tensor(a, dtype=torch.long), os.path.join(src, "ali", fn(u)), case.get("layout"))
            if case["with_ref"]:
                _save(torch, torch.tensor(_rle(a), dtype=torch.long), os.path.join(src, "ref", fn(u)), case.get("layout"))
        outs = []
        for wk in ([workers] if not workers["n"] else [workers, {"n": 0}]):
            out = os.path.join(d, "out%d" % len(outs))
            _run("chunk_torch_spect_data_dir", [src, out, "--policy", policy, "--lobe-size", "0", "--quiet"] + _fix_args(fix), wk)
            outs.append(out)
        out = outs[0]
        names = sorted(fix["prefix"] + k + fix["suffix"] for k in exp)
        require(_listing(os.path.join(out, "feat")) == names, "chunk --policy %s: chunk names in feat/" % policy, _listing(os.path.join(out, "feat")), names)
        for k, (i, s, e) in exp.items():
            T = len(case["alis"][i])
            want = (torch.arange(T * 2, dtype=fdt).view(T, 2) + 100 * i)[s:e]
            got = torch.load(os.path.join(out, "feat", fix["prefix"] + k + fix["suffix"]))
            require(got.dtype == want.dtype and got.shape == want.shape and torch.equal(got, want), "chunk %s: features are not frames [%d, %d)" % (k, s, e), got.tolist(), want.tolist())
            if case["with_ali"]:
                got = torch.load(os.path.join(out, "ali", fix["prefix"] + k + fix["suffix"]))
                require(got.tolist() == case["alis"][i][s:e], "chunk %s: alignment is not frames [%d, %d)" % (k, s, e), got.tolist(), case["alis"][i][s:e])
        if case["with_ali"]:
            require(_listing(os.path.join(out, "ali")) == names, "chunk names in ali/", _listing(os.path.join(out, "ali")), names)
        if case["with_ref"]:
            require(_listing(os.path.join(out, "ref")) == names, "chunk names in ref/", _listing(os.path.join(out, "ref")), names)
        if len(outs) == 2:
            _same_dirs(outs[0], outs[1], "chunk with %d workers vs 0" % workers["n"])
    wcl, wnt = _wk_classes(workers, len(utts))
    return Info(nontrivial=bool(fix["prefix"]) or wnt, classes=_fix_classes(fix) + wcl + ["policy_" + policy] + _layout_classes(case.get("layout")) + [
        "feat_" + (case.get("feat_dtype") or "float32")])


# =============================================================================== sizes across implementation thresholds

_SZ_DIMS = ["ali_len", "ali_utts", "trn_vocab", "trn_utts", "trn_tokens", "ctm_tokens", "tg_tokens", "er_utts", "er_len", "moments_len",
            "moments_utts", "subset_utts", "mvn_frames", "mvn_utts", "chunk_len"]
# dimensions that cost several files per unit (the quick tier stops at 1025 there) / one chunk file per frame
_SZ_FILE_DIMS = {"ali_utts", "trn_utts", "er_utts", "moments_utts", "subset_utts", "mvn_utts"}
_NO_WORKERS = {"n": 0, "chunk": 1, "order": [0]}


def _sz_workers(rng):
    if rng.next(3) == 0:
        return dict(_NO_WORKERS)
    return {"n": rng.pick([1, 2, 3, 17]), "chunk": rng.pick([1, 4, 16, 17, 1000]), "order": [rng.next(6) for _ in range(2 + rng.next(6))]}


def _sz_fix(rng):
    return {"prefix": rng.pick(["", "p_", "x."]), "suffix": rng.pick([".pt", ".t", "", "_s"])}


def _sz_layout(rng):
    return rng.pick(["own"] + tx.LAYOUTS)


def _sz_runs(rng, n, labels):
    out, prev = [], None
    while len(out) < n:
        lab = rng.pick([x for x in labels if x != prev] or labels)
        out += [lab] * min(1 + rng.next(3), n - len(out))
        prev = lab
    return out


def _expand_c17(dim, n, seed):
    """(name of the judging sub-check, its case) - a pure function of (dim, n, seed)."""
    rng = tx.Lcg(seed)
    fix, wk = _sz_fix(rng), _sz_workers(rng)
    small_vocab = {"pairs": [["a", 3], ["b", 0], ["c", 17], ["d", 2 ** 40 + 1]], "layout": rng.pick(["tok_id", "id_tok"])}
    utt_ids = lambda k: ["u%d" % i for i in range(k)]
    if dim in ("ali_len", "ali_utts"):
        if dim == "ali_len":
            utts, alis = ["long", "short"], [_sz_runs(rng, n, [0, 1, 2]), [1, 1, 0]]
        else:
            utts = utt_ids(n)
            alis = [_sz_runs(rng, 1 + rng.next(4), [0, 1]) for _ in utts]
            if n >= 1000 and not wk["n"]:
                wk = {"n": 3, "chunk": 16, "order": [2, 0, 1, 0]}  # the large cells always go through the pool
        return "ali_ref_ali", {"fix": fix, "utts": utts, "alis": alis, "workers": wk, "feat_dir": bool(rng.next(2)), "decoy": bool(rng.next(2)),
                               "layout": {"ali": _sz_layout(rng), "ref": _sz_layout(rng), "feat": "own"}}
    if dim in ("trn_vocab", "trn_utts", "trn_tokens"):
        if dim == "trn_vocab":
            mod = 16411  # prime above every generated size: distinct ids, not in file order
            vocab = {"pairs": [["t%d" % i, (i * 31) % mod] for i in range(n)], "layout": rng.pick(["tok_id", "id_tok"])}
            toks = [t for t, _ in vocab["pairs"]]
            corpus = [{"utt": "u%d" % k, "items": [toks[(n - 1 - j * (k + 1)) % n] for j in range(5)] + [toks[rng.next(n)], toks[-1]]} for k in range(3)]
        elif dim == "trn_utts":
            vocab = small_vocab
            corpus = [{"utt": u, "items": [rng.pick("abcd") for _ in range(rng.next(4))]} for u in utt_ids(n)]
        else:
            vocab = small_vocab
            corpus = [{"utt": "short", "items": ["a"]}, {"utt": "long", "items": [rng.pick("abcd") for _ in range(n)]}, {"utt": "none", "items": []}]
        return "trn_dir_trn", {"fix": fix, "vocab": vocab, "unk": None, "alts": False, "corpus": corpus, "shape": rng.pick(["default", "skip", "feat"]),
                               "workers": wk, "decoy": False, "pad": [0], "mid": {"layout": _sz_layout(rng), "junk_times": bool(rng.next(2))},
                               "aborted_first": False, "stale_out": bool(rng.next(2))}
    if dim in ("ctm_tokens", "tg_tokens"):
        pos, toks = rng.next(4), []
        points = dim == "tg_tokens" and rng.next(3) == 0
        for _ in range(n):
            ln = 0 if points else 1 + rng.next(4)
            toks.append([rng.pick("abcd"), pos, pos + ln])
            pos += max(2, ln) + rng.next(3)
        corpus = [{"utt": "long", "kind": "points" if points else "segments", "tokens": toks},
                  {"utt": "short", "kind": "segments", "tokens": [["a", 0, 2], ["b", 5, 6]]}]
        if dim == "ctm_tokens":
            return "ctm_dir_ctm", {"fix": fix, "vocab": small_vocab, "unk": None, "corpus": corpus, "map": {"kind": "none", "channel": "A"},
                                   "fs": rng.pick([10, 1, 0.0625]), "shuffle": [rng.next(10) for _ in range(1 + rng.next(6))], "workers": wk,
                                   "decoy": False, "mid_layout": _sz_layout(rng), "stale_out": bool(rng.next(2)), "after": [""]}
        fs, p = rng.pick(_FS_PREC)
        return "textgrids_dir_textgrids", {"fix": fix, "vocab": small_vocab, "unk": None, "corpus": corpus, "fs": fs, "p": p, "tg_suffix": ".TextGrid",
                                            "format": rng.pick(["short", "long", "long2"]), "tier_name": "words", "select": "name", "out_tier_name": None,
                                            "fill": "c" if rng.next(2) else None, "length": rng.pick(["infer", "feat"]), "workers": wk, "decoy": False,
                                            "mid_layout": _sz_layout(rng), "feat_layout": _sz_layout(rng), "stale_out": bool(rng.next(2))}
    if dim in ("er_utts", "er_len"):
        vocab = {"pairs": [["a", 0], ["b", 1], ["c", 2], ["d", 3], ["e", 4]], "layout": "id_tok"}
        ids = [0, 1, 2, 3, 4]
        pairs, band = [], None
        if dim == "er_utts":
            for u in utt_ids(n):
                ref = [rng.pick(ids) for _ in range(1 + rng.next(4))]
                hyp = list(ref) if rng.next(3) == 0 else [rng.pick(ids) for _ in range(rng.next(5))]
                pairs.append({"utt": u, "ref": ref, "hyp": hyp})
            batch_sizes = [rng.pick([max(1, n - 1), n, n + 1, 16, 17, 1000]), 100]
            costs, cvals = rng.pick(["default", "nist", "sub_big"]), None
            if costs == "sub_big":
                cvals = [0.5, 0.75, 2.0]
        else:
            band = 6
            for u, ln in (("long", n), ("longer", n + 1 + rng.next(3)), ("short", 3)) if n < 1000 else (("long", n), ("short", 3)):
                ref = [rng.pick(ids) for _ in range(ln)]
                hyp = list(ref)
                for _ in range(rng.next(band + 1)):  # at most `band` single-token edits, anywhere (also at both ends)
                    op, at = rng.next(3), rng.pick([0, max(0, len(hyp) - 1), rng.next(max(1, len(hyp)))])
                    if op == 0 and hyp:
                        hyp[at] = rng.pick(ids)
                    elif op == 1:
                        hyp.insert(at, rng.pick(ids))
                    elif hyp:
                        del hyp[at]
                pairs.append({"utt": u, "ref": ref, "hyp": hyp})
            batch_sizes = [rng.pick([1, 2, 100]), 3]
            costs, cvals = "default", None
        return "error_rates", {"fix": fix, "use_vocab": bool(rng.next(2)), "vocab": vocab, "ignore": [], "replace": [], "pairs": pairs, "costs": costs,
                               "cost_values": cvals, "batch_sizes": batch_sizes, "per_utt": bool(rng.next(2)), "distances": rng.next(3) == 0,
                               "dirs": rng.pick(["parent", "two"]), "store": rng.pick(["R3", "R3_junk_times", "R", "R1"]), "decoy": False,
                               "layout": [_sz_layout(rng), _sz_layout(rng)], "band": band}
    if dim in ("moments_len", "moments_utts"):
        kind = rng.pick(["ali", "ref"])
        def one(k):
            if kind == "ali":
                return _sz_runs(rng, k, [0, 1, 2, 7])
            segs, a = [], 0
            for _ in range(k):
                ln = rng.next(9)
                segs.append([rng.pick([0, 1, 2, 7]), a, a + ln] if rng.next(8) else [rng.pick([0, 1]), a, -1])
                a += ln
            return segs
        if dim == "moments_len":
            utts, data = ["long", "short"], [one(n), one(3)]
        else:
            utts = utt_ids(n)
            data = [one(1 + rng.next(3)) for _ in utts]
        return "length_moments", {"kind": kind, "fix": fix, "utts": utts, "data": data, "p": rng.pick([3, 0, 6]), "bessel": bool(rng.next(2)),
                                  "std": bool(rng.next(2)), "exclude": rng.pick([None, [7], [0, 9]]), "strict": False, "workers": wk, "decoy": False,
                                  "layout": _sz_layout(rng)}
    if dim == "subset_utts":
        crit = rng.pick(["first-n", "last-n", "shortest-n", "longest-n", "first-ratio", "shortest-ratio", "utt-list-file", "rand-n"])
        utts = utt_ids(n)
        c = {"fix": fix, "utts": utts, "lens": [1 + rng.next(4) for _ in utts], "criterion": crit, "has_ali": [bool(rng.next(2)) for _ in utts],
             "has_ref": [True] * n, "ali_dir": bool(rng.next(2)), "ref_dir": False, "only": False, "style": rng.pick(["link", "symlink"]),
             "workers": wk, "decoy": False, "seed": rng.next(100), "layout": "own"}
        if crit.startswith("utt-list"):
            c["ids"] = [u for u in utts if rng.next(3) == 0] or utts[:1]
        elif crit.endswith("-n"):
            c["n"] = rng.pick([n - 1, n, n // 2, 16, 17])
        else:
            c["ratio"] = rng.pick([0.125, 0.5, 0.75])
        return "subset", c
    if dim in ("mvn_frames", "mvn_utts"):
        val = lambda: (rng.next(65) - 32) / 8
        if dim == "mvn_frames":
            utts, feats = ["long", "short"], [[[val(), val()] for _ in range(n)], [[val(), val()] for _ in range(2)]]
        else:
            utts = utt_ids(n)
            feats = [[[val(), val()] for _ in range(2)] for _ in utts]
        groups = [rng.pick(["g1", "g2", "g3"]) for _ in utts] if rng.next(2) and len(utts) > 6 else None
        return "mvn_stats", {"fix": fix, "utts": utts, "feats": feats, "groups": groups, "bessel": bool(rng.next(2)), "dtype": rng.pick(["float32", "float64"]),
                             "decoy": False, "layout": _sz_layout(rng)}
    # chunk_len
    policy = rng.pick(["fixed", "ali", "ref"])
    return "chunk_cli", {"fix": fix, "utts": ["long", "short"], "policy": policy, "alis": [_sz_runs(rng, n, [0, 1, 2]), [0, 0, 1]],
                         "with_ali": policy == "ali" or bool(rng.next(2)), "with_ref": policy == "ref" or bool(rng.next(2)), "workers": wk,
                         "layout": _sz_layout(rng), "feat_dtype": "float32"}


def _size_grid(tier):
    """Every (dimension, threshold size) cell, enumerated; the expansion seed of a cell derives from VERIF_SEED and the cell."""
    big = tier == "thorough"
    sizes = tx.THRESHOLDS_THOROUGH if big else tx.THRESHOLDS
    base = int(os.environ.get("VERIF_SEED", "1"))
    cases = []
    for di, dim in enumerate(_SZ_DIMS):
        # cost: a unit of a file dimension is several files per command; the error-rate command is quadratic in the reference
        # length (12 s of CPU at 1024 tokens); chunking writes a file per frame
        if dim == "chunk_len":
            ok = lambda n: n <= 257
        elif dim == "er_len":
            ok = lambda n: n <= 1025 if big else (n <= 257 or n == 1025)
        elif dim in _SZ_FILE_DIMS:
            if big:
                ok = lambda n: n <= 2049
            else:
                ok = lambda n, dim=dim: n <= 257 or (n == 1025 and dim in ("ali_utts", "er_utts", "moments_utts"))
        else:
            ok = lambda n: True
        for n in sizes:
            if not ok(n):
                continue
            for v in range(3 if big else 1):
                cases.append({"dim": dim, "n": n, "seed": ((base * 1000003 + di * 10007 + n) * 16 + v) % (10 ** 9)})
    return cases


@subcheck("C17", "size_thresholds", _size_grid, quick=260, thorough=850, timeout_s=3000, exhaustive=True,
          doc="enumerated grid: sizes 15/16/17 ... 1023/1024/1025, 2049 (thorough: to 8193) along every unbounded dimension - alignment "
              "length, number of utterances (files) of every command, vocabulary size, tokens per trn / ctm / TextGrid utterance, "
              "reference length of the error rate (hypothesis derived by <= 6 edits, banded exact oracle), segments and files of the "
              "moments, frames and files of the statistics, frames of the chunking (to 257) - corpora expanded deterministically from "
              "(size, seed), worker counts to 17 and chunk sizes to 1000 under the simulated pool, judged by the small cases' oracles",
          required_classes=["dim_%s" % d for d in _SZ_DIMS] + ["size_15_17", "size_31_33", "size_63_65", "size_127_129", "size_255_257",
                                                                "size_1023_1025", "size_ge_2049", "ali_utts_size_1023_1025",
                                                                "er_utts_size_1023_1025", "er_len_size_1023_1025", "trn_vocab_size_ge_2049", "ali_len_size_ge_2049"])
def _size_thresholds(case):
    name, sub = _expand_c17(case["dim"], case["n"], case["seed"])
    body = {"ali_ref_ali": _ali_ref_ali, "trn_dir_trn": _trn_dir_trn, "ctm_dir_ctm": _ctm_dir_ctm, "textgrids_dir_textgrids": _tg_dir_tg,
            "error_rates": _error_rates, "length_moments": _length_moments, "subset": _subset, "mvn_stats": _mvn_stats, "chunk_cli": _chunk_cli}[name]
    info = body(sub)
    keep = [c for c in info.classes if c.startswith(("workers_", "layout_")) or c in ("reordered_completion", "batches_differ")]
    return Info(nontrivial=True, classes=["dim_" + case["dim"], tx.size_bucket(case["n"]), "%s_%s" % (case["dim"], tx.size_bucket(case["n"]))] + keep)
