"""C06 The n-gram lookup model computes Katz back-off on any table; ARPA reading is exact."""
from __future__ import annotations

import io
import math
import os
import shutil
import tempfile

from hypothesis import strategies as st

from ..core import Info, Reject, require, subcheck
from ..oracles import c06_katz as K

NEG_INF = float("-inf")


# ------------------------------------------------------------------ strategies


def _p8(inf_weight=1):
    # log-probabilities on the 1/8 grid in [-8, 0]; None stands for an explicit -inf
    return st.one_of(*([st.integers(-64, 0)] * 6 + [st.none()] * inf_weight))


_B8 = st.integers(-16, 16)


@st.composite
def _lm_case(draw, tier, dense=False):
    big = tier == "thorough"
    if dense:
        # tables big enough that trie offsets leave the 8-bit range
        V, n = draw(st.sampled_from([(3, 4), (4, 4), (5, 4), (6, 3), (7, 3), (4, 3), (5, 3)]))
        # "mid": more than 256 trie nodes although every level pair still fits 8-bit offsets
        profile = draw(st.sampled_from(["free", "mid_c", "free", "mid_a", "free", "mid_b", "mid_c"]))
    else:
        V = draw(st.integers(1, 4))
        n = draw(st.sampled_from([1, 2, 2, 3, 3, 3, 4, 4]))
        profile = "sparse"
    sos_kind = draw(st.sampled_from(["in", "in", "V", "-1", "far"]))
    if profile == "mid_a":      # 5 symbols, order 4: levels 5, 25, 125, ~104
        n = 4
        V = 5 if sos_kind == "in" else 4
    elif profile == "mid_b":    # 6 symbols, order 3: levels 6, 36, 216
        n = 3
        V = 6 if sos_kind == "in" else 5
    elif profile == "mid_c":    # 7 symbols, order 4: levels 7, 49, ~200, ~50: parents of 4-grams sit beyond index 255
        n = 4
        V = 7 if sos_kind == "in" else 6
    if sos_kind == "in":
        sos = draw(st.integers(0, V - 1))
    elif sos_kind == "V":
        sos = V
    elif sos_kind == "-1":
        sos = -1
    else:
        sos = draw(st.sampled_from([V + 3, -4]))
    base = V + (0 if 0 <= sos < V else 1)
    tables = []
    for m in range(1, n + 1):
        total = base ** m
        last = m == n
        use_dense = dense and m >= n - 1 and total >= 60 and not (profile == "mid_c" and last)
        if use_dense:
            mid_c = profile == "mid_c"
            tables.append(draw(st.fixed_dictionaries({
                "excluded": st.lists(st.integers(0, total - 1), max_size=0 if mid_c else min(total - 1, 12), unique=True),
                # mid_c: a is coprime to 7, so exactly `count` trigrams are kept
                "a": st.sampled_from([1, 2, 3, 4, 5, 6, 8, 9, 10, 11, 12, 13]) if mid_c else st.integers(1, 64),
                "b": st.integers(0, 64), "c": st.integers(0, 64),
                "inf_mod": st.sampled_from([0, 0, 7, 13]),
                "keep_mod": (st.sampled_from([1, 1, 2, 3, 6]) if profile == "free"
                             else st.just(6 if (profile == "mid_a" and last) else 1)),
                "keep_lt": st.just(1),
                "count": st.just(200) if mid_c else st.none(),
            })))
        else:
            cap = min(total, 7 if profile == "mid_c" else (12 if not big else 30))
            index = st.integers(0, total - 1)
            if profile == "mid_c" and last:
                # 4-grams (a, b, 6, 6): their parents are the last trigram nodes of the reverse trie
                index = st.integers(0, 48).map(lambda k: k * 49 + 48)
            if m == 1 and n > 1:
                # unigrams mostly present (a missing unigram makes every query for it -inf, whatever
                # the back-off path) - each symbol is listed with probability 5/6
                per = draw(st.lists(st.one_of(*([st.tuples(_p8(), _B8)] * 5 + [st.none()])),
                                    min_size=total, max_size=total))
                ents = [(i, e[0], e[1]) for i, e in enumerate(per) if e is not None]
            else:
                ents = draw(st.lists(
                    st.tuples(index, _p8(), _B8),
                    min_size=1 if last else 0, max_size=cap, unique_by=lambda e: e[0]))
            tables.append({"entries": [list(e) for e in ents]})
    Tmax = 6 if not big else 9
    T = draw(st.sampled_from([2, 1, 3, 0, 4, 5, 6, 3, 4, 5] + list(range(7, Tmax + 1))))
    B = draw(st.sampled_from([2, 1, 3, 4]))
    tok = st.integers(0, V - 1)
    if base > V:
        tok = st.one_of(*([tok] * 9 + [st.just(sos)]))
    hist = draw(st.lists(st.lists(tok, min_size=T, max_size=T), min_size=B, max_size=B))
    # steer some histories onto listed n-grams: "follow" = (order, position in that order's list,
    # where the context ends); interpreted by _history()
    follow = draw(st.lists(
        st.one_of(st.none(), st.tuples(st.sampled_from([n, n, n, 2, 3]), st.integers(0, 40), st.integers(0, Tmax)),
                  st.tuples(st.just(n), st.integers(0, 40), st.integers(0, Tmax))),
        min_size=B, max_size=B))
    idx = draw(st.lists(st.integers(0, T), min_size=B, max_size=B))
    # how the (T, B) history tensor sits in memory: its own contiguous storage, a row slice of a larger
    # tensor (non-zero storage offset), or the transpose of a (B, T) tensor (non-contiguous)
    layout = draw(st.sampled_from(["contiguous", "offset_view", "transposed", "contiguous", "offset_view"]))
    return {"V": V, "sos": sos, "tables": tables, "hist": hist, "idx": idx,
            "follow": [None if f is None else list(f) for f in follow], "layout": layout,
            "junk_rows": draw(st.integers(1, 3))}


def _lm_strategy(tier):
    return _lm_case(tier, dense=False)


def _dense_strategy(tier):
    return _lm_case(tier, dense=True)


# ------------------------------------------------------------------ check


def _symbols(V, sos):
    return list(range(V)) + ([] if 0 <= sos < V else [sos])


def _prob_dicts(tables):
    out = []
    for m, d in enumerate(tables, start=1):
        out.append({(k[0] if m == 1 else k): v for k, v in d.items()})
    return out


def _history(case, tables):
    """The generated histories, some of them overwritten so that they run along a listed n-gram."""
    hist_b = [list(h) for h in case["hist"]]
    T = len(hist_b[0])
    n = len(tables)
    for b, f in enumerate(case.get("follow") or []):
        if f is None or n < 2 or T == 0:
            continue
        m, pos, end = f
        m = min(max(m, 2), n)
        keys = sorted(tables[m - 1])
        if not keys:
            continue
        ctx = keys[pos % len(keys)][:-1]
        end = 1 + end % T  # context occupies hist[end-len(ctx):end]
        for j, tok in enumerate(reversed(ctx)):
            if end - 1 - j >= 0:
                hist_b[b][end - 1 - j] = tok
    return hist_b


def _same(obs, exp):
    if math.isnan(obs):
        return False
    return obs == exp


def _compare(what, obs_rows, exp_rows):
    """obs_rows / exp_rows: nested lists of floats with identical structure."""
    require(_shape(obs_rows) == _shape(exp_rows), what + ": shape", _shape(obs_rows), _shape(exp_rows))
    flat_o, flat_e = _flat(obs_rows), _flat(exp_rows)
    for i, (o, e) in enumerate(zip(flat_o, flat_e)):
        if not _same(o, e):
            require(False, "%s: value %d differs from the back-off recursion" % (what, i), obs_rows, exp_rows)


def _shape(x):
    s = []
    while isinstance(x, list):
        s.append(len(x))
        x = x[0] if x else None
    return s


def _flat(x):
    if isinstance(x, list):
        out = []
        for y in x:
            out.extend(_flat(y))
        return out
    return [x]


def _lm_check(case):
    import torch
    from pydrobert.torch.modules import LookupLanguageModel

    V, sos = case["V"], case["sos"]
    symbols = _symbols(V, sos)
    tables = K.build_tables(case["tables"], symbols)
    n = len(tables)
    if not tables[-1]:
        raise Reject()
    katz = K.Katz(tables)
    hist_b = _history(case, tables)
    B, T = len(hist_b), len(hist_b[0])
    trace = set()
    # exp[s][b][w]
    exp = [[katz.next_token(hist_b[b][:s], sos, V, trace) for b in range(B)] for s in range(T + 1)]

    lm = LookupLanguageModel(V, sos, prob_dicts=_prob_dicts(tables))
    hist = torch.tensor(hist_b, dtype=torch.long).view(B, T).t().contiguous()  # (T, B)
    layout = case.get("layout", "contiguous")
    if layout == "offset_view":
        k = case.get("junk_rows", 1)
        junk = (torch.arange(k * B, dtype=torch.long).view(k, B) * 7 + 1) % V
        hist = torch.cat([junk, hist, junk], 0)[k:k + T]
    elif layout == "transposed":
        hist = torch.tensor(hist_b, dtype=torch.long).view(B, T).t()

    # all positions at once
    full = lm(hist)
    _compare("lm(hist)", full.tolist(), exp)
    # chunks of every size
    for c in range(1, T + 3):
        got = lm.calc_full_log_probs_chunked(hist, dict(), c)
        _compare("calc_full_log_probs_chunked(chunk_size=%d)" % c, got.tolist(), exp)
    # one index at a time (non-negative and the equivalent negative index)
    for s in range(T + 1):
        got, _ = lm(hist, idx=s)
        _compare("lm(hist, idx=%d)" % s, got.tolist(), exp[s])
        got, _ = lm(hist, idx=s - T - 1)
        _compare("lm(hist, idx=%d)" % (s - T - 1), got.tolist(), exp[s])
    # a different index per batch element
    idx = [int(i) % (T + 1) for i in case["idx"]]
    exp_vec = [exp[idx[b]][b] for b in range(B)]
    got, _ = lm(hist, idx=torch.tensor(idx, dtype=torch.long))
    _compare("lm(hist, idx=%r)" % (idx,), got.tolist(), exp_vec)
    # save, load into a freshly constructed instance
    buf = io.BytesIO()
    torch.save(lm.state_dict(), buf)
    buf.seek(0)
    fresh = LookupLanguageModel(V, sos)
    fresh.load_state_dict(torch.load(buf))
    _compare("reloaded lm(hist)", fresh(hist).tolist(), exp)
    got, _ = fresh(hist, idx=torch.tensor(idx, dtype=torch.long))
    _compare("reloaded lm(hist, idx=%r)" % (idx,), got.tolist(), exp_vec)
    got = fresh.calc_full_log_probs_chunked(hist, dict(), 2)
    _compare("reloaded calc_full_log_probs_chunked(chunk_size=2)", got.tolist(), exp)

    classes = ["order_%d" % n, "sos_in_vocab" if 0 <= sos < V else "sos_out_of_vocab", "hist_" + layout]
    classes += sorted(t for t in trace if not t.startswith("hit_") or t == "hit_top")
    if T == 0:
        classes.append("empty_history")
    if len(set(idx)) > 1:
        classes.append("idx_differs_per_element")
    if n >= 2 and not (0 <= sos < V) and T < n - 1 + 1:
        classes.append("oov_sos_in_context")
    if any(sos in h for h in hist_b) and not (0 <= sos < V):
        classes.append("explicit_oov_sos_in_history")
    if lm.offsets.numel() and lm.offsets.dtype != torch.uint8:
        classes.append("offsets_wider_than_8_bit")
    sizes = K.level_sizes(tables)
    if n >= 3:
        sizes[0] = len(symbols)
        fits8 = max(sizes[m] + sizes[m - 1] - 1 for m in range(1, n)) <= 255
        # index of the last node of level n-1 (each level is followed by one dummy node)
        if fits8 and sum(sizes[:n - 1]) + (n - 2) > 255:
            classes.append("parent_index_beyond_255_with_8_bit_offsets")
    for m in range(1, n):
        # an m-gram needed as the suffix of a listed (m+1)-gram but not listed itself
        lower = tables[m - 1]
        if any(k[1:] not in lower for k in tables[m]):
            classes.append("missing_suffix")
            break
    nontrivial = n >= 2 and "missing_entry" in trace and "hit_top" in trace
    return Info(nontrivial=nontrivial, classes=classes)


subcheck("C06", "katz", _lm_strategy, 700, 20000,
         doc="sparse tables of order 1..4 over V<=4 (+sos), histories T<=6, B<=4: full / every chunk size / every "
             "scalar idx / per-element idx / reloaded == dictionary back-off recursion (exact, dyadic values)",
         required_classes=["missing_entry", "hit_top", "ctx_absent", "sos_out_of_vocab", "missing_suffix",
                           "oov_sos_in_context", "listed_neginf"])(_lm_check)

subcheck("C06", "katz_dense", _dense_strategy, 120, 2500,
         doc="nearly complete tables of order 2..4 (up to 1400 n-grams, offsets beyond 8 bits): same comparisons",
         required_classes=["offsets_wider_than_8_bit", "parent_index_beyond_255_with_8_bit_offsets"])(_lm_check)


# ------------------------------------------------------------------ ARPA

# characters a token may contain (no whitespace); tokens that look like numbers are wanted
_TOKEN_ALPHABET = "abcXYZ019<>/\\_-.'#:=%"


def _arpa_strategy(tier):
    @st.composite
    def build(draw):
        n = draw(st.integers(1, 4))
        nv = draw(st.integers(1, 5))
        vocab = draw(st.lists(
            st.one_of(st.text(_TOKEN_ALPHABET, min_size=1, max_size=5),
                      st.sampled_from(["<s>", "</s>", "<unk>", "1", "-1.5", "2e3", "\\data\\", "ngram", "0.5"])),
            min_size=nv, max_size=nv, unique=True))
        tables = []
        for m in range(1, n + 1):
            total = nv ** m
            last = m == n
            ents = draw(st.lists(
                st.tuples(st.integers(0, total - 1), st.integers(-800, 80), st.integers(-160, 160),
                          st.sampled_from(["%.3f", "%.2f", "%.1f", "%g", "%.6f", "%e", "%d"]),
                          st.sampled_from([False, False, True])),  # last: omit the back-off if unambiguous
                min_size=1 if last else 0, max_size=min(total, 8), unique_by=lambda e: e[0]))
            tables.append([list(e) for e in ents])
        return {
            "vocab": vocab, "tables": tables,
            "style": draw(st.fixed_dictionaries({
                "tabs": st.booleans(), "preamble": st.booleans(), "count_spaces": st.booleans(),
                "blank_between": st.booleans()})),
            "ids": draw(st.permutations(list(range(nv)))),
        }

    return build()


def _looks_numeric(tok):
    try:
        float(tok)
        return True
    except ValueError:
        return False


def _num_text(k, fmt, q):
    """Text of k/q in the given printf format, restricted to what the ARPA number pattern accepts."""
    x = k / q
    if fmt == "%d":
        return "%d" % int(x)
    s = fmt % x
    return s.replace("e+", "e")  # the documented pattern has no '+' in exponents


def _arpa_check(case):
    import warnings

    from pydrobert.torch.data import parse_arpa_lm

    vocab = list(case["vocab"])
    nv = len(vocab)
    n = len(case["tables"])
    text_tables, expected = [], []
    n_implicit = 0
    for m, ents in enumerate(case["tables"], start=1):
        last = m == n
        rows, exp = [], {}
        for index, p, b, fmt, implicit in ents:
            toks = [vocab[i] for i in K.index_to_tuple(index % nv ** m, m, nv)]
            ptxt = _num_text(p, fmt, 8)
            btxt = None if last else _num_text(b, fmt, 8)
            if implicit and not last and not _looks_numeric(toks[-1]):
                # ARPA allows leaving out the back-off weight (it is then log 1 = 0); only done where
                # the last token cannot be mistaken for a number
                btxt = None
                n_implicit += 1
            rows.append((ptxt, toks, btxt))
            key = tuple(toks)
            exp[key] = float(ptxt) if last else (float(ptxt), 0.0 if btxt is None else float(btxt))
        text_tables.append(rows)
        expected.append(exp)
    text = K.write_arpa(text_tables, case["style"])
    token2id = {tok: int(case["ids"][i]) for i, tok in enumerate(vocab)}

    def want(as_ids, base_e):
        out = []
        ln10 = math.log(10.0)
        for m, exp in enumerate(expected, start=1):
            d = {}
            for key, v in exp.items():
                k = tuple(token2id[t] for t in key) if as_ids else key
                if m == 1:
                    k = k[0]
                if base_e:
                    v = v * ln10 if m == n else (v[0] * ln10, v[1] * ln10)
                d[k] = v
            out.append(d)
        return out

    def same(got, exp, base_e, what):
        require(isinstance(got, list) and len(got) == len(exp), what + ": number of orders", len(got), len(exp))
        for m, (g, e) in enumerate(zip(got, exp), start=1):
            require(set(g.keys()) == set(e.keys()), "%s: %d-gram keys" % (what, m), sorted(map(repr, g)), sorted(map(repr, e)))
            for k, ev in e.items():
                gv = g[k]
                gl = [gv] if m == n else list(gv)
                el = [ev] if m == n else list(ev)
                require(len(gl) == len(el), "%s: entry %r has the wrong arity" % (what, k), gv, ev)
                for a, b in zip(gl, el):
                    ok = (a == b) if not base_e else abs(a - b) <= 1e-12 * max(abs(a), abs(b))
                    require(ok, "%s: entry %r" % (what, k), gv, ev)

    tmp = tempfile.mkdtemp(prefix="vf_")
    try:
        path = os.path.join(tmp, "lm.arpa")
        with open(path, "w") as f:
            f.write(text)
        with warnings.catch_warnings():
            warnings.simplefilter("ignore")
            for base_e in (False, True):
                for as_ids in (False, True):
                    t2i = token2id if as_ids else None
                    exp = want(as_ids, base_e)
                    got = parse_arpa_lm(path, t2i, base_e)
                    same(got, exp, base_e, "parse_arpa_lm(path, ids=%s, to_base_e=%s)" % (as_ids, base_e))
                    with open(path) as f:
                        got = parse_arpa_lm(f, t2i, base_e)
                    same(got, exp, base_e, "parse_arpa_lm(file, ids=%s, to_base_e=%s)" % (as_ids, base_e))
                    got = parse_arpa_lm(io.StringIO(text), t2i, base_e)
                    same(got, exp, base_e, "parse_arpa_lm(StringIO, ids=%s, to_base_e=%s)" % (as_ids, base_e))
    finally:
        shutil.rmtree(tmp, ignore_errors=True)
    classes = ["order_%d" % n]
    if any(not t for t in case["tables"][:-1]):
        classes.append("empty_lower_order")
    if any(_looks_numeric(tok) for tok in vocab):
        classes.append("numeric_looking_token")
    if n_implicit:
        classes.append("implicit_backoff")
    if any("e" in r[0] for rows in text_tables for r in rows):
        classes.append("exponent_notation")
    nontrivial = n >= 2 and sum(len(t) for t in case["tables"]) >= 3
    return Info(nontrivial=nontrivial, classes=classes)


subcheck("C06", "arpa", _arpa_strategy, 500, 10000,
         doc="harness-written ARPA text (explicit back-offs, odd tokens, several number formats) parsed from path / "
             "file / StringIO, with and without token2id: entries == written (base 10 exact, base e 1e-12)",
         required_classes=["numeric_looking_token", "empty_lower_order", "implicit_backoff", "exponent_notation"])(_arpa_check)
