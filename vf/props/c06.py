"""C06 The n-gram lookup model computes Katz back-off on any table; ARPA reading is exact."""
from __future__ import annotations

import io
import math
import os
import shutil
import tempfile

from hypothesis import strategies as st

from ..core import Info, Reject, require, subcheck
from ..oracles import c06_katz as K

NEG_INF = float("-inf")


# ------------------------------------------------------------------ strategies


def _p8(inf_weight=1):
    # log-probabilities on the 1/8 grid in [-8, 0]; None stands for an explicit -inf
    return st.one_of(*([st.integers(-64, 0)] * 6 + [st.none()] * inf_weight))


_B8 = st.integers(-16, 16)


@st.composite
def _lm_case(draw, tier, dense=False):
    big = tier == "thorough"
    if dense:
        # tables big enough that trie offsets leave the 8-bit range
        V, n = draw(st.sampled_from([(3, 4), (4, 4), (5, 4), (6, 3), (7, 3), (4, 3), (5, 3)]))
        # "mid": more than 256 trie nodes although every level pair still fits 8-bit offsets
        profile = draw(st.sampled_from(["free", "mid_c", "free", "mid_a", "free", "mid_b", "mid_c"]))
    else:
        V = draw(st.integers(1, 4))
        n = draw(st.sampled_from([1, 2, 2, 3, 3, 3, 4, 4]))
        profile = "sparse"
    sos_kind = draw(st.sampled_from(["in", "in", "V", "-1", "far"]))
    if profile == "mid_a":      # 5 symbols, order 4: levels 5, 25, 125, ~104
        n = 4
        V = 5 if sos_kind == "in" else 4
    elif profile == "mid_b":    # 6 symbols, order 3: levels 6, 36, 216
        n = 3
        V = 6 if sos_kind == "in" else 5
    elif profile == "mid_c":    # 7 symbols, order 4: levels 7, 49, ~200, ~50: parents of 4-grams sit beyond index 255
        n = 4
        V = 7 if sos_kind == "in" else 6
    if sos_kind == "in":
        sos = draw(st.integers(0, V - 1))
    elif sos_kind == "V":
        sos = V
    elif sos_kind == "-1":
        sos = -1
    else:
        sos = draw(st.sampled_from([V + 3, -4]))
    base = V + (0 if 0 <= sos < V else 1)
    tables = []
    for m in range(1, n + 1):
        total = base ** m
        last = m == n
        use_dense = dense and m >= n - 1 and total >= 60 and not (profile == "mid_c" and last)
        if use_dense:
            mid_c = profile == "mid_c"
            tables.append(draw(st.fixed_dictionaries({
                "excluded": st.lists(st.integers(0, total - 1), max_size=0 if mid_c else min(total - 1, 12), unique=True),
                # mid_c: a is coprime to 7, so exactly `count` trigrams are kept
                "a": st.sampled_from([1, 2, 3, 4, 5, 6, 8, 9, 10, 11, 12, 13]) if mid_c else st.integers(1, 64),
                "b": st.integers(0, 64), "c": st.integers(0, 64),
                "inf_mod": st.sampled_from([0, 0, 7, 13]),
                "keep_mod": (st.sampled_from([1, 1, 2, 3, 6]) if profile == "free"
                             else st.just(6 if (profile == "mid_a" and last) else 1)),
                "keep_lt": st.just(1),
                "count": st.just(200) if mid_c else st.none(),
            })))
        else:
            cap = min(total, 7 if profile == "mid_c" else (12 if not big else 30))
            index = st.integers(0, total - 1)
            if profile == "mid_c" and last:
                # 4-grams (a, b, 6, 6): their parents are the last trigram nodes of the reverse trie
                index = st.integers(0, 48).map(lambda k: k * 49 + 48)
            if m == 1 and n > 1:
                # unigrams mostly present (a missing unigram makes every query for it -inf, whatever
                # the back-off path) - each symbol is listed with probability 5/6
                per = draw(st.lists(st.one_of(*([st.tuples(_p8(), _B8)] * 5 + [st.none()])),
                                    min_size=total, max_size=total))
                ents = [(i, e[0], e[1]) for i, e in enumerate(per) if e is not None]
            else:
                ents = draw(st.lists(
                    st.tuples(index, _p8(), _B8),
                    min_size=1 if last else 0, max_size=cap, unique_by=lambda e: e[0]))
            tables.append({"entries": [list(e) for e in ents]})
    Tmax = 6 if not big else 9
    T = draw(st.sampled_from([2, 1, 3, 0, 4, 5, 6, 3, 4, 5] + list(range(7, Tmax + 1))))
    B = draw(st.sampled_from([2, 1, 3, 4]))
    tok = st.integers(0, V - 1)
    if base > V:
        tok = st.one_of(*([tok] * 9 + [st.just(sos)]))
    hist = draw(st.lists(st.lists(tok, min_size=T, max_size=T), min_size=B, max_size=B))
    # steer some histories onto listed n-grams: "follow" = (order, position in that order's list,
    # where the context ends); interpreted by _history()
    follow = draw(st.lists(
        st.one_of(st.none(), st.tuples(st.sampled_from([n, n, n, 2, 3]), st.integers(0, 40), st.integers(0, Tmax)),
                  st.tuples(st.just(n), st.integers(0, 40), st.integers(0, Tmax))),
        min_size=B, max_size=B))
    idx = draw(st.lists(st.integers(0, T), min_size=B, max_size=B))
    case = {"V": V, "sos": sos, "tables": tables, "hist": hist, "idx": idx,
            "follow": [None if f is None else list(f) for f in follow]}
    case.update(draw(_variants()))
    return case


HIST_LAYOUTS = ["contiguous", "offset_view", "transposed", "column_slice", "strided_rows", "expanded"]
IDX_LAYOUTS = ["own", "offset", "strided"]
CALL_FLAGS = ["train_mode", "warm_other_batch", "shared_prev", "dicts_reused", "reload_into_used_instance"]


@st.composite
def _variants(draw):
    """How the case is presented to the library; none of it changes the expected numbers.

    layout / idx_layout: how the (T, B) history and the (B,) index vector sit in memory (own contiguous
    storage, slices of larger tensors, transposed / strided non-contiguous views, a stride-0 expansion
    of one history).  garbage: ids written over the positions a query with an index must not look at.
    scale_exp: every finite table value is multiplied by 2**scale_exp.  calls: call patterns."""
    garbage = draw(st.sampled_from([None, None, "past_idx", "before_window", "both"]))
    return {
        "layout": draw(st.sampled_from(HIST_LAYOUTS + ["contiguous", "offset_view"])),
        "junk_rows": draw(st.integers(1, 3)),
        "idx_layout": draw(st.sampled_from(IDX_LAYOUTS)),
        "garbage": garbage,
        "garbage_ids": draw(st.lists(st.sampled_from([-7, -1, 255, 256, 65535, 65536, 2 ** 31, 2 ** 40, -2 ** 40,
                                                      "V", "V+1", "V+5", "sos"]), min_size=1, max_size=4)),
        "scale_exp": draw(st.sampled_from([0, 0, 0, 0, 7, 30, 100, -30, -100])),
        "calls": sorted(set(draw(st.lists(st.sampled_from(CALL_FLAGS), max_size=2)))),
    }


def _lm_strategy(tier):
    return _lm_case(tier, dense=False)


def _dense_strategy(tier):
    return _lm_case(tier, dense=True)


# ------------------------------------------------------------------ check


def _symbols(V, sos):
    return list(range(V)) + ([] if 0 <= sos < V else [sos])


def _prob_dicts(tables):
    out = []
    for m, d in enumerate(tables, start=1):
        out.append({(k[0] if m == 1 else k): v for k, v in d.items()})
    return out


def _history(case, tables):
    """The generated histories, some of them overwritten so that they run along a listed n-gram."""
    hist_b = [list(h) for h in case["hist"]]
    T = len(hist_b[0])
    n = len(tables)
    for b, f in enumerate(case.get("follow") or []):
        if f is None or n < 2 or T == 0:
            continue
        m, pos, end = f
        m = min(max(m, 2), n)
        keys = sorted(tables[m - 1])
        if not keys:
            continue
        ctx = keys[pos % len(keys)][:-1]
        end = 1 + end % T  # context occupies hist[end-len(ctx):end]
        for j, tok in enumerate(reversed(ctx)):
            if end - 1 - j >= 0:
                hist_b[b][end - 1 - j] = tok
    return hist_b


def _compare(what, obs, exp):
    """obs: tensor; exp: float64 ndarray of the same shape.  Exact, -inf aware, NaN never equal."""
    import numpy as np

    require(list(obs.shape) == list(exp.shape), what + ": shape", list(obs.shape), list(exp.shape))
    o = obs.detach().double().numpy()
    bad = np.argwhere(~(o == exp))
    if len(bad):
        i = tuple(int(x) for x in bad[0])
        small = o.size <= 400
        require(False, "%s: value at %r differs from the back-off recursion" % (what, i),
                o.tolist() if small else float(o[i]), exp.tolist() if small else float(exp[i]))


def _hist_tensor(rows, layout, k, V):
    """The (T, B) long tensor of the (B, T) nested list ``rows`` in the requested memory layout."""
    import torch

    B, T = len(rows), len(rows[0])
    bt = torch.tensor(rows, dtype=torch.long).view(B, T)
    tb = bt.t().contiguous()
    if layout == "offset_view":       # rows k.. of a longer tensor: non-zero storage offset
        junk = (torch.arange(k * B, dtype=torch.long).view(k, B) * 7 + 1) % V
        return torch.cat([junk, tb, junk], 0)[k:k + T]
    if layout == "transposed":        # the transpose of a (B, T) tensor: non-contiguous
        return bt.t()
    if layout == "column_slice":      # columns k.. of a wider tensor: non-contiguous with a storage offset
        junk = (torch.arange(T * k, dtype=torch.long).view(T, k) * 5 + 2) % V
        return torch.cat([junk, tb, junk], 1)[:, k:k + B]
    if layout == "strided_rows":      # every second row of a tensor twice as long
        junk = (tb * 3 + 1) % V
        return torch.stack([tb, junk], 1).view(2 * T, B)[::2]
    if layout == "expanded":          # one history shared by the whole batch: stride 0 along the batch
        return tb[:, :1].expand(T, B)
    return tb


def _idx_tensor(idx, layout):
    import torch

    t = torch.tensor(idx, dtype=torch.long)
    if layout == "offset":
        return torch.cat([torch.tensor([5, 0], dtype=torch.long), t, torch.tensor([0], dtype=torch.long)])[2:2 + len(idx)]
    if layout == "strided":
        return torch.stack([t, torch.zeros_like(t)], 1).view(-1)[::2]
    return t


def _junk_id(g, V, sos):
    return {"V": V, "V+1": V + 1, "V+5": V + 5, "sos": sos}.get(g, g)


def _garbled(rows, idx_per_b, n, mode, junk):
    """``rows`` with the positions a query at index idx_per_b[b] must ignore overwritten by junk ids:
    "past_idx": t >= idx; "before_window": t < idx - (n - 1) (older than the n-1 tokens of the context)."""
    out = [list(r) for r in rows]
    for b, r in enumerate(out):
        i = idx_per_b[b]
        for t in range(len(r)):
            if (mode in ("past_idx", "both") and t >= i) or (mode in ("before_window", "both") and t < i - (n - 1)):
                r[t] = junk[(t + 2 * b) % len(junk)]
    return out


def _run_queries(case, V, sos, tables, hist_b, chunk_sizes, positions, idx, t_prefixes=(), b_prefixes=()):
    """All query routes of the statement on one table and one batch of histories.

    chunk_sizes / positions: which chunk sizes and which scalar indices are tried (the small sub-checks
    pass all of them, the large ones a sample).  Returns (classes, trace)."""
    import copy

    import numpy as np
    import torch
    from pydrobert.torch.modules import LookupLanguageModel

    n = len(tables)
    katz = K.Katz(tables)
    B, T = len(hist_b), len(hist_b[0])
    trace = set()
    exp = np.array([[katz.next_token(hist_b[b][:s], sos, V, trace) for b in range(B)] for s in range(T + 1)],
                   dtype=np.float64).reshape(T + 1, B, V)
    layout = case.get("layout", "contiguous")
    k = case.get("junk_rows", 1)
    calls = set(case.get("calls") or [])
    classes = ["hist_" + layout]

    dicts = _prob_dicts(tables)
    if "dicts_reused" in calls:
        # the same dictionaries given to two constructions (destructive=False: they must not be touched)
        before = copy.deepcopy(dicts)
        LookupLanguageModel(V, sos, prob_dicts=dicts)
        require(dicts == before, "prob_dicts modified by LookupLanguageModel(..., destructive=False)", None, None)
        classes.append("dicts_reused")
    lm = LookupLanguageModel(V, sos, prob_dicts=dicts)
    if "train_mode" in calls:
        lm.train()
        classes.append("train_mode")
    else:
        lm.eval()
    hist = _hist_tensor(hist_b, layout, k, V)
    prev = dict()
    fresh_prev = (lambda: prev) if "shared_prev" in calls else dict
    if "shared_prev" in calls:
        classes.append("shared_prev")
    light = T > 300     # long sequences: one position-by-position pass only, the others in chunks
    if "warm_other_batch" in calls:
        # the module has already answered for a batch of another shape
        To, Bo = min(T, 30) + 2, min(B, 30) + 1
        other = torch.tensor([[(3 * t + b) % V for b in range(Bo)] for t in range(To)], dtype=torch.long).view(To, Bo)
        lm(other)
        lm(other, idx=torch.tensor([(b * 2) % (To + 1) for b in range(Bo)], dtype=torch.long))
        lm.calc_full_log_probs_chunked(other, dict(), 3)
        classes.append("warm_other_batch")

    keep = hist.clone()
    # all positions at once
    _compare("lm(hist)", lm(hist, fresh_prev()), exp)
    # chunks
    for c in chunk_sizes:
        got = lm.calc_full_log_probs_chunked(hist, fresh_prev(), c)
        _compare("calc_full_log_probs_chunked(chunk_size=%d)" % c, got, exp)
    # one index at a time (non-negative and the equivalent negative index)
    mode = case.get("garbage")
    junk = [_junk_id(g, V, sos) for g in (case.get("garbage_ids") or ["V+5"])]
    for s in positions:
        got, _ = lm(hist, fresh_prev(), idx=s)
        _compare("lm(hist, idx=%d)" % s, got, exp[s])
        got, _ = lm(hist, fresh_prev(), idx=s - T - 1)
        _compare("lm(hist, idx=%d)" % (s - T - 1), got, exp[s])
        if mode and layout != "expanded":
            hg = _hist_tensor(_garbled(hist_b, [s] * B, n, mode, junk), layout, k, V)
            got, _ = lm(hg, fresh_prev(), idx=s)
            _compare("lm(hist, idx=%d) with junk ids at the positions outside the context (%s)" % (s, mode), got, exp[s])
    # a different index per batch element
    exp_vec = exp[idx, list(range(B))]
    idx_layout = case.get("idx_layout", "own")
    idx_t = _idx_tensor(idx, idx_layout)
    classes.append("idx_" + idx_layout)
    got, _ = lm(hist, fresh_prev(), idx=idx_t)
    _compare("lm(hist, idx=%r)" % (idx[:8],), got, exp_vec)
    # the same positions counted from the end (documented range [-T - 1, T]), for some or all elements, as tensors
    for which, neg in (("all", [i - T - 1 for i in idx]), ("mixed", [i - T - 1 if (b + i) % 2 else i for b, i in enumerate(idx)])):
        got, _ = lm(hist, fresh_prev(), idx=_idx_tensor(neg, idx_layout))
        _compare("lm(hist, idx=%r) (indices from the end, %s)" % (neg[:8], which), got, exp_vec)
    for s in sorted(set(positions[:2] + positions[-1:])):
        got, _ = lm(hist, fresh_prev(), idx=torch.tensor(s - T - 1))
        _compare("lm(hist, idx=tensor(%d))" % (s - T - 1), got, exp[s])
        got, _ = lm(hist, fresh_prev(), idx=torch.tensor([s - T - 1]))
        _compare("lm(hist, idx=tensor([%d]))" % (s - T - 1), got, exp[s])
    classes.append("idx_negative_tensor")
    if mode and layout != "expanded":
        g_rows = _garbled(hist_b, idx, n, mode, junk)
        if g_rows != hist_b:
            hg = _hist_tensor(g_rows, layout, k, V)
            got, _ = lm(hg, fresh_prev(), idx=idx_t)
            _compare("lm(hist, idx=%r) with junk ids at the positions outside the contexts (%s)" % (idx[:8], mode),
                     got, exp_vec)
            if mode in ("past_idx", "both") and any(i < T for i in idx):
                classes.append("garbage_past_idx")
            if mode in ("before_window", "both") and any(i - (n - 1) > 0 for i in idx):
                classes.append("garbage_before_window")
    # shorter sequences / smaller batches: prefixes of the same batch (views of the same tensor)
    for j, Tp in enumerate(t_prefixes):
        h, e = hist[:Tp], exp[:Tp + 1]
        c = chunk_sizes[j % len(chunk_sizes)]
        _compare("calc_full_log_probs_chunked(hist[:%d], chunk_size=%d)" % (Tp, c),
                 lm.calc_full_log_probs_chunked(h, fresh_prev(), c), e)
        if Tp <= 300:
            _compare("lm(hist[:%d])" % Tp, lm(h, fresh_prev()), e)
        ip = [i % (Tp + 1) for i in idx]
        got, _ = lm(h, fresh_prev(), idx=_idx_tensor(ip, idx_layout))
        _compare("lm(hist[:%d], idx=%r)" % (Tp, ip[:8]), got, exp[ip, list(range(B))])
    for j, Bp in enumerate(b_prefixes):
        h, e = hist[:, :Bp], exp[:, :Bp]
        _compare("lm(hist[:, :%d])" % Bp, lm(h, fresh_prev()), e)
        c = chunk_sizes[j % len(chunk_sizes)]
        _compare("calc_full_log_probs_chunked(hist[:, :%d], chunk_size=%d)" % (Bp, c),
                 lm.calc_full_log_probs_chunked(h, fresh_prev(), c), e)
        got, _ = lm(h, fresh_prev(), idx=_idx_tensor(idx[:Bp], idx_layout))
        _compare("lm(hist[:, :%d], idx=%r)" % (Bp, idx[:8]), got, exp_vec[:Bp])
    # save, load into a freshly constructed instance (or, as the docs allow, into one that held another table)
    buf = io.BytesIO()
    torch.save(lm.state_dict(), buf)
    buf.seek(0)
    if "reload_into_used_instance" in calls:
        # (two n-grams under the last unigram node: never in the class of ENABLE_OFFSET_WIDTH_EDGE)
        w = V - 1
        if n == 2:
            other_dicts = [{0: (-0.5, -0.25)}, {(0, w): (-1.0, 0.5), (w, w): (-1.0, 0.5)}, {(0, 0, w): -1.5, (w, 0, w): -2.5}]
        else:
            other_dicts = [{0: (-0.5, -0.25)}, {(0, w): -1.0, (w, w): -2.0}]
        fresh = LookupLanguageModel(V, sos, prob_dicts=other_dicts)
        classes.append("reload_into_used_instance")
    else:
        fresh = LookupLanguageModel(V, sos)
    fresh.load_state_dict(torch.load(buf))
    fresh.train("train_mode" in calls)
    if not light:
        _compare("reloaded lm(hist)", fresh(hist), exp)
    got, _ = fresh(hist, idx=idx_t)
    _compare("reloaded lm(hist, idx=%r)" % (idx[:8],), got, exp_vec)
    c = chunk_sizes[len(chunk_sizes) // 2] if chunk_sizes else 2
    got = fresh.calc_full_log_probs_chunked(hist, dict(), c)
    _compare("reloaded calc_full_log_probs_chunked(chunk_size=%d)" % c, got, exp)
    # the first model still answers the same after all of the above
    if light:
        _compare("calc_full_log_probs_chunked(chunk_size=%d) asked again" % c,
                 lm.calc_full_log_probs_chunked(hist, fresh_prev(), c), exp)
    else:
        _compare("lm(hist) asked again", lm(hist, fresh_prev()), exp)
    require(bool((hist == keep).all()), "the history tensor was modified", None, None)
    require(prev == dict() or "shared_prev" in calls, "prev", None, None)

    classes += sorted(t for t in trace if not t.startswith("hit_") or t == "hit_top")
    if lm.offsets.numel():
        classes.append("offsets_" + str(lm.offsets.dtype).replace("torch.", ""))
        classes.append("ids_" + str(lm.ids.dtype).replace("torch.", ""))
        if lm.offsets.dtype != torch.uint8:
            classes.append("offsets_wider_than_8_bit")
    return classes, trace


def _lm_check(case):
    V, sos = case["V"], case["sos"]
    symbols = _symbols(V, sos)
    scale_exp = case.get("scale_exp", 0)
    tables = K.build_tables(case["tables"], symbols, 2.0 ** scale_exp)
    n = len(tables)
    if not tables[-1]:
        raise Reject()
    edge = _offset_width_edge(tables, V, sos)
    if edge and not ENABLE_OFFSET_WIDTH_EDGE:
        raise Reject()
    hist_b = _history(case, tables)
    if case.get("layout") == "expanded":
        hist_b = [list(hist_b[0]) for _ in hist_b]
    B, T = len(hist_b), len(hist_b[0])
    idx = [int(i) % (T + 1) for i in case["idx"]]
    classes, trace = _run_queries(case, V, sos, tables, hist_b, list(range(1, T + 3)), list(range(T + 1)), idx)

    classes += ["order_%d" % n, "sos_in_vocab" if 0 <= sos < V else "sos_out_of_vocab"]
    if scale_exp:
        classes.append("values_scaled_up" if scale_exp > 0 else "values_scaled_down")
    if edge:
        classes.append("offset_width_edge")
    if T == 0:
        classes.append("empty_history")
    if len(set(idx)) > 1:
        classes.append("idx_differs_per_element")
    if n >= 2 and not (0 <= sos < V) and T < n - 1 + 1:
        classes.append("oov_sos_in_context")
    if any(sos in h for h in hist_b) and not (0 <= sos < V):
        classes.append("explicit_oov_sos_in_history")
    sizes = K.level_sizes(tables)
    if n >= 3:
        sizes[0] = len(symbols)
        fits8 = max(sizes[m] + sizes[m - 1] - 1 for m in range(1, n)) <= 255
        # index of the last node of level n-1 (each level is followed by one dummy node)
        if fits8 and sum(sizes[:n - 1]) + (n - 2) > 255:
            classes.append("parent_index_beyond_255_with_8_bit_offsets")
    for m in range(1, n):
        # an m-gram needed as the suffix of a listed (m+1)-gram but not listed itself
        lower = tables[m - 1]
        if any(k[1:] not in lower for k in tables[m]):
            classes.append("missing_suffix")
            break
    nontrivial = n >= 2 and "missing_entry" in trace and "hit_top" in trace
    return Info(nontrivial=nontrivial, classes=classes)


subcheck("C06", "katz", _lm_strategy, 700, 20000,
         doc="sparse tables of order 1..4 over V<=4 (+sos), histories T<=6, B<=4: full / every chunk size / every "
             "scalar idx / per-element idx / reloaded == dictionary back-off recursion (exact, dyadic values); "
             "history and idx in several memory layouts, junk ids outside the context of an idx query, values "
             "scaled by 2^k, call patterns (train mode, earlier batch of another shape, dictionaries reused, "
             "state loaded into a used instance)",
         required_classes=["missing_entry", "hit_top", "ctx_absent", "sos_out_of_vocab", "missing_suffix",
                           "oov_sos_in_context", "listed_neginf",
                           "hist_offset_view", "hist_transposed", "hist_column_slice", "hist_strided_rows",
                           "hist_expanded", "idx_offset", "idx_strided", "idx_negative_tensor", "garbage_past_idx", "garbage_before_window",
                           "values_scaled_up", "values_scaled_down", "train_mode", "warm_other_batch",
                           "dicts_reused", "reload_into_used_instance"])(_lm_check)

subcheck("C06", "katz_dense", _dense_strategy, 120, 2500,
         doc="nearly complete tables of order 2..4 (up to 1400 n-grams, offsets beyond 8 bits): same comparisons",
         required_classes=["offsets_wider_than_8_bit", "parent_index_beyond_255_with_8_bit_offsets"])(_lm_check)


# ------------------------------------------------------------------ sizes across implementation thresholds

# A unigram-only table over more than 256 ids cannot be constructed on this image (numpy 2:
# `np.uint8(256)` raises OverflowError in _build_trie; fixes/C06-unigram-table-wide-vocabulary.diff,
# replays/C06/unigram-table-over-256-ids.json).  Order-1 tables with a large vocabulary are generated
# (and judged) only when this switch is on; turn it on once the fix is merged.
ENABLE_UNIGRAM_WIDE_VOCAB = True  # repaired in /repo by 9ff89e3

# _build_trie chooses the integer width of the offset buffer from the bound S + T - 1 (S, T = number of
# nodes of two consecutive levels), but the distance from the first node of a level to its first
# descendant is S + 1 and the distance from the second node to the end of the next level is S + T when
# every node of that level descends from the first one.  A table with S + T - 1 == 255 (or 32767) and
# T == 1 or all descendants under the first node therefore raises while the buffer is filled
# (fixes/C06-offset-width-bound.diff, replays/C06/offset-width-one-bigram-255-ids.json).  Such tables
# are rejected / skipped until this switch is on; with it, the directed sizes "e1" (one bigram under
# 255 - or 32767 - unigram nodes) and "e0" (256 - or 32768 - minus #unigrams bigrams, all ending in
# the first symbol) are generated as well.
ENABLE_OFFSET_WIDTH_EDGE = True  # repaired in /repo by a1894ea

SIZES = [15, 16, 17, 31, 32, 33, 63, 64, 65, 127, 128, 129, 255, 256, 257, 1023, 1024, 1025, 2049]
KIND_SIZES = {
    "T": SIZES, "B": SIZES, "V": SIZES[:-1],
    "ids8": [252, 253, 254, 255, 256, 257, 258],        # the id buffer leaves uint8 at V + (sos outside) + 1 > 255
    "ids16": [32765, 32766, 32767],                     # ... and int16 above 32767
    "fan": [16, 17, 32, 33, 64, 65, 128, 129, 255, 256, 257],   # direct descendants of one trie node
    # "a<d>": (#bigrams + #unigrams - 1) = limit + d, the bound from which the buffer's width is chosen while the
    # trie is built; "f<d>": the largest offset actually stored = limit + d, which decides the final width
    # (for 32767 the final width changes with the vocabulary sizes of ids16)
    "offsets16": ["a-2", "a-1", "a+0", "a+1", "a+2", "f-1", "f+0", "f+1", "f+2"],
    "offsets32": ["a-1", "a+0", "a+1", "a+2"],
}


def _max_offset(tables, V, sos):
    """The largest value the offset buffer of the reverse trie holds (see the layout comment in _lm.py):
    node i of a level with S nodes points S - i + 1 + (number of nodes of the next level that descend from
    nodes before i) ahead; the dummy node at the end of the level points T + 1 ahead."""
    n = len(tables)
    mapped = lambda k: tuple(V if (t == sos and not 0 <= sos < V) else t for t in k)
    keys = [set(mapped(k) for k in t) for t in tables]
    for m in range(n - 1, 0, -1):
        for k in keys[m]:
            keys[m - 1].add(k[1:])
    keys[0] = set((s,) for s in range(V + (0 if 0 <= sos < V else 1)))
    best = 0
    for m in range(1, n):
        nodes = sorted(k[::-1] for k in keys[m - 1])
        S, T = len(nodes), len(keys[m])
        children = {}
        for k in keys[m]:
            par = k[1:][::-1]
            children[par] = children.get(par, 0) + 1
        before = 0
        for i, node in enumerate(nodes):
            best = max(best, S - i + 1 + before)
            before += children.get(node, 0)
        best = max(best, T + 1)
    return best


def _offset_width_edge(tables, V, sos):
    """True when the table is in the class described at ENABLE_OFFSET_WIDTH_EDGE."""
    n = len(tables)
    if n < 2:
        return False
    mapped = lambda k: tuple(V if (t == sos and not 0 <= sos < V) else t for t in k)
    keys = [set(mapped(k) for k in t) for t in tables]
    for m in range(n - 1, 0, -1):
        for k in keys[m]:
            keys[m - 1].add(k[1:])
    keys[0] = set((s,) for s in range(V + (0 if 0 <= sos < V else 1)))
    for m in range(1, n):
        S, T = len(keys[m - 1]), len(keys[m])
        if S + T - 1 in (255, 32767):
            first = min(k[::-1] for k in keys[m - 1])
            under_first = sum(1 for k in keys[m] if k[1:][::-1] == first)
            if T == 1 or (S >= 2 and under_first == T):
                return True
    return False


@st.composite
def _large_case(draw, tier, which):
    """One dimension is taken through the sizes of KIND_SIZES *inside one case* (so every run meets every
    threshold): sequence length and batch as prefixes of one long batch of histories, vocabulary / trie
    fan-out / table sizes by building one model per size from the same table recipe.  Tables and
    histories are expanded deterministically from the few integers of the case (K.build_tables "gen",
    _large_history); `sizes` lists the sizes tried (normally all of the kind's)."""
    big = tier == "thorough"
    sos_kind = draw(st.sampled_from(["in", "V", "-1"]))
    n = draw(st.sampled_from([2, 3, 2, 4]))
    V, T, B = draw(st.integers(2, 5)), draw(st.integers(0, 4)), draw(st.integers(1, 3))
    all_sizes = list(KIND_SIZES[which])
    if ENABLE_OFFSET_WIDTH_EDGE and which in ("offsets16", "offsets32"):
        # ("e0" at 32767 would need a node with > 16000 direct descendants: gigabytes in the lookup)
        all_sizes += ["e1", "e0"] if which == "offsets16" else ["e1"]
    if which == "T":
        if big:
            all_sizes = all_sizes + [4097, 8193]
        B = draw(st.sampled_from([1, 2]))
    elif which in ("V", "ids8", "fan"):
        n = draw(st.sampled_from([2, 3] + ([1] if ENABLE_UNIGRAM_WIDE_VOCAB and which != "fan" else [])))
        T, B = min(T, 3), min(B, 2)
    elif which == "ids16":
        n, T, B = 2, draw(st.integers(1, 2)), 1
    elif which == "offsets16":
        V = draw(st.integers(17, 24))
        n = draw(st.sampled_from([2, 3]))
    elif which == "offsets32":
        V = draw(st.integers(182, 190))
        n, T, B = 2, min(T, 3), min(B, 2)
    from ..gen import weighted
    sizes = draw(weighted((1, st.lists(st.sampled_from(all_sizes), min_size=1, max_size=4, unique=True)),
                          (9, st.just(all_sizes))))
    tables = []
    for m in range(1, n + 1):
        if m == 1:
            # (nearly) every unigram listed
            tables.append({"excluded": draw(st.lists(st.integers(0, 40), max_size=3, unique=True)),
                           "a": draw(st.integers(1, 64)), "b": draw(st.integers(0, 64)), "c": draw(st.integers(0, 64)),
                           "inf_mod": draw(st.sampled_from([0, 0, 7, 13])), "keep_mod": 1, "keep_lt": 1, "count": None})
            continue
        tables.append({"gen": draw(st.integers(1, 60)), "a": draw(st.sampled_from([1, 7, 11, 13, 101, 7919])),
                       "b": draw(st.integers(0, 1000)), "c": draw(st.integers(0, 64)),
                       "inf_mod": draw(st.sampled_from([0, 0, 7, 13])), "fan": None})
    case = {
        "which": which, "sizes": sizes, "V": V, "sos_kind": sos_kind, "sos_pos": draw(st.integers(0, 10000)),
        "tables": tables, "T": T, "B": B,
        "fan": [draw(st.integers(0, 300)), draw(st.sampled_from([1, 0, -1]))],   # (symbol, fan-out - V)
        "h": [draw(st.integers(1, 97)), draw(st.integers(0, 50)), draw(st.sampled_from([7, 11, 13, 17]))],
        "period": draw(st.sampled_from([3, 5, 8, 13])),
        "chunks": draw(st.lists(st.sampled_from([2, 3, 15, 16, 17, 64, 255, 256, 257, 1024, 1025, "T-1", "T", "T+1", "T+2"]),
                                min_size=2, max_size=3, unique=True)),
        "positions": draw(st.lists(st.integers(0, 10000), min_size=2, max_size=2)),
        "idx": [draw(st.integers(1, 97)), draw(st.integers(0, 10000))],
    }
    case.update(draw(_variants()))
    return case


def _large_history(case, tables, V, sos, T, B):
    """(B, T) histories: an arithmetic pattern over the vocabulary with a listed top-order n-gram written
    over it every `period` positions (so that both hits and back-offs occur all along the sequence)."""
    ha, hb, hm = case["h"]
    rows = [[(ha * t + hb * b + (t * t) % hm) % V for t in range(T)] for b in range(B)]
    n = len(tables)
    keys = sorted(tables[-1])
    period = max(case["period"], n)
    for b in range(B):
        for j, t0 in enumerate(range(b % period, T, period)):
            key = keys[(j + 3 * b) % len(keys)]
            for i, tok in enumerate(key[:-1]):
                if t0 + i < T and (0 <= tok < V or tok == sos):
                    rows[b][t0 + i] = tok
    return rows


def _large_one(case, V, T, B, spec, t_prefixes=(), b_prefixes=()):
    """One table / one batch of the large sub-check.  Returns (classes, trace) or None when the table is
    in a class that is switched off."""
    sk = case["sos_kind"]
    sos = case["sos_pos"] % V if sk == "in" else (V if sk == "V" else -1)
    symbols = _symbols(V, sos)
    tables = K.build_tables(spec, symbols, 2.0 ** case.get("scale_exp", 0))
    n = len(tables)
    classes = []
    if n == 1 and V > 256:
        if not ENABLE_UNIGRAM_WIDE_VOCAB:
            return None
        classes.append("unigram_table_over_256_ids")
    if _offset_width_edge(tables, V, sos):
        if not ENABLE_OFFSET_WIDTH_EDGE:
            return None
        classes.append("offset_width_edge")
    hist_b = _large_history(case, tables, V, sos, T, B)
    if case.get("layout") == "expanded":
        hist_b = [list(hist_b[0]) for _ in hist_b]
    chunks = sorted({max(1, {"T-1": T - 1, "T": T, "T+1": T + 1, "T+2": T + 2}.get(c, c)) for c in case["chunks"]})
    if T > 300:
        chunks = sorted({max(c, 15) for c in chunks})   # (small chunks of short sequences: sub-check katz)
    # scalar indices: a sample (ends, around the context width, the middle, two generated ones)
    positions = sorted({p for p in [0, 1, n - 2, n - 1, n, T // 2, T - 1, T] + [q % (T + 1) for q in case["positions"]]
                        if 0 <= p <= T})
    ia, ib = case["idx"]
    idx = [(ia * b + ib) % (T + 1) for b in range(B)]
    cl, trace = _run_queries(case, V, sos, tables, hist_b, chunks, positions, idx, t_prefixes, b_prefixes)
    return classes + cl, trace


def _large_check(case):
    which, sizes = case["which"], list(case["sizes"])
    V, T, B = case["V"], case["T"], case["B"]
    spec = [dict(t) for t in case["tables"]]
    n = len(spec)
    classes, trace, done = set(), set(), 0

    def run(label, *args, **kw):
        nonlocal done
        r = _large_one(case, *args, **kw)
        if r is None:
            classes.add("skipped_class_switched_off")
            return
        classes.update(r[0])
        trace.update(r[1])
        classes.add(label)
        done += 1

    if which == "T":       # the longest history once, then every other length as a prefix of it
        Tm = max(sizes)
        run("T=%d" % Tm, V, Tm, B, spec, t_prefixes=[t for t in sizes if t != Tm])
        classes.update("T=%d" % t for t in sizes)
    elif which == "B":
        Bm = max(sizes)
        run("B=%d" % Bm, V, T, Bm, spec, b_prefixes=[b for b in sizes if b != Bm])
        classes.update("B=%d" % b for b in sizes)
    elif which in ("V", "ids8", "ids16"):
        for v in sizes:
            run("V=%d" % v, v, T, B, spec)
    elif which == "fan":   # the bigrams (x, w0) for the first k symbols x: node w0 has k direct descendants
        for v in sizes:
            k = max(1, v + case["fan"][1])
            sp = [dict(t) for t in spec]
            sp[1]["fan"] = [case["fan"][0], k]
            run("fan_out_%d" % k, v, T, B, sp)
            classes.add("fan_out_V+1" if k > v else "fan_out_<=V")
    else:                  # a run of consecutive bigram indices of exactly the wanted length
        limit = 255 if which == "offsets16" else 32767
        sk = case["sos_kind"]
        sos = case["sos_pos"] % V if sk == "in" else (V if sk == "V" else -1)
        symbols = _symbols(V, sos)
        base = len(symbols)
        for size in sizes:
            if size[0] == "e":
                # the directed tables of ENABLE_OFFSET_WIDTH_EDGE (their own vocabulary size)
                shift = 0 if sk == "in" else 1
                if size == "e1":
                    Ve, count, a = limit - shift, 1, 1
                else:
                    Ve = (120 + 16 * (V - 17) if which == "offsets16" else 20000 + V) - shift
                    count, a = limit + 1 - (Ve + shift), Ve + shift
                sp = [dict(t) for t in spec[:2]]
                sp[1] = dict(sp[1], gen=count, a=a, b=0 if size == "e0" else sp[1]["b"], fan=None)
                run("edge_" + size, Ve, T, B, sp)
                continue
            delta = int(size[1:])
            sp = [dict(t) for t in spec]
            count = limit + 1 - base + delta
            sp[1] = dict(sp[1], gen=count, a=1, fan=None)
            if size[0] == "f":
                # the count at which the largest stored offset reaches limit + delta (it grows with the count)
                for count in range(max(1, count - 2), min(base * base, count + 8 * base)):
                    sp[1]["gen"] = count
                    if _max_offset(K.build_tables(sp, symbols), V, sos) >= limit + delta:
                        break
                if _max_offset(K.build_tables(sp, symbols), V, sos) != limit + delta:
                    classes.add("no_table_with_largest_offset_%d%+d" % (limit, delta))
                    continue
                run("largest_offset=%d%+d" % (limit, delta), V, T, B, sp)
            else:
                run("bigrams+unigrams-1=%d%+d" % (limit, delta), V, T, B, sp)
    if not done:
        raise Reject()
    classes.update(["large_" + which, "order_%d" % n, "sos_" + case["sos_kind"]])
    if case.get("scale_exp", 0):
        classes.add("values_scaled_up" if case["scale_exp"] > 0 else "values_scaled_down")
    classes.discard("hit_top")
    return Info(nontrivial="missing_entry" in trace and "hit_top" in trace, classes=sorted(classes))


_LARGE_DOC = ("; tables and histories expanded deterministically from a few integers; full / sampled chunk sizes / "
              "sampled scalar idx / per-element idx / reloaded == dictionary recursion (exact); memory layouts, junk "
              "ids, scaled values and call patterns as in katz")
_LARGE = [
    # (kind, quick, thorough, doc, required classes)
    ("T", 5, 60, "sequence lengths 15..2049 (thorough: ..8193): the longest history and every other length as a prefix of it",
     ["T=15", "T=16", "T=17", "T=1023", "T=1024", "T=1025", "T=2049"]),
    ("B", 6, 100, "batch sizes 15..2049: the widest batch and every other size as a column prefix of it",
     ["B=15", "B=16", "B=17", "B=1023", "B=1024", "B=1025", "B=2049"]),
    ("V", 6, 100, "vocabulary sizes 15..1025, one model per size from the same table recipe",
     ["V=15", "V=16", "V=17", "V=255", "V=256", "V=257", "V=1023", "V=1024", "V=1025", "ids_uint8", "ids_int16"]),
    ("ids8", 6, 100, "vocabulary sizes 252..258: the id buffer leaves uint8 when V + (sos outside the vocabulary) + 1 > 255",
     ["V=252", "V=253", "V=254", "V=255", "V=256", "V=257", "V=258", "ids_uint8", "ids_int16", "sos_in", "sos_V"]),
    ("ids16", 3, 30, "vocabulary sizes 32765..32767: the id buffer and the final offset buffer leave int16",
     ["ids_int16", "ids_int32", "offsets_int16", "offsets_int32"]),
    ("fan", 6, 100, "one trie node with 15..258 direct descendants (V 16..257, bigrams (x, w0) for V-1 / V / V+1 symbols x)",
     ["fan_out_V+1", "fan_out_<=V"]),
    ("offsets16", 8, 150, "(#bigrams + #unigrams - 1) = 253..257 (width chosen while building) and largest stored offset "
     "254..257 (final width): the offset buffer leaves uint8",
     ["offsets_uint8", "offsets_int16", "bigrams+unigrams-1=255+0", "bigrams+unigrams-1=255+1", "bigrams+unigrams-1=255-1",
      "largest_offset=255+0", "largest_offset=255+1"]),
    ("offsets32", 3, 30, "(#bigrams + #unigrams - 1) = 32766..32769: the offset buffer is built with 32-bit integers",
     ["bigrams+unigrams-1=32767+0", "bigrams+unigrams-1=32767+1"]),
]
for _kind, _q, _t, _doc, _req in _LARGE:
    subcheck("C06", "katz_large_" + _kind, (lambda tier, _k=_kind: _large_case(tier, _k)), _q, _t,
             doc=_doc + _LARGE_DOC, required_classes=_req)(_large_check)


# ------------------------------------------------------------------ ARPA

# characters a token may contain (no whitespace); tokens that look like numbers are wanted
_TOKEN_ALPHABET = "abcXYZ019<>/\\_-.'#:=%"
# letters outside ASCII (no character that str.split() treats as white space); files are UTF-8, which is
# also this image's default text encoding (the library opens paths with the default)
_TOKEN_ALPHABET_WIDE = _TOKEN_ALPHABET + "\u00e9\u00df\u0416\u4e2d\u6587\U0001f600"


def _arpa_strategy(tier):
    @st.composite
    def build(draw):
        n = draw(st.integers(1, 4))
        nv = draw(st.integers(1, 5))
        vocab = draw(st.lists(
            st.one_of(st.text(_TOKEN_ALPHABET, min_size=1, max_size=5),
                      st.text(_TOKEN_ALPHABET_WIDE, min_size=1, max_size=5),
                      st.sampled_from(["<s>", "</s>", "<unk>", "1", "-1.5", "2e3", "\\data\\", "ngram", "0.5"])),
            min_size=nv, max_size=nv, unique=True))
        tables = []
        for m in range(1, n + 1):
            total = nv ** m
            last = m == n
            ents = draw(st.lists(
                st.tuples(st.integers(0, total - 1), st.integers(-800, 80), st.integers(-160, 160),
                          st.sampled_from(["%.3f", "%.2f", "%.1f", "%g", "%.6f", "%e", "%d", "%E", "%.2E", "x1e-30",
                                           "x1e25", "x1E200"]),
                          st.sampled_from([False, False, True])),  # last: omit the back-off if unambiguous
                min_size=1 if last else 0, max_size=min(total, 8), unique_by=lambda e: e[0]))
            tables.append([list(e) for e in ents])
        return {
            "vocab": vocab, "tables": tables,
            "style": draw(st.fixed_dictionaries({
                "tabs": st.booleans(), "preamble": st.booleans(), "count_spaces": st.booleans(),
                "blank_between": st.booleans()})),
            "ids": draw(st.permutations(list(range(nv)))),
        }

    return build()


def _looks_numeric(tok):
    try:
        float(tok)
        return True
    except ValueError:
        return False


def _num_text(k, fmt, q):
    """Text of k/q in the given printf format, restricted to what the ARPA number pattern accepts."""
    x = k / q
    if fmt == "%d":
        return "%d" % int(x)
    if fmt.startswith("x"):
        # an extreme magnitude: <k/q with three decimals> followed by a power of ten
        return "%.3f" % x + fmt[2:]
    s = fmt % x
    return s.replace("e+", "e").replace("E+", "E")  # the documented pattern has no '+' in exponents


def _arpa_check(case):
    import warnings

    from pydrobert.torch.data import parse_arpa_lm

    vocab = list(case["vocab"])
    nv = len(vocab)
    n = len(case["tables"])
    text_tables, expected = [], []
    n_implicit = 0
    for m, ents in enumerate(case["tables"], start=1):
        last = m == n
        rows, exp = [], {}
        for index, p, b, fmt, implicit in ents:
            toks = [vocab[i] for i in K.index_to_tuple(index % nv ** m, m, nv)]
            ptxt = _num_text(p, fmt, 8)
            btxt = None if last else _num_text(b, fmt, 8)
            if implicit and not last and not _looks_numeric(toks[-1]):
                # ARPA allows leaving out the back-off weight (it is then log 1 = 0); only done where
                # the last token cannot be mistaken for a number
                btxt = None
                n_implicit += 1
            rows.append((ptxt, toks, btxt))
            key = tuple(toks)
            exp[key] = float(ptxt) if last else (float(ptxt), 0.0 if btxt is None else float(btxt))
        text_tables.append(rows)
        expected.append(exp)
    text = K.write_arpa(text_tables, case["style"])
    token2id = {tok: int(case["ids"][i]) for i, tok in enumerate(vocab)}

    def want(as_ids, base_e):
        out = []
        ln10 = math.log(10.0)
        for m, exp in enumerate(expected, start=1):
            d = {}
            for key, v in exp.items():
                k = tuple(token2id[t] for t in key) if as_ids else key
                if m == 1:
                    k = k[0]
                if base_e:
                    v = v * ln10 if m == n else (v[0] * ln10, v[1] * ln10)
                d[k] = v
            out.append(d)
        return out

    def same(got, exp, base_e, what):
        require(isinstance(got, list) and len(got) == len(exp), what + ": number of orders", len(got), len(exp))
        for m, (g, e) in enumerate(zip(got, exp), start=1):
            require(set(g.keys()) == set(e.keys()), "%s: %d-gram keys" % (what, m), sorted(map(repr, g)), sorted(map(repr, e)))
            for k, ev in e.items():
                gv = g[k]
                gl = [gv] if m == n else list(gv)
                el = [ev] if m == n else list(ev)
                require(len(gl) == len(el), "%s: entry %r has the wrong arity" % (what, k), gv, ev)
                for a, b in zip(gl, el):
                    ok = (a == b) if not base_e else abs(a - b) <= 1e-12 * max(abs(a), abs(b))
                    require(ok, "%s: entry %r" % (what, k), gv, ev)

    tmp = tempfile.mkdtemp(prefix="vf_")
    try:
        path = os.path.join(tmp, "lm.arpa")
        with open(path, "w", encoding="utf-8") as f:
            f.write(text)
        with warnings.catch_warnings():
            warnings.simplefilter("ignore")
            for base_e in (False, True):
                for as_ids in (False, True):
                    t2i = token2id if as_ids else None
                    exp = want(as_ids, base_e)
                    got = parse_arpa_lm(path, t2i, base_e)
                    same(got, exp, base_e, "parse_arpa_lm(path, ids=%s, to_base_e=%s)" % (as_ids, base_e))
                    with open(path, encoding="utf-8") as f:
                        got = parse_arpa_lm(f, t2i, base_e)
                    same(got, exp, base_e, "parse_arpa_lm(file, ids=%s, to_base_e=%s)" % (as_ids, base_e))
                    got = parse_arpa_lm(io.StringIO(text), t2i, base_e)
                    same(got, exp, base_e, "parse_arpa_lm(StringIO, ids=%s, to_base_e=%s)" % (as_ids, base_e))
    finally:
        shutil.rmtree(tmp, ignore_errors=True)
    classes = ["order_%d" % n]
    if any(not t for t in case["tables"][:-1]):
        classes.append("empty_lower_order")
    if any(_looks_numeric(tok) for tok in vocab):
        classes.append("numeric_looking_token")
    if n_implicit:
        classes.append("implicit_backoff")
    if any("e" in r[0] for rows in text_tables for r in rows):
        classes.append("exponent_notation")
    if any("E" in r[0] for rows in text_tables for r in rows):
        classes.append("capital_E_exponent")
    if any(abs(float(r[0])) > 1e20 or 0 < abs(float(r[0])) < 1e-20 for rows in text_tables for r in rows):
        classes.append("extreme_magnitude")
    if any(ord(ch) > 127 for tok in vocab for ch in tok):
        classes.append("non_ascii_token")
    nontrivial = n >= 2 and sum(len(t) for t in case["tables"]) >= 3
    return Info(nontrivial=nontrivial, classes=classes)


subcheck("C06", "arpa", _arpa_strategy, 500, 10000,
         doc="harness-written ARPA text (explicit back-offs, odd tokens, several number formats) parsed from path / "
             "file / StringIO, with and without token2id: entries == written (base 10 exact, base e 1e-12)",
         required_classes=["numeric_looking_token", "empty_lower_order", "implicit_backoff", "exponent_notation",
                           "capital_E_exponent", "extreme_magnitude", "non_ascii_token"])(_arpa_check)


# ------------------------------------------------------------------ large ARPA files


@st.composite
def _arpa_large_case(draw, tier):
    """Entry counts, vocabulary sizes and token lengths through SIZES; the file is expanded from a few integers."""
    n = draw(st.sampled_from([2, 1, 3]))
    from ..gen import weighted
    return {
        "n": n,
        "counts": draw(weighted((1, st.lists(st.sampled_from(SIZES), min_size=1, max_size=3, unique=True)), (6, st.just(SIZES)))),
        "a": draw(st.sampled_from([1, 7, 11, 13, 101, 7919])), "b": draw(st.integers(0, 1000)),
        "c": draw(st.integers(1, 64)),
        "fmt": draw(st.sampled_from(["%.3f", "%g", "%e", "%.2E"])),
        "token_len": draw(st.sampled_from(SIZES)),
        "style": draw(st.fixed_dictionaries({
            "tabs": st.booleans(), "preamble": st.booleans(), "count_spaces": st.booleans(),
            "blank_between": st.booleans()})),
        "base_e": draw(st.booleans()), "as_ids": draw(st.booleans()),
        "route": draw(st.sampled_from(["path", "file", "stringio"])),
    }


def _arpa_large_check(case):
    import warnings

    from pydrobert.torch.data import parse_arpa_lm

    n, fmt = case["n"], case["fmt"]
    ln10 = math.log(10.0)
    classes = set()
    tmp = tempfile.mkdtemp(prefix="vf_")
    try:
        for count in case["counts"]:
            # `count` entries in every order over a vocabulary of `count` tokens; token 0 is very long
            vocab = ["w%d" % i for i in range(count)]
            vocab[0] = "L" + "o" * (case["token_len"] - 2) + "g"
            token2id = {tok: (i * 7 + 3) % count if math.gcd(7, count) == 1 else i for i, tok in enumerate(vocab)}
            text_tables, expected = [], []
            for m in range(1, n + 1):
                last = m == n
                rows, exp = [], {}
                for j in range(count):
                    index = (j * case["a"] + case["b"]) % count ** m if m > 1 else j
                    toks = tuple(vocab[i] for i in K.index_to_tuple(index, m, count))
                    if toks in exp:
                        continue
                    ptxt = _num_text(-((j * case["c"]) % 801), fmt, 8)
                    btxt = None if last or (j % 5 == 0) else _num_text(((j * case["a"]) % 321) - 160, fmt, 8)
                    rows.append((ptxt, list(toks), btxt))
                    exp[toks] = float(ptxt) if last else (float(ptxt), 0.0 if btxt is None else float(btxt))
                text_tables.append(rows)
                expected.append(exp)
            text = K.write_arpa(text_tables, case["style"])
            base_e, as_ids = case["base_e"], case["as_ids"]
            want = []
            for m, exp in enumerate(expected, start=1):
                d = {}
                for key, v in exp.items():
                    k = tuple(token2id[t] for t in key) if as_ids else key
                    if m == 1:
                        k = k[0]
                    if base_e:
                        v = v * ln10 if m == n else (v[0] * ln10, v[1] * ln10)
                    d[k] = v
                want.append(d)
            t2i = token2id if as_ids else None
            with warnings.catch_warnings():
                warnings.simplefilter("ignore")
                if case["route"] == "stringio":
                    got = parse_arpa_lm(io.StringIO(text), t2i, base_e)
                else:
                    path = os.path.join(tmp, "lm%d.arpa" % count)
                    with open(path, "w", encoding="utf-8") as f:
                        f.write(text)
                    if case["route"] == "path":
                        got = parse_arpa_lm(path, t2i, base_e)
                    else:
                        with open(path, encoding="utf-8") as f:
                            got = parse_arpa_lm(f, t2i, base_e)
            what = "parse_arpa_lm(%s, %d entries per order, ids=%s, to_base_e=%s)" % (case["route"], count, as_ids, base_e)
            require(isinstance(got, list) and len(got) == n, what + ": number of orders", len(got), n)
            for m, (g, e) in enumerate(zip(got, want), start=1):
                if set(g.keys()) != set(e.keys()):
                    miss = sorted(map(repr, set(e) - set(g)))[:5]
                    extra = sorted(map(repr, set(g) - set(e)))[:5]
                    require(False, "%s: %d-gram keys (%d read, %d written)" % (what, m, len(g), len(e)), extra, miss)
                for k, ev in e.items():
                    gv = g[k]
                    gl = [gv] if m == n else list(gv)
                    el = [ev] if m == n else list(ev)
                    require(len(gl) == len(el), "%s: entry %r has the wrong arity" % (what, k), gv, ev)
                    for x, y in zip(gl, el):
                        ok = (x == y) if not base_e else abs(x - y) <= 1e-12 * max(abs(x), abs(y))
                        require(ok, "%s: entry %r" % (what, k), gv, ev)
            classes.add("entries=%d" % count)
    finally:
        shutil.rmtree(tmp, ignore_errors=True)
    classes.update(["order_%d" % n, case["route"], "token_len=%d" % case["token_len"]])
    return Info(nontrivial=n >= 2, classes=sorted(classes))


subcheck("C06", "arpa_large", _arpa_large_case, 10, 200,
         doc="ARPA files with 15..2049 entries per order over as many tokens, one token of 15..2049 characters, expanded "
             "from a few integers; every size inside each case: entries == written (base 10 exact, base e 1e-12)",
         required_classes=["entries=15", "entries=16", "entries=17", "entries=1023", "entries=1024", "entries=1025",
                           "entries=2049"])(_arpa_large_check)
