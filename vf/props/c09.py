"""C09 Variable-length padding and chunking equal per-sequence pad-and-slice.

Observed at pydrobert.torch.functional.pad_variable / chunk_by_slices / pad_masked_sequence
and pydrobert.torch.modules.RandomShift (plus the module forms PadVariable, ChunkBySlices,
PadMaskedSequence as a second entry point).  The oracle (vf/oracles/c09_pad.py) handles one
sequence at a time with numpy.pad and Python slicing.
"""
from __future__ import annotations

from fractions import Fraction

import numpy as np
from hypothesis import strategies as st

from ..core import Info, Violation, expect_raises, require, subcheck
from ..oracles import c09_pad as O
from .. import fakes

MODES = ["constant", "reflect", "replicate"]


def _lib():
    import pydrobert.torch.functional as F
    import pydrobert.torch.modules as M

    return F, M


def _tensors(case):
    import torch

    x_np = O.make_x(case["N"], case["T"], case["trail"], case.get("base", 1), case["dtype"])
    x = torch.from_numpy(x_np.copy())
    return x_np, x


def _eq(a, b):
    return a.shape == b.shape and bool(np.array_equal(a, b))


def _lens_classes(lens, T):
    out = []
    if any(v <= 1 for v in lens) and any(v == T for v in lens) and len(lens) >= 2 and T >= 2:
        out.append("lens_extremes")
    if any(v == 0 for v in lens):
        out.append("len0")
    if all(v == T for v in lens):
        out.append("lens_full")
    return out


# ------------------------------------------------------------------ shared strategies


@st.composite
def _batch(draw, tier, min_len=0):
    big = tier == "thorough"
    N = draw(st.integers(1, 4 if not big else 6))
    T = draw(st.one_of(st.integers(1, 4), st.integers(1, 8 if not big else 14)))
    trail = draw(st.lists(st.integers(1, 3), min_size=0, max_size=2))
    dtype = draw(st.sampled_from(["float32", "float32", "int64"]))
    kind = draw(st.sampled_from(["any", "any", "extremes", "full"]))
    if kind == "full":
        lens = [T] * N
    elif kind == "extremes":
        lens = [draw(st.sampled_from([min_len, max(min_len, 1), T])) for _ in range(N)]
    else:
        lens = [draw(st.integers(min_len, T)) for _ in range(N)]
    return {"N": N, "T": T, "trail": trail, "dtype": dtype, "lens": lens,
            "base": draw(st.sampled_from([1, 1, 100, -7]))}


def _value(draw, dtype):
    if dtype == "int64":
        return draw(st.sampled_from([0, -1, 7]))
    return draw(st.sampled_from([0, -1, 7, 0.5, -2.5]))


# ------------------------------------------------------------------ pad_variable


@st.composite
def _pad_variable_cases(draw, tier):
    mode = draw(st.sampled_from(MODES))
    illegal = draw(st.sampled_from([True] + [False] * 15))  # documented exceptions
    b = draw(_batch(tier, min_len=0 if (mode == "constant" or illegal) else 1))
    T, N, lens = b["T"], b["N"], b["lens"]
    pad = [[0] * N, [0] * N]
    for n in range(N):
        for side in (0, 1):
            if mode == "reflect":
                hi = max(lens[n] - 1, 0)
                p = draw(st.integers(0, hi))
            else:
                p = draw(st.one_of(st.integers(0, 2), st.integers(0, T), st.integers(T + 1, 2 * T + 3)))
            pad[side][n] = p
    if illegal and mode == "reflect":
        n = draw(st.integers(0, N - 1))
        pad[draw(st.integers(0, 1))][n] = lens[n] + draw(st.integers(0, 2))
    b.update(mode=mode, pad=pad, value=_value(draw, b["dtype"]), entry=draw(st.sampled_from(["fn", "module"])))
    return b


def _pad_variable_strategy(tier):
    return _pad_variable_cases(tier)


def _call_pad_variable(case, x, lens, pad):
    F, M = _lib()
    if case.get("entry") == "module":
        return M.PadVariable(case["mode"], float(case["value"]))(x, lens, pad)
    return F.pad_variable(x, lens, pad, case["mode"], float(case["value"]))


def _pad_variable_check(case):
    import torch

    x_np, x = _tensors(case)
    N, T, mode, value = case["N"], case["T"], case["mode"], case["value"]
    lens, pad = case["lens"], case["pad"]
    lens_t = torch.tensor(lens, dtype=torch.long)
    pad_t = torch.tensor(pad, dtype=torch.long)
    classes = ["mode_" + mode, "dtype_" + case["dtype"]] + _lens_classes(lens, T)
    legal = all(O.pad_legal(mode, lens[n], pad[0][n], pad[1][n]) for n in range(N))
    if not legal:
        exc = NotImplementedError if mode == "reflect" else RuntimeError
        with expect_raises(exc, what="%s padding outside its documented domain (lens=%s pad=%s)" % (mode, lens, pad)):
            _call_pad_variable(case, x, lens_t, pad_t)
        return Info(False, classes + ["documented_exception"])
    out = _call_pad_variable(case, x, lens_t, pad_t)
    new_lens = [lens[n] + pad[0][n] + pad[1][n] for n in range(N)]
    require(out.dtype == x.dtype, "output dtype differs from input dtype", str(out.dtype), str(x.dtype))
    require(out.shape[0] == N and tuple(out.shape[2:]) == tuple(x.shape[2:]) and out.shape[1] >= max(new_lens),
            "output shape is not (N, T' >= max(len + pads), *)", list(out.shape), [N, max(new_lens)] + list(x.shape[2:]))
    out_np = out.numpy()
    for n in range(N):
        exp = O.pad_row(x_np[n, :lens[n]], pad[0][n], pad[1][n], mode, value)
        got = out_np[n, :new_lens[n]]
        require(_eq(got, exp), "row %d: valid part differs from numpy.pad of the single sequence" % n,
                {"row": n, "got": got, "len": lens[n], "pad": [pad[0][n], pad[1][n]]}, exp)
    big = any(p > T for side in pad for p in side)
    if big:
        classes.append("pad_gt_T")
    if any(pad[0][n] + pad[1][n] == 0 for n in range(N)):
        classes.append("row_without_pad")
    return Info(big or "lens_extremes" in classes, classes)


subcheck("C09", "pad_variable", _pad_variable_strategy, 1500, 40000,
         doc="generated (x, lens, pad[2][N], mode, value): every row's valid part == numpy.pad(seq[:len]) "
             "(constant/reflect/edge); documented NotImplementedError / RuntimeError outside the mode's domain",
         required_classes=["pad_gt_T", "mode_reflect", "mode_replicate", "lens_extremes", "documented_exception"]
         )(_pad_variable_check)


def _pad_variable_enum(tier):
    maxT = 3 if tier == "quick" else 5
    out = []
    k = 0
    for T in range(1, maxT + 1):
        for length in range(0, T + 1):
            for l in range(0, T + 3):
                for r in range(0, T + 3):
                    for mode in MODES:
                        k += 1
                        if not O.pad_legal(mode, length, l, r):
                            # one illegal row makes the call raise: no companion row
                            out.append({"N": 1, "T": T, "trail": [], "dtype": "float32", "lens": [length],
                                        "pad": [[l], [r]], "mode": mode, "value": -1, "entry": "fn", "base": 1})
                            continue
                        # companion row (full length, small pads) before or after the enumerated one
                        cl, cr = (1, 0) if (mode != "reflect" or T > 1) else (0, 0)
                        first = k % 2 == 0
                        lens = [length, T] if first else [T, length]
                        pad = [[l, cl], [r, cr]] if first else [[cl, l], [cr, r]]
                        out.append({"N": 2, "T": T, "trail": [2] if k % 3 == 0 else [], "dtype": "float32",
                                    "lens": lens, "pad": pad, "mode": mode, "value": -1, "entry": "fn", "base": 1})
    return out


subcheck("C09", "pad_variable_enum", _pad_variable_enum, 0, 0, exhaustive=True,
         doc="every (T<=3|5, len 0..T, left 0..T+2, right 0..T+2, mode) next to a full-length companion row: numpy.pad oracle",
         required_classes=["pad_gt_T", "documented_exception"])(_pad_variable_check)


# ------------------------------------------------------------------ chunk_by_slices


@st.composite
def _chunk_cases(draw, tier):
    mode = draw(st.sampled_from(MODES))
    illegal = draw(st.sampled_from([True] + [False] * 15))
    b = draw(_batch(tier, min_len=0 if (mode == "constant" or illegal) else 1))
    T, N = b["T"], b["N"]
    give_lens = draw(st.sampled_from([True, True, True, False]))
    if not give_lens:
        b["lens"] = [T] * N
    lens = b["lens"]
    slices = []
    for n in range(N):
        L = lens[n]
        kind = draw(st.sampled_from(["any", "any", "inside", "left", "right", "right", "right_offset", "empty",
                                     "inverted", "cover"]))
        if mode == "reflect" and not illegal:
            lo, hi = -(L - 1), 2 * L - 1  # reflect needs pads < len
        else:
            lo, hi = -T - 3, T + 3
        lo, hi = min(lo, 0), max(hi, 0)
        if kind == "right_offset" and hi - L < 2:
            kind = "right"
        if kind == "right" and hi - L < 1:
            kind = "any"
        if kind == "left" and lo > -1:
            kind = "any"
        if kind == "inside":
            s = draw(st.integers(0, L))
            e = draw(st.integers(s, L))
        elif kind == "left":  # wholly inside the left padding, not empty
            s = draw(st.integers(lo, -1))
            e = draw(st.integers(s + 1, 0))
        elif kind == "right":  # wholly inside the right padding, not empty
            s = draw(st.integers(L, hi - 1))
            e = draw(st.integers(s + 1, hi))
        elif kind == "right_offset":  # starts strictly after the first padded element
            s = draw(st.integers(L + 1, hi - 1))
            e = draw(st.integers(s + 1, hi))
        elif kind == "empty":
            s = e = draw(st.integers(-T - 3, T + 3))
        elif kind == "inverted":
            s = draw(st.integers(-T - 3, T + 3))
            e = draw(st.integers(-T - 3, s))
        elif kind == "cover":
            s = draw(st.integers(lo, 0))
            e = draw(st.integers(min(L, hi), hi))
        else:
            s = draw(st.integers(lo, hi))
            e = draw(st.integers(lo, hi))
        slices.append([s, e])
    b.update(mode=mode, slices=slices, give_lens=give_lens, value=_value(draw, b["dtype"]),
             entry=draw(st.sampled_from(["fn", "module"])))
    return b


def _chunk_strategy(tier):
    return _chunk_cases(tier)


def _call_chunk(case, x, slices, lens):
    F, M = _lib()
    if case.get("entry") == "module":
        return M.ChunkBySlices(case["mode"], float(case["value"]))(x, slices, lens)
    return F.chunk_by_slices(x, slices, lens, case["mode"], float(case["value"]))


def _chunk_check(case):
    import torch

    x_np, x = _tensors(case)
    N, T, mode, value = case["N"], case["T"], case["mode"], case["value"]
    lens, slices = case["lens"], case["slices"]
    if not case["give_lens"]:
        lens = [T] * N  # documented default: every sequence has length T
    lens_t = torch.tensor(lens, dtype=torch.long) if case["give_lens"] else None
    slices_t = torch.tensor(slices, dtype=torch.long).view(N, 2)
    classes = ["mode_" + mode, "dtype_" + case["dtype"]] + _lens_classes(lens, T)
    if not case["give_lens"]:
        classes.append("lens_omitted")
    must_raise, may_raise = False, False
    needs = []
    for n in range(N):
        s, e = slices[n]
        l, r = O.slice_pads(s, e, lens[n])
        needs.append((l, r))
        if e - s > 0:
            if not O.pad_legal(mode, lens[n], l, r):
                must_raise = True
        elif not O.pad_legal(mode, lens[n], 0, 0):
            # an empty slice of an empty sequence needs no padding at all: the documents do not
            # say whether the mode's length requirement still applies, so either outcome is accepted
            may_raise = True
    exc = NotImplementedError if mode == "reflect" else RuntimeError
    if must_raise:
        with expect_raises(exc, what="%s: slice needs a pad outside the mode's documented domain (lens=%s slices=%s)"
                           % (mode, lens, slices)):
            _call_chunk(case, x, slices_t, lens_t)
        return Info(False, classes + ["documented_exception"])
    if may_raise:
        try:
            chunks, chunk_lens = _call_chunk(case, x, slices_t, lens_t)
        except exc:
            return Info(False, classes + ["undetermined_raise"])
    else:
        chunks, chunk_lens = _call_chunk(case, x, slices_t, lens_t)
    exp_lens = [max(e - s, 0) for s, e in slices]
    require(chunk_lens.tolist() == exp_lens, "reported chunk lengths are not max(end - start, 0)",
            chunk_lens.tolist(), exp_lens)
    require(chunks.dtype == x.dtype, "output dtype differs from input dtype", str(chunks.dtype), str(x.dtype))
    require(chunks.shape[0] == N and tuple(chunks.shape[2:]) == tuple(x.shape[2:]) and chunks.shape[1] >= max(exp_lens),
            "output shape is not (N, T' >= max chunk length, *)", list(chunks.shape), [N, max(exp_lens)] + list(x.shape[2:]))
    out_np = chunks.numpy()
    for n in range(N):
        s, e = slices[n]
        exp = O.chunk_row(x_np[n, :lens[n]], s, e, mode, value)
        got = out_np[n, :exp_lens[n]]
        require(_eq(got, exp), "row %d: chunk differs from pad-then-slice of the single sequence" % n,
                {"row": n, "got": got, "len": lens[n], "slice": [s, e]}, exp)
    nontrivial = "lens_extremes" in classes
    for n in range(N):
        s, e = slices[n]
        l, r = needs[n]
        if e - s <= 0:
            classes.append("empty_slice" if e == s else "inverted_slice")
            continue
        if l > T or r > T:
            classes.append("pad_gt_T")
            nontrivial = True
        if s >= lens[n]:
            classes.append("wholly_right")
            if mode == "reflect":
                classes.append("reflect_wholly_right")
                if s > lens[n]:
                    classes.append("reflect_right_offset")
                nontrivial = True
        elif e <= 0:
            classes.append("wholly_left")
        elif l and r:
            classes.append("both_sides")
        elif l or r:
            classes.append("one_side")
        else:
            classes.append("inside")
    return Info(nontrivial, sorted(set(classes)))


subcheck("C09", "chunk_by_slices", _chunk_strategy, 2500, 60000,
         doc="generated (x, lens|None, slices, mode, value): chunk == numpy.pad(seq[:len], needed pads)[start+l:end+l], "
             "lengths == max(end-start, 0); negative starts, ends beyond the length, slices wholly in either padding, "
             "empty and inverted slices",
         required_classes=["pad_gt_T", "reflect_wholly_right", "reflect_right_offset", "wholly_left", "empty_slice",
                           "inverted_slice", "lens_extremes", "lens_omitted", "documented_exception"]
         )(_chunk_check)


def _chunk_enum(tier):
    maxT = 4 if tier == "quick" else 6
    out = []
    k = 0
    for T in range(1, maxT + 1):
        for length in range(0, T + 1):
            for s in range(-T - 2, T + 3):
                for e in range(-T - 2, T + 3):
                    for mode in MODES:
                        k += 1
                        l, r = O.slice_pads(s, e, length)
                        if not O.pad_legal(mode, length, l, r):
                            out.append({"N": 1, "T": T, "trail": [], "dtype": "float32", "lens": [length],
                                        "slices": [[s, e]], "mode": mode, "value": -1, "entry": "fn",
                                        "give_lens": True, "base": 1})
                            continue
                        comp = [0, T] if k % 4 < 2 else ([-1, T] if (mode != "reflect" or T > 1) else [0, T])
                        first = k % 2 == 0
                        out.append({"N": 2, "T": T, "trail": [2] if k % 3 == 0 else [], "dtype": "float32",
                                    "lens": [length, T] if first else [T, length],
                                    "slices": [[s, e], comp] if first else [comp, [s, e]],
                                    "mode": mode, "value": -1, "entry": "fn", "give_lens": True, "base": 1})
    return out


subcheck("C09", "chunk_by_slices_enum", _chunk_enum, 0, 0, exhaustive=True,
         doc="every (T<=4|6, len 0..T, start and end in -T-2..T+2, mode) next to a full-length companion row",
         required_classes=["pad_gt_T", "reflect_wholly_right", "reflect_right_offset", "documented_exception"]
         )(_chunk_check)


# ------------------------------------------------------------------ pad_masked_sequence


@st.composite
def _masked_cases(draw, tier):
    big = tier == "thorough"
    N = draw(st.integers(1, 4 if not big else 6))
    T = draw(st.integers(1, 8 if not big else 14))
    kind = draw(st.sampled_from(["mixed", "mixed", "mixed", "all", "none"]))
    if kind == "all":
        mask = [[1] * T for _ in range(N)]
    elif kind == "none":
        mask = [[0] * T for _ in range(N)]
    else:
        mask = [[draw(st.integers(0, 1)) for _ in range(T)] for _ in range(N)]
    dtype = draw(st.sampled_from(["float32", "float32", "int64"]))
    return {"N": N, "T": T, "trail": draw(st.lists(st.integers(1, 3), min_size=0, max_size=2)), "dtype": dtype,
            "mask": mask, "batch_first": draw(st.booleans()), "value": _value(draw, dtype),
            "entry": draw(st.sampled_from(["fn", "module"])), "base": draw(st.sampled_from([1, 100, -7]))}


def _masked_strategy(tier):
    return _masked_cases(tier)


@subcheck("C09", "pad_masked_sequence", _masked_strategy, 800, 20000,
          doc="generated (x, boolean mask, batch_first, padding value): per row the selected elements in order, then the "
              "padding value everywhere else; lens == count",
          required_classes=["compacts", "batch_first", "seq_first", "mask_none", "mask_all"])
def _masked_check(case):
    import torch

    F, M = _lib()
    x_np, x = _tensors(case)  # (N, T, *)
    N, T, value, bf = case["N"], case["T"], case["value"], case["batch_first"]
    mask = case["mask"]
    mask_t = torch.tensor(mask, dtype=torch.bool).view(N, T)
    x_in, m_in = (x, mask_t) if bf else (x.transpose(0, 1), mask_t.transpose(0, 1))
    if case["entry"] == "module":
        out, lens = M.PadMaskedSequence(bf, float(value))(x_in, m_in)
    else:
        out, lens = F.pad_masked_sequence(x_in, m_in, bf, float(value))
    require(tuple(out.shape) == tuple(x_in.shape), "output shape differs from input shape", list(out.shape), list(x_in.shape))
    require(out.dtype == x.dtype, "output dtype differs from input dtype", str(out.dtype), str(x.dtype))
    out_np = (out if bf else out.transpose(0, 1)).numpy()
    exp_lens = []
    compacts = False
    for n in range(N):
        exp, cnt = O.compact_row(x_np[n], mask[n], value)
        exp_lens.append(cnt)
        require(_eq(out_np[n], exp), "row %d: not (selected elements in order, then the padding value)" % n,
                {"row": n, "got": out_np[n], "mask": mask[n]}, exp)
        seen0 = False
        for v in mask[n]:
            if not v:
                seen0 = True
            elif seen0:
                compacts = True
    require(tuple(lens.shape) == (N,) and lens.tolist() == exp_lens, "lens is not the number of selected elements",
            lens.tolist(), exp_lens)
    classes = ["batch_first" if bf else "seq_first", "dtype_" + case["dtype"]]
    tot = sum(sum(r) for r in mask)
    if tot == 0:
        classes.append("mask_none")
    if tot == N * T:
        classes.append("mask_all")
    if compacts:
        classes.append("compacts")
    return Info(compacts and N >= 2, classes)


# ------------------------------------------------------------------ RandomShift

PROPS = ["0", "0.25", "0.3", "0.5", "0.75", "1", "2.5"]
TWO24 = 1 << 24
BOUNDARY_DRAWS = [0, 1, TWO24 // 2, TWO24 - 1]


@st.composite
def _shift_cases(draw, tier):
    mode = draw(st.sampled_from(MODES))
    b = draw(_batch(tier, min_len=0 if mode == "constant" else 1))
    props = [p for p in PROPS if not (mode == "reflect" and Fraction(p) > 1)]
    same = draw(st.booleans())
    pl = draw(st.sampled_from(props))
    pr = pl if same else draw(st.sampled_from(props))
    inject = draw(st.sampled_from([True, False, False]))
    draws = None
    if inject:
        d = st.one_of(st.sampled_from(BOUNDARY_DRAWS), st.integers(0, TWO24 - 1),
                      st.integers(0, 15).map(lambda k: k * (TWO24 // 16)))
        draws = draw(st.lists(d, min_size=2 * b["N"], max_size=2 * b["N"]))
    b.update(mode=mode, prop=[pl, pr], scalar_prop=same and draw(st.booleans()), value=_value(draw, b["dtype"]),
             seed=draw(st.integers(0, 2 ** 31 - 1)), draws=draws,
             training=draw(st.sampled_from([True] * 7 + [False])))
    return b


def _shift_strategy(tier):
    return _shift_cases(tier)


@subcheck("C09", "random_shift", _shift_strategy, 1500, 40000,
          doc="RandomShift under a generated torch seed or injected uniform draws (k/2^24 incl. 0 and 1-2^-24): there are whole "
              "l, r >= 0 with l <= p_left*len, r <= p_right*len, out_len = len+l+r and out[:out_len] == numpy.pad(seq, (l, r), mode); "
              "evaluation mode returns its inputs",
          required_classes=["injected_draws", "seeded", "eval", "shifted", "draw_at_upper_boundary", "prop_gt_1"])
def _shift_check(case):
    import torch

    F, M = _lib()
    x_np, x = _tensors(case)
    N, T, mode, value, lens = case["N"], case["T"], case["mode"], case["value"], case["lens"]
    lens_t = torch.tensor(lens, dtype=torch.long)
    pl, pr = (Fraction(p) for p in case["prop"])
    prop_arg = float(pl) if case["scalar_prop"] else (float(pl), float(pr))
    layer = M.RandomShift(prop_arg, mode, float(value))
    classes = ["mode_" + mode] + _lens_classes(lens, T)
    if not case["training"]:
        layer.eval()
        out, out_lens = layer(x, lens_t)
        require(tuple(out.shape) == tuple(x.shape) and bool(torch.equal(out, x)), "evaluation mode changed the input", out, x)
        require(out_lens.tolist() == lens, "evaluation mode changed the lengths", out_lens.tolist(), lens)
        return Info(False, classes + ["eval"])
    layer.train()
    if case["draws"] is not None:
        vals = [k / TWO24 for k in case["draws"]]
        with fakes.scripted_uniform(vals) as su:
            out, out_lens = layer(x, lens_t)
        require(su.calls >= 1, "harness: injected uniform draws were not consumed", su.calls, ">= 1")
        classes.append("injected_draws")
        if any(k == TWO24 - 1 for k in case["draws"]):
            classes.append("draw_at_upper_boundary")
    else:
        torch.manual_seed(case["seed"])
        out, out_lens = layer(x, lens_t)
        classes.append("seeded")
    out_lens = out_lens.tolist()
    require(len(out_lens) == N, "out_lens has the wrong size", out_lens, N)
    require(out.dtype == x.dtype, "output dtype differs from input dtype", str(out.dtype), str(x.dtype))
    require(out.shape[0] == N and tuple(out.shape[2:]) == tuple(x.shape[2:]) and out.shape[1] >= max(out_lens),
            "output shape is not (N, T' >= max out_len, *)", list(out.shape), [N, max(out_lens)] + list(x.shape[2:]))
    out_np = out.numpy()
    shifted = False
    for n in range(N):
        L = lens[n]
        total = out_lens[n] - L
        bl, br = (pl * L).__floor__(), (pr * L).__floor__()
        require(0 <= total <= bl + br, "row %d: output length outside [len, len + floor(p_l*len) + floor(p_r*len)]" % n,
                out_lens[n], [L, L + bl + br])
        seq = x_np[n, :L]
        got = out_np[n, :out_lens[n]]
        ok = False
        for l in range(0, min(bl, total) + 1):
            r = total - l
            if r > br:
                continue
            if mode == "reflect" and (l >= L or r >= L) and (l or r):
                continue
            if _eq(got, O.pad_row(seq, l, r, mode, value)):
                ok = True
                break
        require(ok, "row %d: output is not the sequence embedded between l <= p_l*len and r <= p_r*len %s-padded elements" % (n, mode),
                {"row": n, "got": got, "len": L, "out_len": out_lens[n]}, {"seq": seq, "max_left": bl, "max_right": br})
        shifted = shifted or total > 0
    if shifted:
        classes.append("shifted")
    if pl > 1 or pr > 1:
        classes.append("prop_gt_1")
    if any(o > T for o in out_lens):
        classes.append("grew_beyond_T")
    return Info(shifted, classes)
