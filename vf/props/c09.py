"""C09 Variable-length padding and chunking equal per-sequence pad-and-slice.

Observed at pydrobert.torch.functional.pad_variable / chunk_by_slices / pad_masked_sequence
and pydrobert.torch.modules.RandomShift (plus the module forms PadVariable, ChunkBySlices,
PadMaskedSequence as a second entry point).  The oracle (vf/oracles/c09_pad.py) handles one
sequence at a time with numpy.pad and Python slicing.

Besides the values, the generators vary what must not matter (vf/padlay.py): the memory layout of
every tensor argument, garbage (NaN, +-inf, huge values) in the region behind each sequence's length
resp. at masked-out positions, the data dtype, repeated use of the same tensors / module object, and
- in the `*_large` sub-checks - sizes that cross 16 / 32 / 64 / 128 / 256 / 1024 / 2049 along the
sequence, batch and feature dimensions, with the per-row values expanded from a few generated integers.
"""
from __future__ import annotations

from fractions import Fraction

import numpy as np
from hypothesis import strategies as st

from ..core import Info, Violation, expect_raises, require, subcheck
from ..oracles import c09_pad as O
from .. import fakes
from .. import padlay as L

MODES = ["constant", "reflect", "replicate"]
DTYPES = ["float32", "float32", "int64", "float64", "int32"]
# memory layouts (vf/padlay.py) offered for x (N, T, *), for 1-D length vectors and for the 2-D index / mask argument
X_LAYS = ["contiguous", "offset", "inner", "strided", "transposed", "last_strided", "expanded"]
V_LAYS = ["contiguous", "offset", "strided", "expanded"]
A_LAYS = ["contiguous", "offset", "inner", "strided", "transposed", "last_strided"]
GARBAGE = ["none", "none"] + L.GARBAGE
PATTERNS = [None, None, None, "twice", "reuse"]
BIG_BASE = 2 ** 40 + 3  # int64 data far outside what int32 / float32 can hold exactly


def _lib():
    import pydrobert.torch.functional as F
    import pydrobert.torch.modules as M

    return F, M


def _tensors(case, lens=None):
    """(x_np, x, classes): x_np is the clean array the oracle reads (only x_np[n, :len]); x is the tensor handed
    to the library: the same values, garbage written behind every sequence's length when the case asks for it
    (the documents: 'only the values in the range x[n, :lens[n]] are considered part of the sequence'), in the
    memory layout the case asks for."""
    import torch

    N, T = case["N"], case["T"]
    if case.get("rows_equal"):
        x_np = np.repeat(O.make_x(1, T, case["trail"], case.get("base", 1), case["dtype"]), N, axis=0)
    else:
        x_np = O.make_x(N, T, case["trail"], case.get("base", 1), case["dtype"])
    x = torch.from_numpy(x_np.copy())
    classes = []
    kind = case.get("garbage")
    if lens is not None and L.fill_beyond(x, lens, kind, case["dtype"]):
        classes += ["garbage_beyond_len", "garbage_" + kind]
    lay = (case.get("lay") or {}).get("x")
    x = L.lay(x, lay)
    c = L.layout_class("x", x, lay)
    if c:
        classes.append(c)
    return x_np, x, classes


def _index_tensor(values, shape, case, role, classes):
    """A long tensor of the given shape in the layout the case asks for under `role` ('lens' or 'aux')."""
    import torch

    lay = (case.get("lay") or {}).get(role)
    t = L.lay(torch.tensor(values, dtype=torch.long).view(shape), lay)
    c = L.layout_class(role, t, lay)
    if c:
        classes.append(c)
    return t


def _eq(a, b):
    return a.shape == b.shape and bool(np.array_equal(a, b))


def _show(a, ref=None):
    """Arrays in violation reports: long ones are cut down to the neighbourhood of the first difference."""
    a = np.asarray(a)
    if a.size <= 96:
        return a
    k = 0
    if ref is not None:
        ref = np.asarray(ref)
        m = min(a.shape[0], ref.shape[0])
        neq = [i for i in range(m) if not np.array_equal(a[i], ref[i])]
        k = neq[0] if neq else m
    lo = max(k - 2, 0)
    return {"shape": list(a.shape), "first_difference_at": k, "from": lo, "values": a[lo:lo + 6]}


def _same(a, b):
    """Tensor equality with NaN == NaN (evaluation mode hands back tensors that may hold garbage)."""
    if tuple(a.shape) != tuple(b.shape) or a.dtype != b.dtype:
        return False
    return bool(np.array_equal(a.numpy(), b.numpy(), equal_nan=bool(a.is_floating_point())))


def _val(case):
    return float(case["value"])  # "-inf" is stored as a string (JSON)


class _Drawn:
    """Integer source backed by Hypothesis."""

    def __init__(self, draw):
        self.draw = draw

    def __call__(self, lo, hi):
        return self.draw(st.integers(lo, hi))

    def choice(self, seq):
        return self.draw(st.sampled_from(seq))


class _Det:
    """Integer source that is a pure function of (seed, idx, call number): expands a few generated integers."""

    def __init__(self, seed, *idx):
        self.seed, self.idx, self.k = seed, tuple(idx), 0

    def __call__(self, lo, hi):
        self.k += 1
        return L.pick(lo, hi, self.seed, *(self.idx + (self.k,)))

    def choice(self, seq):
        return seq[self(0, len(seq) - 1)]


def _prod(xs):
    n = 1
    for v in xs:
        n *= v
    return n


def _size_classes(case):
    out = L.size_classes(T=case["T"], N=case["N"], F=_prod(case["trail"]))
    if abs(case.get("base", 1)) >= BIG_BASE:
        out.append("int64_beyond_2p40")
    return out


def _lens_classes(lens, T):
    out = []
    if any(v <= 1 for v in lens) and any(v == T for v in lens) and len(lens) >= 2 and T >= 2:
        out.append("lens_extremes")
    if any(v == 0 for v in lens):
        out.append("len0")
    if all(v == T for v in lens):
        out.append("lens_full")
    return out


def _rows_to_check(N):
    """All rows; for very wide batches the first 300, the last 300 and every 7th in between (stated in the doc)."""
    if N <= 700:
        return range(N)
    return sorted(set(range(300)) | set(range(N - 300, N)) | set(range(300, N - 300, 7)))


# ------------------------------------------------------------------ shared strategies


@st.composite
def _extras(draw, aux_lays=A_LAYS):
    """What must not matter: memory layouts, garbage behind the lengths, repeated use.  One case in four is plain."""
    if draw(st.sampled_from([True, False, False, False])):
        return {}
    lay = {"x": draw(st.sampled_from(X_LAYS)), "lens": draw(st.sampled_from(V_LAYS)), "aux": draw(st.sampled_from(aux_lays))}
    out = {"lay": lay, "garbage": draw(st.sampled_from(GARBAGE)), "pattern": draw(st.sampled_from(PATTERNS))}
    if lay["x"] == "expanded":
        # stride 0 along the batch dimension: every row holds the same data (what the chunk command passes)
        out["rows_equal"] = True
        out["garbage"] = "none"
    return out


@st.composite
def _batch(draw, tier, min_len=0):
    big = tier == "thorough"
    N = draw(st.integers(1, 4 if not big else 6))
    T = draw(st.one_of(st.integers(1, 4), st.integers(1, 8 if not big else 14)))
    trail = draw(st.lists(st.integers(1, 3), min_size=0, max_size=2))
    dtype = draw(st.sampled_from(DTYPES))
    kind = draw(st.sampled_from(["any", "any", "extremes", "full"]))
    if kind == "full":
        lens = [T] * N
    elif kind == "extremes":
        lens = [draw(st.sampled_from([min_len, max(min_len, 1), T])) for _ in range(N)]
    else:
        lens = [draw(st.integers(min_len, T)) for _ in range(N)]
    return {"N": N, "T": T, "trail": trail, "dtype": dtype, "lens": lens,
            "base": draw(st.sampled_from([1, 1, 100, -7] + ([BIG_BASE, -BIG_BASE] if dtype == "int64" else [])))}


def _value(draw, dtype):
    if dtype.startswith("int"):
        return draw(st.sampled_from([0, -1, 7]))
    return draw(st.sampled_from([0, -1, 7, 0.5, -2.5, "-inf"]))


def _det_value(src, dtype):
    return src.choice([0, -1, 7] if dtype.startswith("int") else [0, -1, 7, 0.5, -2.5, "-inf"])


def _expand_dims(c):
    """(N, T, trail) of a `*_large` case: the dimension named by c['dim'] has the threshold size c['size']."""
    a, b = c["small"]
    if c["dim"] == "T":
        return 1 + a % 3, c["size"], ([] if b % 2 else [2])
    if c["dim"] == "N":
        return c["size"], 1 + a % 6, ([] if b % 3 else [2])
    return 1 + a % 2, 1 + b % 4, [c["size"]]


def _expand_lens(kind, N, T, min_len, seed):
    if kind == "full":
        return [T] * N
    if kind == "extremes":
        opts = [min_len, max(min_len, 1), T, max(T - 1, min_len)]
        return [opts[L.pick(0, 3, seed, 1, n)] for n in range(N)]
    if kind == "near_full":
        return [max(min_len, T - L.pick(0, 2, seed, 1, n)) for n in range(N)]
    return [L.pick(min_len, T, seed, 1, n) for n in range(N)]


def _spike_row(which, N):
    """Position of the one row that exceeds all others: last, middle, first, 1024 (the first row of a second block), 16."""
    return [N - 1, N // 2, 0, min(N - 1, 1024), min(N - 1, 16)][which]


def _groups(tier):
    return L.GROUPS + ([4096] if tier == "thorough" else [])


def _with_dim_size(c, tier, dims=("T", "N", "F")):
    c["dim"], c["size"] = L.dim_size_from(c, dims, _groups(tier))
    return c


@st.composite
def _large_common(draw, tier):
    """The fields every `*_large` case has; the large dimension and its size are added last (_with_dim_size)."""
    lay = {"x": draw(st.sampled_from(X_LAYS[:-1])), "lens": draw(st.sampled_from(V_LAYS[:-1])),
           "aux": draw(st.sampled_from(A_LAYS))}
    return {"small": [draw(st.integers(0, 11)), draw(st.integers(0, 11))],
            "seed": draw(st.integers(0, 10 ** 6)), "dtype": draw(st.sampled_from(DTYPES)),
            "lens_kind": draw(st.sampled_from(["any", "any", "full", "extremes", "near_full"])),
            "lay": lay if draw(st.booleans()) else None, "garbage": draw(st.sampled_from(GARBAGE)),
            "base": draw(st.sampled_from([1, 100, -7]))}


# ------------------------------------------------------------------ pad_variable


def _pad_amount(src, kind, mode, length, T, allow_thresh):
    if kind == "mixed":
        kind = src.choice(["small", "upto_T", "beyond_T", "thresh"])
    if mode == "reflect":
        hi = max(length - 1, 0)
        if kind == "small":
            return min(src(0, 2), hi)
        if kind in ("beyond_T", "thresh"):
            return hi - src(0, min(1, hi))  # the largest legal amounts
        return src(0, hi)
    if kind == "small":
        return src(0, 2)
    if kind == "upto_T":
        return src(0, T)
    if kind == "thresh" and allow_thresh:
        return src.choice(L.THRESH) + src(-1, 1) * src(0, 1)
    return src(T + 1, 2 * T + 3)


@st.composite
def _pad_variable_cases(draw, tier):
    mode = draw(st.sampled_from(MODES))
    illegal = draw(st.sampled_from([True] + [False] * 15))  # documented exceptions
    b = draw(_batch(tier, min_len=0 if (mode == "constant" or illegal) else 1))
    T, N, lens = b["T"], b["N"], b["lens"]
    pad = [[0] * N, [0] * N]
    for n in range(N):
        for side in (0, 1):
            if mode == "reflect":
                hi = max(lens[n] - 1, 0)
                p = draw(st.integers(0, hi))
            else:
                p = draw(st.one_of(st.integers(0, 2), st.integers(0, T), st.integers(T + 1, 2 * T + 3)))
            pad[side][n] = p
    if illegal and mode == "reflect":
        n = draw(st.integers(0, N - 1))
        pad[draw(st.integers(0, 1))][n] = lens[n] + draw(st.integers(0, 2))
    b.update(mode=mode, pad=pad, value=_value(draw, b["dtype"]), entry=draw(st.sampled_from(["fn", "module"])))
    b.update(draw(_extras()))
    if mode != "reflect" and not illegal and draw(st.sampled_from([True] + [False] * 7)):
        # the same storage in two roles: lens is a view of pad[0] (left pad == length, legal outside reflect)
        b["pad"][0] = list(lens)
        b["alias"] = True
    return b


def _pad_variable_strategy(tier):
    return _pad_variable_cases(tier)


def _call_pad_variable(case, x, lens, pad):
    """The outputs to judge (each must satisfy the property): one call; with pattern 'twice' a second call with
    the very same tensor objects; with pattern 'reuse' the same module object (or function) is first used on
    another legal batch (the rows in reverse order)."""
    F, M = _lib()
    pattern = case.get("pattern")
    if case.get("entry") == "module":
        m = M.PadVariable(case["mode"], _val(case))
        call = lambda a, b, c: m(a, b, c)  # noqa: E731
    else:
        call = lambda a, b, c: F.pad_variable(a, b, c, case["mode"], _val(case))  # noqa: E731
    if pattern == "reuse":
        call(x.flip(0), lens.flip(0), pad.flip(1))
    outs = [call(x, lens, pad)]
    if pattern == "twice":
        outs.append(call(x, lens, pad))
    return outs


def _pad_variable_check(case):
    N, T, mode, value = case["N"], case["T"], case["mode"], _val(case)
    lens, pad = case["lens"], case["pad"]
    x_np, x, classes = _tensors(case, lens)
    pad_t = _index_tensor(pad, (2, N), case, "aux", classes)
    if case.get("alias"):
        lens_t = pad_t[0]
        classes.append("lens_is_view_of_pad")
    else:
        lens_t = _index_tensor(lens, (N,), case, "lens", classes)
    classes += ["mode_" + mode, "dtype_" + case["dtype"]] + _lens_classes(lens, T) + _size_classes(case)
    legal = all(O.pad_legal(mode, lens[n], pad[0][n], pad[1][n]) for n in range(N))
    if not legal:
        exc = NotImplementedError if mode == "reflect" else RuntimeError
        with expect_raises(exc, what="%s padding outside its documented domain (lens=%s pad=%s)" % (mode, lens, pad)):
            _call_pad_variable(dict(case, pattern=None), x, lens_t, pad_t)
        return Info(False, classes + ["documented_exception"])
    outs = _call_pad_variable(case, x, lens_t, pad_t)
    if case.get("pattern"):
        classes.append("pattern_" + case["pattern"])
    new_lens = [lens[n] + pad[0][n] + pad[1][n] for n in range(N)]
    rows = _rows_to_check(N)
    expected = {n: O.pad_row(x_np[n, :lens[n]], pad[0][n], pad[1][n], mode, value) for n in rows}
    for k, out in enumerate(outs):
        where = "" if k == 0 else " (second call with the same tensors)"
        require(out.dtype == x.dtype, "output dtype differs from input dtype" + where, str(out.dtype), str(x.dtype))
        require(out.shape[0] == N and tuple(out.shape[2:]) == tuple(x.shape[2:]) and out.shape[1] >= max(new_lens),
                "output shape is not (N, T' >= max(len + pads), *)" + where, list(out.shape), [N, max(new_lens)] + list(x.shape[2:]))
        out_np = out.numpy()
        for n in rows:
            got = out_np[n, :new_lens[n]]
            require(_eq(got, expected[n]), "row %d: valid part differs from numpy.pad of the single sequence%s" % (n, where),
                    {"row": n, "got": _show(got, expected[n]), "len": lens[n], "pad": [pad[0][n], pad[1][n]]},
                    _show(expected[n], got))
    big = any(p > T for side in pad for p in side)
    if big:
        classes.append("pad_gt_T")
    if case.get("spike") is not None:
        classes.append("one_row_longest")
    mp = L.thresh_label(max(p for side in pad for p in side))
    if mp:
        classes.append("pad_at_" + mp)
    if any(pad[0][n] + pad[1][n] == 0 for n in range(N)):
        classes.append("row_without_pad")
    return Info(big or "lens_extremes" in classes, sorted(set(classes)))


subcheck("C09", "pad_variable", _pad_variable_strategy, 1500, 40000,
         doc="generated (x, lens, pad[2][N], mode, value): every row's valid part == numpy.pad(seq[:len]) "
             "(constant/reflect/edge); documented NotImplementedError / RuntimeError outside the mode's domain; also under "
             "non-contiguous / offset / expanded layouts of x, lens, pad, garbage behind the lengths, float64 / int32 data, "
             "a second call with the same tensors, a module object used before, lens a view of pad[0]",
         required_classes=["pad_gt_T", "mode_reflect", "mode_replicate", "lens_extremes", "documented_exception",
                           "x_transposed", "x_inner", "x_offset", "x_strided", "x_last_strided", "x_expanded",
                           "lens_strided", "lens_offset", "aux_transposed", "aux_inner", "garbage_nan", "garbage_inf",
                           "garbage_huge", "dtype_float64", "dtype_int32", "pattern_twice", "pattern_reuse",
                           "lens_is_view_of_pad"]
         )(_pad_variable_check)


def _pad_variable_enum(tier):
    maxT = 3 if tier == "quick" else 5
    out = []
    k = 0
    for T in range(1, maxT + 1):
        for length in range(0, T + 1):
            for l in range(0, T + 3):
                for r in range(0, T + 3):
                    for mode in MODES:
                        k += 1
                        if not O.pad_legal(mode, length, l, r):
                            # one illegal row makes the call raise: no companion row
                            out.append({"N": 1, "T": T, "trail": [], "dtype": "float32", "lens": [length],
                                        "pad": [[l], [r]], "mode": mode, "value": -1, "entry": "fn", "base": 1})
                            continue
                        # companion row (full length, small pads) before or after the enumerated one
                        cl, cr = (1, 0) if (mode != "reflect" or T > 1) else (0, 0)
                        first = k % 2 == 0
                        lens = [length, T] if first else [T, length]
                        pad = [[l, cl], [r, cr]] if first else [[cl, l], [cr, r]]
                        out.append({"N": 2, "T": T, "trail": [2] if k % 3 == 0 else [], "dtype": "float32",
                                    "lens": lens, "pad": pad, "mode": mode, "value": -1, "entry": "fn", "base": 1})
    return out


subcheck("C09", "pad_variable_enum", _pad_variable_enum, 0, 0, exhaustive=True,
         doc="every (T<=3|5, len 0..T, left 0..T+2, right 0..T+2, mode) next to a full-length companion row: numpy.pad oracle",
         required_classes=["pad_gt_T", "documented_exception"])(_pad_variable_check)


@st.composite
def _pad_variable_large_cases(draw, tier):
    c = draw(_large_common(tier))
    c.update(mode=draw(st.sampled_from(MODES)), pad_kind=draw(st.sampled_from(["small", "upto_T", "beyond_T", "thresh", "mixed"])),
             entry=draw(st.sampled_from(["fn", "module"])), pattern=draw(st.sampled_from(PATTERNS)),
             spike=draw(st.sampled_from([None, None, 0, 1, 2, 3, 4])))
    return _with_dim_size(c, tier)


def _pad_variable_large_expand(c):
    N, T, trail = _expand_dims(c)
    mode = c["mode"]
    lens = _expand_lens(c["lens_kind"], N, T, 0 if mode == "constant" else 1, c["seed"])
    allow = c["dim"] == "T"  # pads at the thresholds only where the batch and feature dimensions are small
    pad = [[0] * N, [0] * N]
    for n in range(N):
        src = _Det(c["seed"], 2, n)
        for side in (0, 1):
            pad[side][n] = _pad_amount(src, c["pad_kind"], mode, lens[n], T, allow)
    if c.get("spike") is not None:
        # one row alone needs the longest output: every other row gets small pads
        k = _spike_row(c["spike"], N)
        for n in range(N):
            for side in (0, 1):
                if n != k:
                    pad[side][n] = min(pad[side][n], 2, max(lens[n] - 1, 0) if mode == "reflect" else 2)
        if mode == "reflect":
            lens[k] = T
            pad[0][k] = pad[1][k] = T - 1
        else:
            pad[0][k], pad[1][k] = T + 2, 2 * T + 3
    return dict(c, N=N, T=T, trail=trail, lens=lens, pad=pad, value=_det_value(_Det(c["seed"], 3), c["dtype"]))


@subcheck("C09", "pad_variable_large", lambda tier: _pad_variable_large_cases(tier), 300, 5000,
          doc="pad_variable with one of T / N / F at 15..17, 31..33, 63..65, 127..129, 255..257, 1023..1025, 2049 (thorough: "
              "4095..4097) and pads up to 2T+3 or at the same thresholds; lens and pads are expanded from (seed, row) by a pure "
              "integer hash; same numpy.pad oracle, every row compared (N > 700: 600 edge rows + every 7th)",
          required_classes=["T_at_16", "T_at_1024", "T_at_2049", "N_at_16", "N_at_1024", "N_at_2049", "F_at_1024",
                            "pad_at_1024", "mode_reflect", "mode_replicate", "mode_constant", "one_row_longest"])
def _pad_variable_large_check(case):
    return _pad_variable_check(_pad_variable_large_expand(case))


# ------------------------------------------------------------------ chunk_by_slices

SLICE_KINDS = ["any", "any", "inside", "left", "right", "right", "right_offset", "empty", "inverted", "cover"]


def _slice_for(src, kind, mode, length, T, legal, far=0):
    """One (start, end) of the requested kind for a sequence of this length (the logic of the first version of
    the strategy, on an abstract integer source).  `far` widens the range (constant / replicate only)."""
    if mode == "reflect" and legal:
        lo, hi = -(length - 1), 2 * length - 1  # reflect needs pads < len
    else:
        lo, hi = -T - 3 - far, T + 3 + far
    lo, hi = min(lo, 0), max(hi, 0)
    if kind == "right_offset" and hi - length < 2:
        kind = "right"
    if kind == "right" and hi - length < 1:
        kind = "any"
    if kind == "left" and lo > -1:
        kind = "any"
    if kind == "inside":
        s = src(0, length)
        e = src(s, length)
    elif kind == "left":  # wholly inside the left padding, not empty
        s = src(lo, -1)
        e = src(s + 1, 0)
    elif kind == "right":  # wholly inside the right padding, not empty
        s = src(length, hi - 1)
        e = src(s + 1, hi)
    elif kind == "right_offset":  # starts strictly after the first padded element
        s = src(length + 1, hi - 1)
        e = src(s + 1, hi)
    elif kind == "empty":
        s = e = src(-T - 3, T + 3)
    elif kind == "inverted":
        s = src(-T - 3, T + 3)
        e = src(-T - 3, s)
    elif kind == "cover":
        s = src(lo, 0)
        e = src(min(length, hi), hi)
    elif kind == "to_end":  # everything from some start to the end of the sequence
        s = src(lo, length)
        e = length
    elif kind == "extreme":  # the widest legal slice
        s, e = lo, hi
    else:
        s = src(lo, hi)
        e = src(lo, hi)
    return [s, e]


@st.composite
def _chunk_cases(draw, tier):
    mode = draw(st.sampled_from(MODES))
    illegal = draw(st.sampled_from([True] + [False] * 15))
    b = draw(_batch(tier, min_len=0 if (mode == "constant" or illegal) else 1))
    T, N = b["T"], b["N"]
    give_lens = draw(st.sampled_from([True, True, True, False]))
    if not give_lens:
        b["lens"] = [T] * N
    lens = b["lens"]
    alias = give_lens and not illegal and draw(st.sampled_from([True] + [False] * 7))
    src = _Drawn(draw)
    slices = []
    for n in range(N):
        kind = "to_end" if alias else draw(st.sampled_from(SLICE_KINDS))
        slices.append(_slice_for(src, kind, mode, lens[n], T, not illegal))
    b.update(mode=mode, slices=slices, give_lens=give_lens, value=_value(draw, b["dtype"]),
             entry=draw(st.sampled_from(["fn", "module"])))
    b.update(draw(_extras()))
    if alias:
        b["alias"] = True  # the same storage in two roles: lens is a view of slices[:, 1]
    return b


def _chunk_strategy(tier):
    return _chunk_cases(tier)


def _call_chunk(case, x, slices, lens):
    F, M = _lib()
    pattern = case.get("pattern")
    if case.get("entry") == "module":
        m = M.ChunkBySlices(case["mode"], _val(case))
        call = lambda a, b, c: m(a, b, c)  # noqa: E731
    else:
        call = lambda a, b, c: F.chunk_by_slices(a, b, c, case["mode"], _val(case))  # noqa: E731
    if pattern == "reuse":
        call(x.flip(0), slices.flip(0), None if lens is None else lens.flip(0))
    outs = [call(x, slices, lens)]
    if pattern == "twice":
        outs.append(call(x, slices, lens))
    return outs


def _chunk_check(case):
    N, T, mode, value = case["N"], case["T"], case["mode"], _val(case)
    lens, slices = case["lens"], case["slices"]
    if not case["give_lens"]:
        lens = [T] * N  # documented default: every sequence has length T
    x_np, x, classes = _tensors(case, lens)
    slices_t = _index_tensor(slices, (N, 2), case, "aux", classes)
    if not case["give_lens"]:
        lens_t = None
    elif case.get("alias"):
        lens_t = slices_t[:, 1]
        classes.append("lens_is_view_of_slices")
    else:
        lens_t = _index_tensor(lens, (N,), case, "lens", classes)
    classes += ["mode_" + mode, "dtype_" + case["dtype"]] + _lens_classes(lens, T) + _size_classes(case)
    if not case["give_lens"]:
        classes.append("lens_omitted")
    must_raise, may_raise = False, False
    needs = []
    for n in range(N):
        s, e = slices[n]
        l, r = O.slice_pads(s, e, lens[n])
        needs.append((l, r))
        if e - s > 0:
            if not O.pad_legal(mode, lens[n], l, r):
                must_raise = True
        elif not O.pad_legal(mode, lens[n], 0, 0):
            # an empty slice of an empty sequence needs no padding at all: the documents do not
            # say whether the mode's length requirement still applies, so either outcome is accepted
            may_raise = True
    exc = NotImplementedError if mode == "reflect" else RuntimeError
    if must_raise:
        with expect_raises(exc, what="%s: slice needs a pad outside the mode's documented domain (lens=%s slices=%s)"
                           % (mode, lens, slices)):
            _call_chunk(dict(case, pattern=None), x, slices_t, lens_t)
        return Info(False, classes + ["documented_exception"])
    if may_raise:
        try:
            outs = _call_chunk(case, x, slices_t, lens_t)
        except exc:
            return Info(False, classes + ["undetermined_raise"])
    else:
        outs = _call_chunk(case, x, slices_t, lens_t)
    if case.get("pattern"):
        classes.append("pattern_" + case["pattern"])
    exp_lens = [max(e - s, 0) for s, e in slices]
    rows = _rows_to_check(N)
    expected = {n: O.chunk_row(x_np[n, :lens[n]], slices[n][0], slices[n][1], mode, value) for n in rows}
    for k, (chunks, chunk_lens) in enumerate(outs):
        where = "" if k == 0 else " (second call with the same tensors)"
        require(chunk_lens.tolist() == exp_lens, "reported chunk lengths are not max(end - start, 0)" + where,
                chunk_lens.tolist(), exp_lens)
        require(chunks.dtype == x.dtype, "output dtype differs from input dtype" + where, str(chunks.dtype), str(x.dtype))
        require(chunks.shape[0] == N and tuple(chunks.shape[2:]) == tuple(x.shape[2:]) and chunks.shape[1] >= max(exp_lens),
                "output shape is not (N, T' >= max chunk length, *)" + where, list(chunks.shape),
                [N, max(exp_lens)] + list(x.shape[2:]))
        out_np = chunks.numpy()
        for n in rows:
            s, e = slices[n]
            got = out_np[n, :exp_lens[n]]
            require(_eq(got, expected[n]), "row %d: chunk differs from pad-then-slice of the single sequence%s" % (n, where),
                    {"row": n, "got": _show(got, expected[n]), "len": lens[n], "slice": [s, e]}, _show(expected[n], got))
    nontrivial = "lens_extremes" in classes
    if case.get("spike") is not None:
        classes.append("one_row_longest")
    for n in range(N):
        s, e = slices[n]
        l, r = needs[n]
        if e - s <= 0:
            classes.append("empty_slice" if e == s else "inverted_slice")
            continue
        if l > T or r > T:
            classes.append("pad_gt_T")
            nontrivial = True
        mp = L.thresh_label(max(l, r))
        if mp:
            classes.append("pad_at_" + mp)
        if max(l, r) >= 1023:
            classes.append("pad_ge_1023")
        if s >= lens[n]:
            classes.append("wholly_right")
            if mode == "reflect":
                classes.append("reflect_wholly_right")
                if s > lens[n]:
                    classes.append("reflect_right_offset")
                nontrivial = True
        elif e <= 0:
            classes.append("wholly_left")
        elif l and r:
            classes.append("both_sides")
        elif l or r:
            classes.append("one_side")
        else:
            classes.append("inside")
    return Info(nontrivial, sorted(set(classes)))


subcheck("C09", "chunk_by_slices", _chunk_strategy, 2500, 60000,
         doc="generated (x, lens|None, slices, mode, value): chunk == numpy.pad(seq[:len], needed pads)[start+l:end+l], "
             "lengths == max(end-start, 0); negative starts, ends beyond the length, slices wholly in either padding, "
             "empty and inverted slices; also under non-contiguous / offset / expanded layouts of x, lens, slices, garbage "
             "behind the lengths, float64 / int32 data, a second call with the same tensors, a module object used before, "
             "lens a view of slices[:, 1]",
         required_classes=["pad_gt_T", "reflect_wholly_right", "reflect_right_offset", "wholly_left", "empty_slice",
                           "inverted_slice", "lens_extremes", "lens_omitted", "documented_exception",
                           "x_transposed", "x_inner", "x_offset", "x_strided", "x_last_strided", "x_expanded",
                           "lens_strided", "lens_offset", "aux_transposed", "aux_inner", "aux_last_strided",
                           "garbage_nan", "garbage_inf", "garbage_huge", "dtype_float64", "dtype_int32",
                           "pattern_twice", "pattern_reuse", "lens_is_view_of_slices"]
         )(_chunk_check)


def _chunk_enum(tier):
    maxT = 4 if tier == "quick" else 6
    out = []
    k = 0
    for T in range(1, maxT + 1):
        for length in range(0, T + 1):
            for s in range(-T - 2, T + 3):
                for e in range(-T - 2, T + 3):
                    for mode in MODES:
                        k += 1
                        l, r = O.slice_pads(s, e, length)
                        if not O.pad_legal(mode, length, l, r):
                            out.append({"N": 1, "T": T, "trail": [], "dtype": "float32", "lens": [length],
                                        "slices": [[s, e]], "mode": mode, "value": -1, "entry": "fn",
                                        "give_lens": True, "base": 1})
                            continue
                        comp = [0, T] if k % 4 < 2 else ([-1, T] if (mode != "reflect" or T > 1) else [0, T])
                        first = k % 2 == 0
                        out.append({"N": 2, "T": T, "trail": [2] if k % 3 == 0 else [], "dtype": "float32",
                                    "lens": [length, T] if first else [T, length],
                                    "slices": [[s, e], comp] if first else [comp, [s, e]],
                                    "mode": mode, "value": -1, "entry": "fn", "give_lens": True, "base": 1})
    return out


subcheck("C09", "chunk_by_slices_enum", _chunk_enum, 0, 0, exhaustive=True,
         doc="every (T<=4|6, len 0..T, start and end in -T-2..T+2, mode) next to a full-length companion row",
         required_classes=["pad_gt_T", "reflect_wholly_right", "reflect_right_offset", "documented_exception"]
         )(_chunk_check)


@st.composite
def _chunk_large_cases(draw, tier):
    c = draw(_large_common(tier))
    c.update(mode=draw(st.sampled_from(MODES)), give_lens=draw(st.sampled_from([True, True, True, False])),
             slice_kind=draw(st.sampled_from(["mixed", "mixed", "extreme", "right", "cover", "any"])),
             far=draw(st.sampled_from([0, 0, 0] + _groups(tier))), entry=draw(st.sampled_from(["fn", "module"])),
             pattern=draw(st.sampled_from(PATTERNS)), spike=draw(st.sampled_from([None, None, 0, 1, 2, 3, 4])))
    if c["far"]:
        c["far"] += draw(st.sampled_from([-1, 0, 1]))
    return _with_dim_size(c, tier)


def _chunk_large_expand(c):
    N, T, trail = _expand_dims(c)
    mode = c["mode"]
    lens = _expand_lens(c["lens_kind"], N, T, 0 if mode == "constant" else 1, c["seed"]) if c["give_lens"] else [T] * N
    # slices reaching a threshold distance beyond the sequence only where the other dimensions are small
    far = c["far"] if (N * _prod(trail) <= 600 and mode != "reflect") else 0
    slices = []
    spike = None if c.get("spike") is None else _spike_row(c["spike"], N)
    if spike is not None and mode == "reflect":
        lens[spike] = T
    for n in range(N):
        src = _Det(c["seed"], 4, n)
        kind = src.choice(SLICE_KINDS + ["extreme", "to_end"]) if c["slice_kind"] == "mixed" else c["slice_kind"]
        if spike is not None:
            # one row alone has the longest chunk (the widest legal slice); every other row stays inside its sequence
            kind = "extreme" if n == spike else "inside"
        slices.append(_slice_for(src, kind, mode, lens[n], T, True, far))
    return dict(c, N=N, T=T, trail=trail, lens=lens, slices=slices, value=_det_value(_Det(c["seed"], 3), c["dtype"]))


@subcheck("C09", "chunk_by_slices_large", lambda tier: _chunk_large_cases(tier), 300, 5000,
          doc="chunk_by_slices with one of T / N / F at 15..17, ..., 1023..1025, 2049 (thorough: also 4095..4097), slices of every "
              "kind incl. the widest legal one and slices reaching a threshold distance into the padding; lens and slices are "
              "expanded from (seed, row) by a pure integer hash; same pad-then-slice oracle (N > 700: 600 edge rows + every 7th)",
          required_classes=["T_at_16", "T_at_1024", "T_at_2049", "N_at_16", "N_at_1024", "N_at_2049", "F_at_1024",
                            "pad_ge_1023", "reflect_wholly_right", "reflect_right_offset", "lens_omitted", "one_row_longest"])
def _chunk_large_check(case):
    return _chunk_check(_chunk_large_expand(case))


# ------------------------------------------------------------------ pad_masked_sequence


@st.composite
def _masked_cases(draw, tier):
    big = tier == "thorough"
    N = draw(st.integers(1, 4 if not big else 6))
    T = draw(st.integers(1, 8 if not big else 14))
    kind = draw(st.sampled_from(["mixed", "mixed", "mixed", "all", "none", "same_rows"]))
    if kind == "same_rows":
        N = max(N, 2)
    if kind == "all":
        mask = [[1] * T for _ in range(N)]
    elif kind == "none":
        mask = [[0] * T for _ in range(N)]
    elif kind == "same_rows":
        row = [draw(st.integers(0, 1)) for _ in range(T)]
        mask = [list(row) for _ in range(N)]
    else:
        mask = [[draw(st.integers(0, 1)) for _ in range(T)] for _ in range(N)]
    dtype = draw(st.sampled_from(DTYPES))
    c = {"N": N, "T": T, "trail": draw(st.lists(st.integers(1, 3), min_size=0, max_size=2)), "dtype": dtype,
         "mask": mask, "batch_first": draw(st.booleans()), "value": _value(draw, dtype),
         "entry": draw(st.sampled_from(["fn", "module"])),
         "base": draw(st.sampled_from([1, 100, -7] + ([BIG_BASE] if dtype == "int64" else [])))}
    if not draw(st.sampled_from([True, False, False, False])):
        c["lay"] = {"x": draw(st.sampled_from(X_LAYS[:-1])),
                    "aux": draw(st.sampled_from(["expanded"] if kind == "same_rows" else A_LAYS))}
        c["garbage"] = draw(st.sampled_from(GARBAGE))
        c["pattern"] = draw(st.sampled_from(PATTERNS))
    return c


def _masked_strategy(tier):
    return _masked_cases(tier)


def _masked_check(case):
    import torch

    F, M = _lib()
    N, T, value, bf = case["N"], case["T"], _val(case), case["batch_first"]
    mask = case["mask"]
    x_np, x, classes = _tensors(dict(case, lay=None))  # (N, T, *), clean, own storage
    kind = case.get("garbage")
    if kind not in (None, "none"):
        # garbage at the positions the mask leaves out ("the selected elements ... the remaining values being padding_value")
        vals = L.garbage_values(case["dtype"])[kind]
        k = 0
        for n in range(N):
            for t in range(T):
                if not mask[n][t]:
                    x[n, t] = vals[k % len(vals)]
                    k += 1
        if k:
            classes += ["garbage_masked_out", "garbage_" + kind]
    lay = case.get("lay") or {}
    mask_t = torch.tensor(mask, dtype=torch.bool).view(N, T)
    # the library is handed the axis order batch_first asks for; the requested memory layout is applied to that tensor
    # (without a requested layout the sequence-first form is the transposed view of the batch-first tensor)
    if bf:
        x_in, m_in = L.lay(x, lay.get("x")), L.lay(mask_t, lay.get("aux"))
    else:
        x_in = L.lay(x.transpose(0, 1).contiguous(), lay.get("x")) if lay.get("x") else x.transpose(0, 1)
        m_in = L.lay(mask_t.t().contiguous(), lay.get("aux")) if lay.get("aux") else mask_t.transpose(0, 1)
    for role, t in (("x", x_in), ("aux", m_in)):
        c = L.layout_class(role, t, lay.get(role))
        if c:
            classes.append(c)
    if case["entry"] == "module":
        m = M.PadMaskedSequence(bf, value)
        call = lambda a, b: m(a, b)  # noqa: E731
    else:
        call = lambda a, b: F.pad_masked_sequence(a, b, bf, value)  # noqa: E731
    pattern = case.get("pattern")
    if pattern == "reuse":
        call(x_in.flip(0), m_in.flip(0))
    outs = [call(x_in, m_in)]
    if pattern == "twice":
        outs.append(call(x_in, m_in))
    if pattern:
        classes.append("pattern_" + pattern)
    exp_rows, exp_lens = [], []
    compacts = False
    for n in range(N):
        exp, cnt = O.compact_row(x_np[n], mask[n], value)
        exp_rows.append(exp)
        exp_lens.append(cnt)
        seen0 = False
        for v in mask[n]:
            if not v:
                seen0 = True
            elif seen0:
                compacts = True
    for k, (out, lens) in enumerate(outs):
        where = "" if k == 0 else " (second call with the same tensors)"
        require(tuple(out.shape) == tuple(x_in.shape), "output shape differs from input shape" + where, list(out.shape), list(x_in.shape))
        require(out.dtype == x.dtype, "output dtype differs from input dtype" + where, str(out.dtype), str(x.dtype))
        out_np = (out if bf else out.transpose(0, 1)).numpy()
        for n in range(N):
            require(_eq(out_np[n], exp_rows[n]), "row %d: not (selected elements in order, then the padding value)%s" % (n, where),
                    {"row": n, "got": _show(out_np[n], exp_rows[n]), "mask": mask[n] if T <= 64 else "(%d entries)" % T},
                    _show(exp_rows[n], out_np[n]))
        require(tuple(lens.shape) == (N,) and lens.tolist() == exp_lens, "lens is not the number of selected elements" + where,
                lens.tolist(), exp_lens)
    classes += ["batch_first" if bf else "seq_first", "dtype_" + case["dtype"]] + _size_classes(case)
    tot = sum(sum(r) for r in mask)
    if any(sum(r) == T for r in mask):
        classes.append("row_all_selected")
    if tot == 0:
        classes.append("mask_none")
    if tot == N * T:
        classes.append("mask_all")
    if compacts:
        classes.append("compacts")
    return Info(compacts and N >= 2, sorted(set(classes)))


subcheck("C09", "pad_masked_sequence", _masked_strategy, 800, 20000,
         doc="generated (x, boolean mask, batch_first, padding value): per row the selected elements in order, then the "
             "padding value everywhere else; lens == count; also with garbage (NaN / inf / huge) at the masked-out positions, "
             "non-contiguous / offset layouts of x and mask, a mask expanded (stride 0) over the batch, float64 / int32 data, "
             "repeated calls",
         required_classes=["compacts", "batch_first", "seq_first", "mask_none", "mask_all", "garbage_masked_out", "garbage_nan",
                           "x_transposed", "x_inner", "x_offset", "aux_transposed", "aux_inner", "aux_expanded",
                           "dtype_float64", "dtype_int32", "pattern_twice", "pattern_reuse"])(_masked_check)


@st.composite
def _masked_large_cases(draw, tier):
    c = draw(_large_common(tier))
    c.update(mask_kind=draw(st.sampled_from(["mixed", "mixed", "sparse", "dense", "block", "all", "none", "last_only"])),
             batch_first=draw(st.booleans()), entry=draw(st.sampled_from(["fn", "module"])),
             pattern=draw(st.sampled_from(PATTERNS)))
    return _with_dim_size(c, tier)


def _masked_large_expand(c):
    N, T, trail = _expand_dims(c)
    kind, seed = c["mask_kind"], c["seed"]
    mask = []
    for n in range(N):
        if kind == "all":
            row = [1] * T
        elif kind == "none":
            row = [0] * T
        elif kind == "last_only":
            row = [0] * (T - 1) + [1]
        elif kind == "block":
            a = L.pick(0, T, seed, 6, n)
            b = L.pick(a, T, seed, 7, n)
            row = [1 if a <= t < b else 0 for t in range(T)]
        else:
            mod = {"mixed": 2, "sparse": 8, "dense": 8}[kind]
            row = [int((L.mix(seed, 8, n, t) % mod == 0) != (kind == "dense")) for t in range(T)]
        if kind not in ("all", "none"):
            # single rows that are full, or full but for one end: the row's count reaches T or T - 1
            v = L.pick(0, 9, seed, 10, n)
            if v == 0:
                row = [1] * T
            elif v == 1:
                row = [1] * (T - 1) + [0]
            elif v == 2:
                row = [0] + [1] * (T - 1)
        mask.append(row)
    lay = c.get("lay")
    if lay:
        lay = {"x": lay["x"], "aux": lay["aux"]}
    return dict(c, N=N, T=T, trail=trail, mask=mask, lay=lay, value=_det_value(_Det(seed, 3), c["dtype"]))


@subcheck("C09", "pad_masked_sequence_large", lambda tier: _masked_large_cases(tier), 250, 4000,
          doc="pad_masked_sequence with one of T / N / F at 15..17, ..., 1023..1025, 2049 (thorough: also 4095..4097); the mask "
              "(mixed / sparse / dense / one block / only the last position / all / none) is expanded from (seed, row, position) "
              "by a pure integer hash; loop-compaction oracle on every row",
          required_classes=["T_at_16", "T_at_1024", "T_at_2049", "N_at_1024", "N_at_2049", "F_at_1024", "compacts",
                            "row_all_selected"])
def _masked_large_check(case):
    return _masked_check(_masked_large_expand(case))


# ------------------------------------------------------------------ RandomShift

PROPS = ["0", "0.25", "0.3", "0.5", "0.75", "1", "2.5"]
TWO24 = 1 << 24
BOUNDARY_DRAWS = [0, 1, TWO24 // 2, TWO24 - 1]
HISTORIES = [None, None, None, ["train"], ["eval"], ["train", "eval"], ["eval", "train", "eval"]]


@st.composite
def _shift_cases(draw, tier):
    mode = draw(st.sampled_from(MODES))
    b = draw(_batch(tier, min_len=0 if mode == "constant" else 1))
    props = [p for p in PROPS if not (mode == "reflect" and Fraction(p) > 1)]
    same = draw(st.booleans())
    pl = draw(st.sampled_from(props))
    pr = pl if same else draw(st.sampled_from(props))
    inject = draw(st.sampled_from([True, False, False]))
    draws = None
    if inject:
        d = st.one_of(st.sampled_from(BOUNDARY_DRAWS), st.integers(0, TWO24 - 1),
                      st.integers(0, 15).map(lambda k: k * (TWO24 // 16)))
        draws = draw(st.lists(d, min_size=2 * b["N"], max_size=2 * b["N"]))
    b.update(mode=mode, prop=[pl, pr], scalar_prop=same and draw(st.booleans()), value=_value(draw, b["dtype"]),
             seed=draw(st.integers(0, 2 ** 31 - 1)), draws=draws,
             training=draw(st.sampled_from([True] * 7 + [False])))
    b.update(draw(_extras()))
    b.pop("pattern", None)
    b["history"] = draw(st.sampled_from(HISTORIES))
    return b


def _shift_strategy(tier):
    return _shift_cases(tier)


def _shift_check(case):
    import torch

    F, M = _lib()
    N, T, mode, value, lens = case["N"], case["T"], case["mode"], _val(case), case["lens"]
    x_np, x, classes = _tensors(case, lens)
    lens_t = _index_tensor(lens, (N,), case, "lens", classes)
    pl, pr = (Fraction(p) for p in case["prop"])
    prop_arg = float(pl) if case["scalar_prop"] else (float(pl), float(pr))
    layer = M.RandomShift(prop_arg, mode, value)
    classes += ["mode_" + mode, "dtype_" + case["dtype"]] + _lens_classes(lens, T) + _size_classes(case)

    def eval_call(where):
        layer.eval()
        out, out_lens = layer(x, lens_t)
        require(_same(out, x), "evaluation mode changed the input" + where, _show(out.numpy()), _show(x.numpy()))
        require(out_lens.tolist() == lens, "evaluation mode changed the lengths" + where, out_lens.tolist(), lens)

    # the same layer object used before the judged call: train / eval calls on the same tensors
    for k, op in enumerate(case.get("history") or []):
        if op == "eval":
            eval_call(" (call %d on the same layer object)" % k)
        else:
            layer.train()
            torch.manual_seed(case["seed"] + 1 + k)
            layer(x, lens_t)
    if case.get("history"):
        classes.append("layer_used_before")
        if "train" in case["history"]:
            classes.append("trained_before")
    if not case["training"]:
        eval_call("")
        return Info(False, classes + ["eval"])
    layer.train()
    if case["draws"] is not None:
        vals = [k / TWO24 for k in case["draws"]]
        with fakes.scripted_uniform(vals) as su:
            out, out_lens = layer(x, lens_t)
        require(su.calls >= 1, "harness: injected uniform draws were not consumed", su.calls, ">= 1")
        classes.append("injected_draws")
        if any(k == TWO24 - 1 for k in case["draws"]):
            classes.append("draw_at_upper_boundary")
    else:
        torch.manual_seed(case["seed"])
        out, out_lens = layer(x, lens_t)
        classes.append("seeded")
    out_lens = out_lens.tolist()
    require(len(out_lens) == N, "out_lens has the wrong size", out_lens, N)
    require(out.dtype == x.dtype, "output dtype differs from input dtype", str(out.dtype), str(x.dtype))
    require(out.shape[0] == N and tuple(out.shape[2:]) == tuple(x.shape[2:]) and out.shape[1] >= max(out_lens),
            "output shape is not (N, T' >= max out_len, *)", list(out.shape), [N, max(out_lens)] + list(x.shape[2:]))
    out_np = out.numpy()
    shifted = False
    rows = set(_rows_to_check(N))
    for n in range(N):
        Ln = lens[n]
        total = out_lens[n] - Ln
        bl, br = (pl * Ln).__floor__(), (pr * Ln).__floor__()
        require(0 <= total <= bl + br, "row %d: output length outside [len, len + floor(p_l*len) + floor(p_r*len)]" % n,
                out_lens[n], [Ln, Ln + bl + br])
        shifted = shifted or total > 0
        if n not in rows:
            continue
        seq = x_np[n, :Ln]
        got = out_np[n, :out_lens[n]]
        ok = False
        for l in range(max(0, total - br), min(bl, total) + 1):
            r = total - l
            if mode == "reflect" and (l >= Ln or r >= Ln) and (l or r):
                continue
            if Ln and not _eq(got[l], seq[0]):
                continue  # the sequence is not embedded at offset l (cheap necessary condition)
            if _eq(got, O.pad_row(seq, l, r, mode, value)):
                ok = True
                break
        require(ok, "row %d: output is not the sequence embedded between l <= p_l*len and r <= p_r*len %s-padded elements" % (n, mode),
                {"row": n, "got": _show(got), "len": Ln, "out_len": out_lens[n]}, {"seq": _show(seq), "max_left": bl, "max_right": br})
    if shifted:
        classes.append("shifted")
    if pl > 1 or pr > 1:
        classes.append("prop_gt_1")
    if any(o > T for o in out_lens):
        classes.append("grew_beyond_T")
    return Info(shifted, sorted(set(classes)))


subcheck("C09", "random_shift", _shift_strategy, 1500, 40000,
         doc="RandomShift under a generated torch seed or injected uniform draws (k/2^24 incl. 0 and 1-2^-24): there are whole "
             "l, r >= 0 with l <= p_left*len, r <= p_right*len, out_len = len+l+r and out[:out_len] == numpy.pad(seq, (l, r), mode); "
             "evaluation mode returns its inputs; also after train / eval calls on the same layer object, under non-contiguous / "
             "offset layouts, garbage behind the lengths, float64 / int32 data",
         required_classes=["injected_draws", "seeded", "eval", "shifted", "draw_at_upper_boundary", "prop_gt_1",
                           "layer_used_before", "trained_before", "x_transposed", "x_inner", "x_offset", "lens_strided",
                           "garbage_nan", "garbage_inf", "dtype_float64", "dtype_int32"])(_shift_check)


@st.composite
def _shift_large_cases(draw, tier):
    c = draw(_large_common(tier))
    mode = draw(st.sampled_from(MODES))
    props = [p for p in PROPS if not (mode == "reflect" and Fraction(p) > 1)]
    same = draw(st.booleans())
    pl = draw(st.sampled_from(props))
    pr = pl if same else draw(st.sampled_from(props))
    c.update(mode=mode, prop=[pl, pr], scalar_prop=same and draw(st.booleans()),
             inject=draw(st.sampled_from(["boundary", "hash", None])), history=draw(st.sampled_from(HISTORIES)),
             training=draw(st.sampled_from([True] * 7 + [False])))
    return _with_dim_size(c, tier, dims=("T", "N"))


def _shift_large_expand(c):
    N, T, trail = _expand_dims(c)
    lens = _expand_lens(c["lens_kind"], N, T, 0 if c["mode"] == "constant" else 1, c["seed"])
    draws = None
    if c["inject"] == "boundary":
        draws = [BOUNDARY_DRAWS[L.pick(0, 3, c["seed"], 9, k)] for k in range(2 * N)]
    elif c["inject"] == "hash":
        draws = [L.pick(0, TWO24 - 1, c["seed"], 9, k) for k in range(2 * N)]
    return dict(c, N=N, T=T, trail=trail, lens=lens, draws=draws, value=_det_value(_Det(c["seed"], 3), c["dtype"]))


@subcheck("C09", "random_shift_large", lambda tier: _shift_large_cases(tier), 250, 4000,
          doc="RandomShift with T or N at 15..17, ..., 1023..1025, 2049 (thorough: also 4095..4097); lens and injected draws are expanded "
              "from (seed, row) by a pure integer hash; same existential oracle (N > 700: lengths of every row, contents of 600 "
              "edge rows + every 7th)",
          required_classes=["T_at_16", "T_at_1024", "T_at_2049", "N_at_1024", "N_at_2049", "shifted", "injected_draws", "seeded"])
def _shift_large_check(case):
    return _shift_check(_shift_large_expand(case))
