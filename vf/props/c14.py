"""C14 Batching loses nothing: buckets, loaders and collation preserve every utterance."""
from __future__ import annotations

import os

from hypothesis import strategies as st

from ..core import Info, Violation, require, subcheck
from .. import dirs
from ..oracles import c14_batches as O

PAD = -100  # pydrobert.torch.config.INDEX_PAD_VALUE (documented constant)


def _law(fn, *a):
    try:
        return fn(*a)
    except O.LawBroken as e:
        raise Violation(e.what, e.observed, e.expected)


# ---------------------------------------------------------------- 1. BucketBatchSampler


@st.composite
def _sampler_case(draw, tier):
    big = tier == "thorough"
    N = draw(st.integers(0, 14 if not big else 40))
    kind = draw(st.sampled_from(["perm", "perm", "sub", "repeat"]))
    if kind == "perm":
        order = draw(st.permutations(list(range(N))))
    elif kind == "sub":
        order = draw(st.lists(st.integers(0, max(N - 1, 0)), unique=True, max_size=N)) if N else []
    else:
        order = draw(st.lists(st.integers(0, max(N - 1, 0)), max_size=2 * N)) if N else []
    id_kind = draw(st.sampled_from(["int", "int", "str", "mixed", "negint"]))
    pool = {"int": [0, 1, 2, 3], "str": ["a", "b", "c", "d"], "mixed": [0, "a", 1, "b"], "negint": [-1, 5, 0, -7]}[id_kind]
    nb = draw(st.integers(1, 4))
    ids = pool[:nb]
    return {
        "N": N,
        "order": list(order),
        "bucket_of": [draw(st.sampled_from(ids)) for _ in range(N)],
        "sizes": [[b, draw(st.integers(1, 5))] for b in ids],
        "drop": draw(st.booleans()),
        # a pass that is abandoned after this many batches (peeking at the first batch, a break in the training loop)
        # before the pass that is judged
        "abandon": draw(st.sampled_from([None, None, 1, 2, 0, 3])),
    }


@subcheck("C14", "bucket_sampler", _sampler_case, quick=2500, thorough=40000,
          doc="BucketBatchSampler over any index sequence (permutation, sub-sequence, with repeats), 1..4 bucket ids "
              "(ints, strings, mixed), sizes 1..5, drop_incomplete: single-bucket batches, per-bucket concatenation == "
              "sub-sequence of the sampler order (minus a tail < one batch when dropping), exact sizes, yield-when-full order",
          required_classes=["two_buckets_incomplete", "mixed_ids", "drop", "keep", "repeats", "after_abandoned_pass"])
def _sampler_check(case):
    from pydrobert.torch import data

    order = case["order"]
    idx2bucket = {i: b for i, b in enumerate(case["bucket_of"])}
    bucket2size = {b: s for b, s in case["sizes"]}
    sampler = data.BucketBatchSampler(list(order), dict(idx2bucket), dict(bucket2size), case["drop"])
    abandoned = False
    if case.get("abandon") is not None:
        it = iter(sampler)
        for _ in range(case["abandon"]):
            if next(it, None) is None:
                break
        else:
            abandoned = True
        del it
    batches = [list(b) for b in sampler]
    stats = _law(O.bucket_laws, order, batches, idx2bucket, bucket2size, case["drop"])
    again = [list(b) for b in sampler]
    require(sorted(map(tuple, again)) == sorted(map(tuple, batches)), "a second pass over the same sampler gives other batches",
            again, batches)
    full, left = O.bucket_model(order, idx2bucket, bucket2size, case["drop"])
    require(batches[:len(full)] == full and sorted(map(tuple, batches[len(full):])) == sorted(map(tuple, left)),
            "batches differ from the documented procedure (yield when full, leftovers at the end)", batches, full + left)
    cl = ["drop" if case["drop"] else "keep"]
    used = {idx2bucket[i] for i in order}
    if len({type(b) for b in used}) > 1:
        cl.append("mixed_ids")
    if len(order) != len(set(order)):
        cl.append("repeats")
    leftovers = sum(1 for b in used if sum(1 for i in order if idx2bucket[i] == b) % bucket2size[b])
    nontrivial = len(used) >= 2 and leftovers >= 1
    if len(used) >= 2 and leftovers >= 2:
        cl.append("two_buckets_incomplete")
    if not order:
        cl.append("empty_order")
    if abandoned:
        cl.append("after_abandoned_pass")
    return Info(nontrivial=nontrivial or not order, classes=cl)


# ---------------------------------------------------------------- loaders: shared


@st.composite
def _lengths(draw, lo, hi, max_n):
    n = dirs.wdraw(draw, (2, st.just(0)), (2, st.integers(1, 3)), (10, st.integers(1, max_n)))
    kind = draw(st.sampled_from(["any", "any", "distinct", "ties", "ties"]))
    if kind == "distinct":
        vals = draw(st.permutations(list(range(lo, lo + max(n, 1) + 3))))[:n]
        return list(vals)
    if kind == "ties":
        pool = draw(st.lists(st.integers(lo, hi), min_size=1, max_size=3))
        return [draw(st.sampled_from(pool)) for _ in range(n)]
    return [draw(st.integers(lo, hi)) for _ in range(n)]


def _loader_common(draw, tier):
    return {
        "B": draw(st.integers(1, 5)),
        "K": draw(st.sampled_from([1, 1, 2, 2, 3, 4])),
        "dyn": draw(st.booleans()),
        "drop": draw(st.booleans()),
        "shuffle": draw(st.booleans()),
        "sort": draw(st.booleans()),
        "batch_first": draw(st.booleans()),
        "suppress_uttids": draw(st.booleans()),
        "tokens_only": draw(st.booleans()),
        "seed": draw(st.one_of(st.integers(0, 5), st.integers(0, 2**31 - 1))),
        "init_epoch": draw(st.integers(0, 3)),
    }


def _uid(i):
    return "u%02d" % i


def _feat_list(i, T, F):
    return dirs.feat_tensor({"T": T, "F": F, "dtype": "float32", "rank": 2, "base": 32 * i}).tolist()


def _ref_rows(i, R, T):
    """rows of utterance i: first token identifies the utterance"""
    return [[i if j == 0 else (i + 7 * j) % 23, min(j, T), min(j + 1, T)] for j in range(R)]


def _epoch_order(case, N, epoch):
    from pydrobert.torch import data

    if case["shuffle"]:
        s = data.EpochRandomSampler(range(N), init_epoch=0, base_seed=case["seed"])
        return [int(x) for x in s.get_samples_for_epoch(epoch)]
    return list(range(N))


def _expected_batches(case, loader, lengths, epoch, cl):
    """Index batches the loader must deliver in this epoch: (full batches in order, leftover batches)."""
    from pydrobert.torch import data

    N = len(lengths)
    order = _epoch_order(case, N, epoch)
    bs = loader.batch_sampler
    if case["K"] > 1 and "K_ignored" not in case:
        require(isinstance(bs, data.BucketBatchSampler), "num_length_buckets > 1 but no bucketing sampler", type(bs).__name__, None)
        idx2bucket, bucket2size = dict(bs.idx2bucket), dict(bs.bucket2size)
        require(sorted(idx2bucket) == list(range(N)), "bucket map does not cover the data set", sorted(idx2bucket), N)
        ranges = _law(O.length_classes_ok, lengths, idx2bucket, case["K"])
        members = {}
        for i in range(N):
            members.setdefault(idx2bucket[i], []).append(lengths[i])
        if N and len(set(lengths)) == N and N >= case["K"]:
            # distinct lengths: "elements will be partitioned roughly evenly into num_length_buckets"
            require(len(members) == case["K"], "distinct lengths, N >= K: not K buckets", len(members), case["K"])
            small = min(len(v) for v in members.values())
            require(small >= N // case["K"], "a bucket holds fewer than floor(N / K) utterances",
                    sorted(len(v) for v in members.values()), N // case["K"])
            cl.add("even_split_checked")
        Y = max(lengths) if lengths else 0
        for b, ls in members.items():
            # "x is the greatest value such that x * y <= Y * batch_size" (y: longest element of the bucket)
            want = (Y * case["B"]) // max(ls) if case["dyn"] else case["B"]
            require(bucket2size[b] == want, "batch size of the bucket with lengths %s" % sorted(ls), bucket2size[b], want)
        if len(members) >= 2:
            cl.add("buckets_ge_2")
        if case["dyn"] and len(set(bucket2size.values())) > 1:
            cl.add("dynamic_sizes_differ")
        full, left = O.bucket_model(order, idx2bucket, bucket2size, case["drop"])
        leftovers = sum(1 for b, ls in members.items() if len(ls) % bucket2size[b])
        if len(members) >= 2 and leftovers:
            cl.add("buckets_incomplete")
        return full, left
    batches = O.plain_model(order, case["B"], case["drop"])
    return batches, []


def _tie_at_boundary(lengths, K):
    N = len(lengths)
    m = N // K if K else 0
    if K < 2 or m < 1:
        return False
    s = sorted(lengths)
    return any((n + 1) * m < N and s[(n + 1) * m - 1] == s[(n + 1) * m] for n in range(K - 1))


def _same(a, b):
    """structural equality of batches (tensors, tuples, None)"""
    import torch

    if isinstance(a, torch.Tensor) or isinstance(b, torch.Tensor):
        return isinstance(a, torch.Tensor) and isinstance(b, torch.Tensor) and a.shape == b.shape and a.dtype == b.dtype \
            and bool((a == b).all())
    if isinstance(a, (tuple, list)):
        return isinstance(b, (tuple, list)) and len(a) == len(b) and all(_same(x, y) for x, y in zip(a, b))
    return a == b


def _show(batch):
    from ..core import jsonable

    return jsonable(batch)


def _run_epochs(case, make, lengths, verify_batch, cl):
    """Two epochs from one loader; len() agreement; reproducibility from a second loader and from
    setting .epoch; exact index batches. ``verify_batch(batch, idxs, ordered)`` checks collation."""
    N = len(lengths)
    e0 = case["init_epoch"]
    with dirs.quiet():
        first = make(e0)
        declared = len(first)
        epochs = []
        for e in (e0, e0 + 1):
            require(first.epoch == e, "loader.epoch before the pass", first.epoch, e)
            n_decl = len(first)
            got = list(first)
            require(n_decl == len(got), "len(loader) != number of batches yielded (epoch %d)" % e, n_decl, len(got))
            epochs.append(got)
        require(declared == len(epochs[0]), "len(loader) before iterating", declared, len(epochs[0]))
        # reproducibility
        second = make(e0)
        again = list(second)
        require(_same(again, epochs[0]), "two loaders with equal (seed, epoch=%d) deliver different batches" % e0,
                _show(again), _show(epochs[0]))
        third = make(0)
        third.epoch = e0 + 1
        again = list(third)
        require(_same(again, epochs[1]), "loader with .epoch set to %d differs from the loader that iterated up to it" % (e0 + 1),
                _show(again), _show(epochs[1]))
        for e, got in zip((e0, e0 + 1), epochs):
            full, left = _expected_batches(case, first, lengths, e, cl)
            require(len(got) == len(full) + len(left), "number of batches in epoch %d" % e, len(got), len(full) + len(left))
            seen = []
            for j, batch in enumerate(got):
                if j < len(full):
                    idxs = full[j]
                else:
                    # leftovers come in no documented order: pick the one whose members match
                    idxs = None
                    for cand in left:
                        if cand is not None and verify_batch(batch, cand, probe=True):
                            idxs = cand
                            left[left.index(cand)] = None
                            break
                    require(idxs is not None, "trailing batch %d of epoch %d is none of the expected leftover batches" % (j, e),
                            _show(batch), [c for c in left if c is not None])
                verify_batch(batch, idxs, probe=False)
                seen.extend(idxs)
            # coverage, stated directly
            if not case["drop"]:
                require(sorted(seen) == list(range(N)), "epoch %d does not deliver every utterance exactly once" % e, sorted(seen), N)
            else:
                require(len(set(seen)) == len(seen), "an utterance delivered twice", sorted(seen), None)
    if N == 0:
        cl.add("empty_set")
    if len(epochs[0]) != len(epochs[1]):
        cl.add("len_differs_between_epochs")
    return epochs


# ---------------------------------------------------------------- 2. SpectDataLoader


@st.composite
def _spect_case(draw, tier):
    lens = draw(_lengths(1, 7, 12 if tier == "quick" else 20))
    c = _loader_common(draw, tier)
    c.update({
        "kind": "spect",
        "lens": lens,
        "F": draw(st.integers(1, 2)),
        "rlens": [draw(st.integers(0, 3)) for _ in lens],
        "ref_2d": draw(st.booleans()),
        "with_ali": draw(st.booleans()),
        "with_ref": draw(st.sampled_from([True, True, False])),
        "suppress_alis": draw(st.booleans()),
    })
    return c


def _write_spect(data_dir, case):
    dcase = {"prefix": "", "suffix": ".pt", "ali_dir": case["with_ali"], "ref_dir": case["with_ref"], "utts": []}
    for i, T in enumerate(case["lens"]):
        dcase["utts"].append({
            "id": _uid(i),
            "feat": {"T": T, "F": case["F"], "dtype": "float32", "rank": 2, "base": 32 * i},
            "ali": {"dtype": "int64", "rank": 1, "vals": [(i + t) % 5 for t in range(T)]},
            "ref": {"dtype": "int64", "dim": 2 if case["ref_2d"] else 1, "width": 3, "rows": _ref_rows(i, case["rlens"][i], T)},
        })
    dirs.write_dir(data_dir, dcase)


def _pad_rows(rows, n, fill):
    return rows + [fill] * (n - len(rows))


def _spect_items(case):
    items = []
    for i, T in enumerate(case["lens"]):
        feat = _feat_list(i, T, case["F"])
        ali = [(i + t) % 5 for t in range(T)] if case["with_ali"] else None
        ref = None
        if case["with_ref"]:
            rows = _ref_rows(i, case["rlens"][i], T)
            ref = rows if (case["ref_2d"] and not case["tokens_only"]) else [r[0] for r in rows]
        items.append({"feat": feat, "ali": ali, "ref": ref, "uid": _uid(i)})
    return items


def _check_spect_batch(batch, items, F, batch_first, sort, has_alis, has_uttids, ref_width, probe=False):
    """``items``: the utterances in sampler order. Collation must be lossless."""
    def fail(what, obs=None, exp=None):
        if probe:
            return False
        raise Violation(what, obs, exp)

    want_len = 4 + bool(has_alis) + bool(has_uttids)
    if not (isinstance(batch, tuple) and len(batch) == want_len):
        return fail("batch tuple layout", len(batch) if isinstance(batch, tuple) else repr(type(batch)), want_len)
    pos = 0
    feats = batch[pos]; pos += 1
    alis = None
    if has_alis:
        alis = batch[pos]; pos += 1
    refs, feat_sizes, ref_sizes = batch[pos], batch[pos + 1], batch[pos + 2]
    uttids = batch[pos + 3] if has_uttids else None
    n = len(items)
    sizes = feat_sizes.tolist()
    if len(sizes) != n:
        return fail("number of rows in the batch", len(sizes), n)
    if batch_first:
        rows_of = lambda t: t  # noqa: E731
    else:
        rows_of = lambda t: t.transpose(0, 1)  # noqa: E731
    # which utterance is in which row
    if sort:
        if sizes != sorted(sizes, reverse=True):
            return fail("sort_batch: rows not in descending order of length", sizes, None)
        remaining = list(range(n))
        assign = []
        frows = rows_of(feats).tolist()
        for r in range(n):
            hit = None
            for k in remaining:
                T = len(items[k]["feat"])
                if sizes[r] == T and frows[r][:T] == items[k]["feat"] and (uttids is None or uttids[r] == items[k]["uid"]):
                    hit = k
                    break
            if hit is None:
                return fail("row %d of the batch is none of the utterances that belong to it" % r, frows[r], [it["uid"] for it in items])
            remaining.remove(hit)
            assign.append(hit)
    else:
        assign = list(range(n))
    maxT = max((len(it["feat"]) for it in items), default=0)
    exp_feats = [_pad_rows(items[k]["feat"], maxT, [0.0] * F) for k in assign]
    if list(rows_of(feats).shape) != [n, maxT, F] or rows_of(feats).tolist() != exp_feats:
        return fail("feats: cutting rows back to feat_sizes does not give the utterances / padding is not zero",
                    rows_of(feats).tolist(), exp_feats)
    if sizes != [len(items[k]["feat"]) for k in assign]:
        return fail("feat_sizes", sizes, [len(items[k]["feat"]) for k in assign])
    if has_alis:
        if all(it["ali"] is not None for it in items):
            exp = [_pad_rows(items[k]["ali"], maxT, PAD) for k in assign]
            if alis is None or rows_of(alis).tolist() != exp:
                return fail("alis: rows / padding with INDEX_PAD_VALUE", None if alis is None else rows_of(alis).tolist(), exp)
        elif alis is not None:
            return fail("alis without alignments", alis.tolist(), None)
    if all(it["ref"] is not None for it in items):
        maxR = max((len(it["ref"]) for it in items), default=0)
        fill = [PAD] * ref_width if ref_width else PAD
        exp = [_pad_rows(items[k]["ref"], maxR, fill) for k in assign]
        exp_shape = [n, maxR] + ([ref_width] if ref_width else [])
        if refs is None or list(rows_of(refs).shape) != exp_shape or rows_of(refs).tolist() != exp:
            return fail("refs: rows / padding with INDEX_PAD_VALUE", None if refs is None else rows_of(refs).tolist(), exp)
        if ref_sizes is None or ref_sizes.tolist() != [len(items[k]["ref"]) for k in assign]:
            return fail("ref_sizes", None if ref_sizes is None else ref_sizes.tolist(), [len(items[k]["ref"]) for k in assign])
    elif refs is not None or ref_sizes is not None:
        return fail("refs without references", _show(refs), None)
    if has_uttids and list(uttids) != [items[k]["uid"] for k in assign]:
        return fail("utterance ids are not attached to their rows", list(uttids), [items[k]["uid"] for k in assign])
    return True


@subcheck("C14", "spect_loader", _spect_case, quick=700, thorough=6000,
          doc="SpectDataLoader over a real temporary directory (0..12 utterances, ties, buckets smaller than a batch), every "
              "flag combination, 2 epochs: len == batches yielded; equal (seed, epoch) => equal batches; batches == documented "
              "bucketing of the epoch order; declared buckets are length classes; dynamic sizes by the documented formula; "
              "collation lossless",
          required_classes=["buckets_ge_2", "buckets_incomplete", "tie_at_boundary", "empty_set", "dynamic_sizes_differ",
                            "shuffle", "drop"])
def _spect_check(case):
    from pydrobert.torch import data

    cl = set()
    items = _spect_items(case)
    lengths = list(case["lens"])
    ref_width = 3 if (case["ref_2d"] and not case["tokens_only"]) else 0
    with dirs.scratch_root() as root:
        data_dir = os.path.join(root, "data")
        _write_spect(data_dir, case)

        def make(init_epoch):
            params = data.SpectDataLoaderParams(batch_size=case["B"], num_length_buckets=case["K"],
                                                size_batch_by_length=case["dyn"], drop_last=case["drop"])
            return data.SpectDataLoader(data_dir, params, shuffle=case["shuffle"], batch_first=case["batch_first"],
                                        sort_batch=case["sort"], init_epoch=init_epoch, seed=case["seed"],
                                        suppress_alis=case["suppress_alis"], suppress_uttids=case["suppress_uttids"],
                                        tokens_only=case["tokens_only"], warn_on_missing=False)

        def verify(batch, idxs, probe):
            return _check_spect_batch(batch, [items[i] for i in idxs], case["F"], case["batch_first"], case["sort"],
                                      not case["suppress_alis"], not case["suppress_uttids"], ref_width, probe=probe)

        _run_epochs(case, make, lengths, verify, cl)
    return _loader_info(case, lengths, cl)


def _loader_info(case, lengths, cl):
    if case["K"] > 1 and _tie_at_boundary(lengths, case["K"]):
        cl.add("tie_at_boundary")
    cl.add("shuffle" if case["shuffle"] else "sequential")
    if case["drop"]:
        cl.add("drop")
    if case["K"] > 1 and len(lengths) // case["K"] < case["B"]:
        cl.add("bucket_smaller_than_batch")
    nontrivial = "buckets_incomplete" in cl or "tie_at_boundary" in cl or not lengths
    return Info(nontrivial=nontrivial, classes=sorted(cl))


# ---------------------------------------------------------------- 3. LangDataLoader


@st.composite
def _lang_case(draw, tier):
    c = _loader_common(draw, tier)
    lo = 1 if (c["dyn"] and c["K"] > 1) else 0  # batch size "x * y <= Y * batch_size" is undefined for y = 0
    lens = draw(_lengths(lo, 6, 12 if tier == "quick" else 20))
    c.update({"kind": "lang", "lens": lens, "ref_2d": draw(st.booleans())})
    return c


def _check_lang_batch(batch, items, batch_first, sort, has_uttids, ref_width, probe=False):
    def fail(what, obs=None, exp=None):
        if probe:
            return False
        raise Violation(what, obs, exp)

    want_len = 2 + bool(has_uttids)
    if not (isinstance(batch, tuple) and len(batch) == want_len):
        return fail("batch tuple layout", len(batch) if isinstance(batch, tuple) else repr(type(batch)), want_len)
    refs, ref_sizes = batch[0], batch[1]
    uttids = batch[2] if has_uttids else None
    n = len(items)
    sizes = ref_sizes.tolist()
    if len(sizes) != n:
        return fail("number of rows in the batch", len(sizes), n)
    rows = refs if batch_first else refs.transpose(0, 1)
    if sort:
        if sizes != sorted(sizes, reverse=True):
            return fail("sort_batch: rows not in descending order of length", sizes, None)
        remaining, assign = list(range(n)), []
        rl = rows.tolist()
        for r in range(n):
            hit = None
            for k in remaining:
                R = len(items[k]["ref"])
                if sizes[r] == R and rl[r][:R] == items[k]["ref"] and (uttids is None or uttids[r] == items[k]["uid"]):
                    hit = k
                    break
            if hit is None:
                return fail("row %d of the batch is none of the utterances that belong to it" % r, rl[r], [it["uid"] for it in items])
            remaining.remove(hit)
            assign.append(hit)
    else:
        assign = list(range(n))
    maxR = max((len(it["ref"]) for it in items), default=0)
    fill = [PAD] * ref_width if ref_width else PAD
    exp = [_pad_rows(items[k]["ref"], maxR, fill) for k in assign]
    exp_shape = [n, maxR] + ([ref_width] if ref_width else [])
    if list(rows.shape) != exp_shape or rows.tolist() != exp:
        return fail("refs: cutting rows back to ref_sizes does not give the utterances / padding is not INDEX_PAD_VALUE",
                    rows.tolist(), exp)
    if sizes != [len(items[k]["ref"]) for k in assign]:
        return fail("ref_sizes", sizes, [len(items[k]["ref"]) for k in assign])
    if has_uttids and list(uttids) != [items[k]["uid"] for k in assign]:
        return fail("utterance ids are not attached to their rows", list(uttids), [items[k]["uid"] for k in assign])
    return True


@subcheck("C14", "lang_loader", _lang_case, quick=700, thorough=6000,
          doc="LangDataLoader over a real reference directory (lengths 0..6 incl. empty), suppress_uttids / tokens_only / 2-D "
              "references, buckets, dynamic sizes, 2 epochs: same laws as spect_loader, length = reference length R",
          required_classes=["buckets_ge_2", "buckets_incomplete", "tie_at_boundary", "empty_set", "buckets_without_uttids",
                            "buckets_2d_without_uttids"])
def _lang_check(case):
    from pydrobert.torch import data

    cl = set()
    lengths = list(case["lens"])
    two_d = case["ref_2d"] and not case["tokens_only"]
    items = []
    for i, R in enumerate(lengths):
        rows = _ref_rows(i, R, 9)
        items.append({"ref": rows if two_d else [r[0] for r in rows], "uid": _uid(i)})
    with dirs.scratch_root() as root:
        data_dir = os.path.join(root, "data")
        dcase = {"prefix": "", "suffix": ".pt", "ali_dir": False, "ref_dir": True, "utts": []}
        for i, R in enumerate(lengths):
            dcase["utts"].append({"id": _uid(i), "feat": None,
                                  "ref": {"dtype": "int64", "dim": 2 if case["ref_2d"] else 1, "width": 3,
                                          "rows": _ref_rows(i, R, 9)}})
        dirs.write_dir(data_dir, dcase)

        def make(init_epoch):
            params = data.LangDataLoaderParams(batch_size=case["B"], num_length_buckets=case["K"],
                                               size_batch_by_length=case["dyn"], drop_last=case["drop"])
            return data.LangDataLoader(os.path.join(data_dir, "ref"), params, shuffle=case["shuffle"],
                                       batch_first=case["batch_first"], sort_batch=case["sort"], init_epoch=init_epoch,
                                       seed=case["seed"], suppress_uttids=case["suppress_uttids"],
                                       tokens_only=case["tokens_only"])

        def verify(batch, idxs, probe):
            return _check_lang_batch(batch, [items[i] for i in idxs], case["batch_first"], case["sort"],
                                     not case["suppress_uttids"], 3 if two_d else 0, probe=probe)

        _run_epochs(case, make, lengths, verify, cl)
    if case["K"] > 1 and case["suppress_uttids"] and lengths:
        cl.add("buckets_without_uttids")
        if two_d:
            cl.add("buckets_2d_without_uttids")
    if 0 in lengths:
        cl.add("empty_reference")
    return _loader_info(case, lengths, cl)


# ---------------------------------------------------------------- 4. ContextWindowDataLoader


@st.composite
def _window_case(draw, tier):
    lens = draw(_lengths(1, 6, 10))
    return {
        "kind": "window", "lens": lens, "F": draw(st.integers(1, 2)),
        "B": draw(st.integers(1, 5)), "K": 1, "K_ignored": True, "dyn": False,
        "drop": draw(st.booleans()), "shuffle": draw(st.booleans()),
        "left": draw(st.integers(0, 4)), "right": draw(st.integers(0, 4)), "reverse": draw(st.booleans()),
        "with_ali": draw(st.booleans()), "suppress_uttids": draw(st.booleans()),
        "seed": draw(st.one_of(st.integers(0, 5), st.integers(0, 2**31 - 1))),
        "init_epoch": draw(st.integers(0, 3)),
    }


@subcheck("C14", "window_loader", _window_case, quick=500, thorough=3000,
          doc="ContextWindowDataLoader over a real directory: len == batches yielded, reproducible by (seed, epoch), batches "
              "== consecutive groups of the epoch order; windows == concatenated index-clamped windows of the stored "
              "features (left/right/reverse), alis concatenated, window_sizes and ids attached",
          required_classes=["window_wider_than_utterance", "empty_set", "drop"])
def _window_check(case):
    from pydrobert.torch import data

    cl = set()
    lengths = list(case["lens"])
    C = 1 + case["left"] + case["right"]
    feats = [_feat_list(i, T, case["F"]) for i, T in enumerate(lengths)]
    wins = [[O.clamp_window(f, t, case["left"], case["right"], case["reverse"]) for t in range(len(f))] for f in feats]
    alis = [[(i + t) % 5 for t in range(T)] for i, T in enumerate(lengths)]

    def verify(batch, idxs, probe):
        has_ids = not case["suppress_uttids"]
        want_len = 4 if has_ids else 2
        require(isinstance(batch, tuple) and len(batch) == want_len, "batch tuple layout", len(batch), want_len)
        exp_w = [w for i in idxs for w in wins[i]]
        require(list(batch[0].shape) == [len(exp_w), C, case["F"]] and batch[0].tolist() == exp_w,
                "windows are not the concatenated edge-replicated windows of the utterances", batch[0].tolist(), exp_w)
        if case["with_ali"]:
            exp_a = [a for i in idxs for a in alis[i]]
            require(batch[1] is not None and batch[1].tolist() == exp_a, "alis are not the concatenated alignments",
                    None if batch[1] is None else batch[1].tolist(), exp_a)
        else:
            require(batch[1] is None, "alis without alignments", _show(batch[1]), None)
        if has_ids:
            require(batch[2].tolist() == [lengths[i] for i in idxs], "window_sizes", batch[2].tolist(), [lengths[i] for i in idxs])
            require(list(batch[3]) == [_uid(i) for i in idxs], "utterance ids", list(batch[3]), [_uid(i) for i in idxs])
        return True

    with dirs.scratch_root() as root:
        data_dir = os.path.join(root, "data")
        wcase = dict(case, with_ref=False, ref_2d=False, rlens=[0] * len(lengths))
        _write_spect(data_dir, wcase)

        def make(init_epoch):
            params = data.ContextWindowDataLoaderParams(batch_size=case["B"], drop_last=case["drop"],
                                                        context_left=case["left"], context_right=case["right"],
                                                        reverse=case["reverse"])
            return data.ContextWindowDataLoader(data_dir, params, shuffle=case["shuffle"], init_epoch=init_epoch,
                                                seed=case["seed"], suppress_uttids=case["suppress_uttids"],
                                                warn_on_missing=False)

        _run_epochs(case, make, lengths, verify, cl)
    if any(T < C for T in lengths):
        cl.add("window_wider_than_utterance")
    if case["drop"]:
        cl.add("drop")
    if case["reverse"]:
        cl.add("reverse")
    return Info(nontrivial=(not lengths) or (len(lengths) % case["B"] != 0), classes=sorted(cl))


# ---------------------------------------------------------------- 5. collation functions, directly


@st.composite
def _collate_case(draw, tier):
    kind = draw(st.sampled_from(["spect", "spect", "lang", "window"]))
    n = draw(st.integers(1, 5))
    return {
        "kind": kind,
        "lens": [draw(st.integers(0 if kind != "window" else 1, 5)) for _ in range(n)],
        "rlens": [draw(st.integers(0, 4)) for _ in range(n)],
        "F": draw(st.integers(1, 3)),
        "C": draw(st.integers(1, 3)),
        "has_alis": draw(st.booleans()), "alis_none": draw(st.booleans()),
        "refs_none": draw(st.sampled_from([False, False, True])),
        "ref_2d": draw(st.booleans()),
        "has_uttids": draw(st.booleans()),
        "sort": draw(st.booleans()),
        "batch_first": draw(st.booleans()),
        "perm": draw(st.permutations(list(range(n)))),
    }


@subcheck("C14", "collation", _collate_case, quick=1500, thorough=25000,
          doc="spect_seq_to_batch / lang_seq_to_batch / context_window_seq_to_batch on generated tensor lists (zero lengths, "
              "None alignments/references, 1-D/2-D references, every flag): rows cut back to the reported sizes == inputs, "
              "padding == 0 / INDEX_PAD_VALUE, ids stay on their rows",
          required_classes=["spect", "lang", "window", "zero_length", "refs_none", "sorted", "time_major"])
def _collate_check(case):
    import torch
    from pydrobert.torch import data

    kind, n = case["kind"], len(case["lens"])
    ids = [_uid(case["perm"][i]) for i in range(n)]  # ids unrelated to the row order
    cl = {kind}
    if kind == "window":
        C, F = case["C"], case["F"]
        wins = [(torch.arange(T * C * F, dtype=torch.float32).reshape(T, C, F) + 100 * i) / 4 for i, T in enumerate(case["lens"])]
        alis = [None if case["alis_none"] else torch.tensor([(i + t) % 5 for t in range(T)], dtype=torch.long)
                for i, T in enumerate(case["lens"])]
        seq = [(w, a, u) if case["has_uttids"] else (w, a) for w, a, u in zip(wins, alis, ids)]
        out = data.context_window_seq_to_batch(seq, case["has_uttids"])
        require(isinstance(out, tuple) and len(out) == (4 if case["has_uttids"] else 2), "tuple layout", len(out), None)
        exp = [row for w in wins for row in w.tolist()]
        require(out[0].tolist() == exp and list(out[0].shape) == [len(exp), C, F], "windows not concatenated in order",
                out[0].tolist(), exp)
        if case["alis_none"]:
            require(out[1] is None, "alis must be None when an element has none", _show(out[1]), None)
        else:
            expa = [x for a in alis for x in a.tolist()]
            require(out[1] is not None and out[1].tolist() == expa, "alis not concatenated in order", _show(out[1]), expa)
        if case["has_uttids"]:
            require(out[2].tolist() == case["lens"], "window_sizes", out[2].tolist(), case["lens"])
            require(list(out[3]) == ids, "utterance ids", list(out[3]), ids)
        return Info(nontrivial=n >= 2, classes=sorted(cl))
    two_d = case["ref_2d"]
    items = []
    for i, T in enumerate(case["lens"]):
        R = case["rlens"][i]
        rows = _ref_rows(i, R, T)
        items.append({
            "feat": _feat_list(i, T, case["F"]),
            "ali": None if case["alis_none"] else [(i + t) % 5 for t in range(T)],
            "ref": None if (case["refs_none"] and kind == "spect") else (rows if two_d else [r[0] for r in rows]),
            "uid": ids[i],
        })

    def tens(it):
        feat = torch.tensor(it["feat"], dtype=torch.float32).reshape(len(it["feat"]), case["F"])
        ali = None if it["ali"] is None else torch.tensor(it["ali"], dtype=torch.long)
        ref = None
        if it["ref"] is not None:
            ref = torch.tensor(it["ref"], dtype=torch.long).reshape([len(it["ref"])] + ([3] if two_d else []))
        return feat, ali, ref

    if kind == "spect":
        seq = []
        for it in items:
            feat, ali, ref = tens(it)
            tup = (feat,) + ((ali,) if case["has_alis"] else ()) + (ref,) + ((it["uid"],) if case["has_uttids"] else ())
            seq.append(tup)
        out = data.spect_seq_to_batch(seq, case["batch_first"], case["sort"], case["has_alis"], case["has_uttids"])
        _check_spect_batch(out, items, case["F"], case["batch_first"], case["sort"], case["has_alis"], case["has_uttids"],
                           3 if two_d else 0)
        if case["refs_none"]:
            cl.add("refs_none")
        if 0 in case["lens"]:
            cl.add("zero_length")
    else:
        seq = []
        for it in items:
            ref = tens(it)[2]
            seq.append((ref, it["uid"]) if case["has_uttids"] else ref)
        out = data.lang_seq_to_batch(seq, case["batch_first"], case["sort"], case["has_uttids"])
        _check_lang_batch(out, items, case["batch_first"], case["sort"], case["has_uttids"], 3 if two_d else 0)
        if 0 in case["rlens"]:
            cl.add("zero_length")
    if case["sort"]:
        cl.add("sorted")
    if not case["batch_first"]:
        cl.add("time_major")
    return Info(nontrivial=n >= 2 and len(set(case["lens"] if kind == "spect" else case["rlens"])) >= 2, classes=sorted(cl))


# ---------------------------------------------------------------- 6. extract_window, exhaustively


def _extract_enum(tier):
    maxT, maxC = (6, 4) if tier == "quick" else (9, 7)
    out = []
    for T in range(1, maxT + 1):
        for left in range(0, maxC + 1):
            for right in range(0, maxC + 1):
                for t in range(T):
                    for reverse in (False, True):
                        out.append({"T": T, "F": 1 + (T + left) % 2, "left": left, "right": right, "t": t, "reverse": reverse})
    return out


@subcheck("C14", "extract_window_enum", _extract_enum, 0, 0, exhaustive=True,
          doc="every (T<=6|9, left<=4|7, right<=4|7, frame, reverse): extract_window == frame indices clamped to [0, T-1]",
          required_classes=["both_edges", "inside"])
def _extract_check(case):
    import torch
    from pydrobert.torch import data

    T, F = case["T"], case["F"]
    feat_l = _feat_list(0, T, F)
    feat = torch.tensor(feat_l, dtype=torch.float32).reshape(T, F)
    out = data.extract_window(feat, case["t"], case["left"], case["right"], case["reverse"])
    exp = O.clamp_window(feat_l, case["t"], case["left"], case["right"], case["reverse"])
    require(list(out.shape) == [1 + case["left"] + case["right"], F] and out.tolist() == exp,
            "extract_window differs from index clamping", out.tolist(), exp)
    require(feat.tolist() == feat_l, "extract_window modified its input", feat.tolist(), feat_l)
    lo, hi = case["t"] - case["left"] < 0, case["t"] + case["right"] > T - 1
    cl = ["both_edges" if lo and hi else "left_edge" if lo else "right_edge" if hi else "inside"]
    return Info(nontrivial=lo or hi, classes=cl)
