"""C14 Batching loses nothing: buckets, loaders and collation preserve every utterance."""
from __future__ import annotations

import os

from hypothesis import strategies as st

from ..core import Info, Violation, require, subcheck
from .. import dirs
from ..oracles import c14_batches as O

PAD = -100  # pydrobert.torch.config.INDEX_PAD_VALUE (documented constant)

# sizes on both sides of typical implementation thresholds (block sizes, special paths)
SIZES = [15, 16, 17, 31, 32, 33, 63, 64, 65, 127, 128, 129, 255, 256, 257, 1023, 1024, 1025, 2049]
BIG_BATCH = [15, 16, 17, 31, 32, 33, 64, 65, 128, 129]
LAYOUT_POOL = ["own"] * 4 + dirs.LAYOUTS[1:]   # memory layout of a tensor (dirs.with_layout)


def _pick(table):
    """one entry of ``table`` chosen through a single integer: in budgets of a few dozen cases the table's weights are
    respected much better than by nested sampled_from; shrinks towards table[0]"""
    table = list(table)
    return st.integers(0, 10 ** 6).map(lambda v: table[v % len(table)])


def _law(fn, *a):
    try:
        return fn(*a)
    except O.LawBroken as e:
        raise Violation(e.what, e.observed, e.expected)


# ---------------------------------------------------------------- 1. BucketBatchSampler


@st.composite
def _sampler_case(draw, tier):
    big = tier == "thorough"
    N = draw(st.integers(0, 14 if not big else 40))
    kind = draw(st.sampled_from(["perm", "perm", "sub", "repeat"]))
    if kind == "perm":
        order = draw(st.permutations(list(range(N))))
    elif kind == "sub":
        order = draw(st.lists(st.integers(0, max(N - 1, 0)), unique=True, max_size=N)) if N else []
    else:
        order = draw(st.lists(st.integers(0, max(N - 1, 0)), max_size=2 * N)) if N else []
    id_kind = draw(st.sampled_from(["int", "int", "str", "mixed", "negint"]))
    pool = {"int": [0, 1, 2, 3], "str": ["a", "b", "c", "d"], "mixed": [0, "a", 1, "b"], "negint": [-1, 5, 0, -7]}[id_kind]
    nb = draw(st.integers(1, 4))
    ids = pool[:nb]
    case = {
        "N": N,
        "order": list(order),
        "bucket_of": [draw(st.sampled_from(ids)) for _ in range(N)],
        "sizes": [[b, draw(st.integers(1, 5))] for b in ids],
        "drop": draw(st.booleans()),
        # a pass that is abandoned after this many batches (peeking at the first batch, a break in the training loop)
        # before the pass that is judged
        "abandon": draw(st.sampled_from([None, None, 1, 2, 0, 3])),
        # an iterator that is opened, advanced this many batches, held open across the judged pass and finished
        # after it (two passes over one sampler object in flight at once)
        "hold": draw(st.sampled_from([None, None, None, 1, 2, 3])),
    }
    if draw(st.integers(0, 5)) == 5:
        # sizes across thresholds: the index sequence, bucket map and batch sizes are expanded from these integers
        # by _expand_sampler (a pure function); N / order / bucket_of / sizes above are then not used
        case["gen"] = {
            "N": draw(_pick(SIZES[:15] + SIZES if big else SIZES[:15] * 2 + SIZES)),
            "nb": draw(_pick([1, 2, 3, 4, 15, 16, 17, 33, 65, 257])),
            "a": draw(st.integers(1, 50)), "b": draw(st.integers(0, 50)), "c": draw(st.integers(1, 9)),
            "size_sel": [draw(st.integers(0, 13)) for _ in range(3)],
            "ids": id_kind, "part": draw(st.sampled_from(["perm", "perm", "sub", "repeat"])),
        }
    return case


_SAMPLER_SIZES = [1, 2, 3, 5] + BIG_BATCH


def _expand_sampler(g):
    """(order, bucket_of, sizes) for a generated-size case: a permutation i -> (a*i + b) mod N with a made coprime to N
    (or its first two thirds / itself followed by its first third), buckets in runs of varying length"""
    import math

    N, nb, a = g["N"], g["nb"], g["a"]
    while math.gcd(a, N) != 1:
        a += 1
    order = [(a * i + g["b"]) % N for i in range(N)]
    if g["part"] == "sub":
        order = order[:(2 * N) // 3]
    elif g["part"] == "repeat":
        order = order + order[:N // 3]

    def bid(j):
        if g["ids"] == "str" or (g["ids"] == "mixed" and j % 2):
            return "b%d" % j
        return -j if g["ids"] == "negint" else j

    bucket_of = [bid(((i * g["c"]) // 7 + i) % nb) for i in range(N)]
    sel = g["size_sel"]
    sizes = [[bid(j), _SAMPLER_SIZES[(sel[j % len(sel)] + j) % len(_SAMPLER_SIZES)]] for j in range(nb)]
    return order, bucket_of, sizes


@subcheck("C14", "bucket_sampler", _sampler_case, quick=2500, thorough=40000,
          doc="BucketBatchSampler over any index sequence (permutation, sub-sequence, with repeats), 1..4 bucket ids "
              "(ints, strings, mixed), sizes 1..5, drop_incomplete: single-bucket batches, per-bucket concatenation == "
              "sub-sequence of the sampler order (minus a tail < one batch when dropping), exact sizes, yield-when-full order",
          required_classes=["two_buckets_incomplete", "mixed_ids", "drop", "keep", "repeats", "after_abandoned_pass",
                            "iterator_held_open", "n_ge_255", "n_ge_1023", "buckets_ge_15", "batch_size_ge_15",
                            "batch_size_ge_64", "full_batch_ge_64"])
def _sampler_check(case):
    from pydrobert.torch import data

    if case.get("gen"):
        order, bucket_of, sizes = _expand_sampler(case["gen"])
    else:
        order, bucket_of, sizes = case["order"], case["bucket_of"], case["sizes"]
    idx2bucket = {i: b for i, b in enumerate(bucket_of)}
    bucket2size = {b: s for b, s in sizes}
    sampler = data.BucketBatchSampler(list(order), dict(idx2bucket), dict(bucket2size), case["drop"])
    held, held_first = None, []
    if case.get("hold"):
        held = iter(sampler)
        for _ in range(case["hold"]):
            b = next(held, None)
            if b is None:
                break
            held_first.append(list(b))
    abandoned = False
    if case.get("abandon") is not None:
        it = iter(sampler)
        for _ in range(case["abandon"]):
            if next(it, None) is None:
                break
        else:
            abandoned = True
        del it
    batches = [list(b) for b in sampler]
    stats = _law(O.bucket_laws, order, batches, idx2bucket, bucket2size, case["drop"])
    again = [list(b) for b in sampler]
    require(sorted(map(tuple, again)) == sorted(map(tuple, batches)), "a second pass over the same sampler gives other batches",
            again, batches)
    full, left = O.bucket_model(order, idx2bucket, bucket2size, case["drop"])
    require(batches[:len(full)] == full and sorted(map(tuple, batches[len(full):])) == sorted(map(tuple, left)),
            "batches differ from the documented procedure (yield when full, leftovers at the end)", batches, full + left)
    cl = ["drop" if case["drop"] else "keep"]
    if held is not None:
        # the iterator opened before the judged pass is finished now: it is a pass of its own
        whole = held_first + [list(b) for b in held]
        _law(O.bucket_laws, order, whole, idx2bucket, bucket2size, case["drop"])
        require(whole[:len(full)] == full and sorted(map(tuple, whole[len(full):])) == sorted(map(tuple, left)),
                "an iterator held open across another pass over the same sampler does not deliver the documented batches",
                whole, full + left)
        if held_first:
            cl.append("iterator_held_open")
    if len(order) >= 255:
        cl.append("n_ge_255")
    if len(order) >= 1023:
        cl.append("n_ge_1023")
    used = {idx2bucket[i] for i in order}
    if len({type(b) for b in used}) > 1:
        cl.append("mixed_ids")
    if len(order) != len(set(order)):
        cl.append("repeats")
    leftovers = sum(1 for b in used if sum(1 for i in order if idx2bucket[i] == b) % bucket2size[b])
    nontrivial = len(used) >= 2 and leftovers >= 1
    if len(used) >= 2 and leftovers >= 2:
        cl.append("two_buckets_incomplete")
    if not order:
        cl.append("empty_order")
    if len(used) >= 15:
        cl.append("buckets_ge_15")
    for lim in (15, 64):
        if any(bucket2size[b] >= lim for b in used):
            cl.append("batch_size_ge_%d" % lim)
    if any(len(b) >= 64 for b in batches):
        cl.append("full_batch_ge_64")
    if abandoned:
        cl.append("after_abandoned_pass")
    return Info(nontrivial=nontrivial or not order, classes=cl)


# ---------------------------------------------------------------- loaders: shared


@st.composite
def _lengths(draw, lo, hi, max_n):
    n = dirs.wdraw(draw, (2, st.just(0)), (2, st.integers(1, 3)), (10, st.integers(1, max_n)))
    kind = draw(st.sampled_from(["any", "any", "distinct", "ties", "ties", "wide"]))
    if kind == "wide":
        # lengths of one, two and three digits (9/10/11, 99/100/101): orderings that are not numeric show here
        pool = [v for v in (lo, 2, 9, 10, 11, 12, 20, 99, 100, 101) if v >= lo]
        return [draw(st.sampled_from(pool)) for _ in range(n)]
    if kind == "distinct":
        vals = draw(st.permutations(list(range(lo, lo + max(n, 1) + 3))))[:n]
        return list(vals)
    if kind == "ties":
        pool = draw(st.lists(st.integers(lo, hi), min_size=1, max_size=3))
        return [draw(st.sampled_from(pool)) for _ in range(n)]
    return [draw(st.integers(lo, hi)) for _ in range(n)]


def _pattern(draw):
    """call pattern on the loader object before / around the judged passes"""
    return draw(st.sampled_from([["plain"], ["plain"], ["plain"], ["abandon", 0], ["abandon", 1], ["abandon", 2],
                                 ["held", 1], ["held", 2], ["held", 3]]))


def _loader_common(draw, tier):
    return {
        "B": draw(_pick([1, 2, 3, 4, 5] * 4 + [15, 16, 17, 33])),
        "K": draw(_pick([1, 1, 2, 2, 3, 4] * 3 + [15, 17])),
        "pattern": _pattern(draw),
        "share_ds": draw(st.booleans()),          # one data set object handed to every loader of the case
        "layouts": [draw(st.sampled_from(LAYOUT_POOL)) for _ in range(3)],   # stored feat / ali / ref tensors
        "fdt": draw(st.sampled_from(["float32", "float32", "float64", "float16"])),
        "dyn": draw(st.booleans()),
        "drop": draw(st.booleans()),
        "shuffle": draw(st.booleans()),
        "sort": draw(st.booleans()),
        "batch_first": draw(st.booleans()),
        "suppress_uttids": draw(st.booleans()),
        "tokens_only": draw(st.booleans()),
        "seed": draw(st.one_of(st.integers(0, 5), st.integers(0, 2**31 - 1))),
        "init_epoch": draw(st.integers(0, 3)),
    }


def _uid(i):
    # zero-padded: the data sets list utterances in string order; the tails are characters of the ".pt" suffix
    # (discovery strips exactly one suffix, nothing more)
    return "u%04d" % i + ("", "t", "p", ".", "pt")[i % 5]


def _feat_list(i, T, F):
    return dirs.feat_tensor({"T": T, "F": F, "dtype": "float32", "rank": 2, "base": 32 * i}).tolist()


def _ref_rows(i, R, T):
    """rows of utterance i: first token identifies the utterance"""
    return [[i if j == 0 else (i + 7 * j) % 23, min(j, T), min(j + 1, T)] for j in range(R)]


def _epoch_order(case, N, epoch):
    from pydrobert.torch import data

    if case["shuffle"]:
        s = data.EpochRandomSampler(range(N), init_epoch=0, base_seed=case["seed"])
        return [int(x) for x in s.get_samples_for_epoch(epoch)]
    return list(range(N))


def _expected_batches(case, loader, lengths, epoch, cl):
    """Index batches the loader must deliver in this epoch: (full batches in order, leftover batches)."""
    from pydrobert.torch import data

    N = len(lengths)
    order = _epoch_order(case, N, epoch)
    bs = loader.batch_sampler
    if case["K"] > 1 and "K_ignored" not in case:
        require(isinstance(bs, data.BucketBatchSampler), "num_length_buckets > 1 but no bucketing sampler", type(bs).__name__, None)
        idx2bucket, bucket2size = dict(bs.idx2bucket), dict(bs.bucket2size)
        require(sorted(idx2bucket) == list(range(N)), "bucket map does not cover the data set", sorted(idx2bucket), N)
        ranges = _law(O.length_classes_ok, lengths, idx2bucket, case["K"])
        members = {}
        for i in range(N):
            members.setdefault(idx2bucket[i], []).append(lengths[i])
        if N and len(set(lengths)) == N and N >= case["K"]:
            # distinct lengths: "elements will be partitioned roughly evenly into num_length_buckets"
            require(len(members) == case["K"], "distinct lengths, N >= K: not K buckets", len(members), case["K"])
            small = min(len(v) for v in members.values())
            require(small >= N // case["K"], "a bucket holds fewer than floor(N / K) utterances",
                    sorted(len(v) for v in members.values()), N // case["K"])
            cl.add("even_split_checked")
        Y = max(lengths) if lengths else 0
        for b, ls in members.items():
            # "x is the greatest value such that x * y <= Y * batch_size" (y: longest element of the bucket)
            want = (Y * case["B"]) // max(ls) if case["dyn"] else case["B"]
            require(bucket2size[b] == want, "batch size of the bucket with lengths %s" % sorted(ls), bucket2size[b], want)
        if len(members) >= 2:
            cl.add("buckets_ge_2")
        if case["dyn"] and len(set(bucket2size.values())) > 1:
            cl.add("dynamic_sizes_differ")
        full, left = O.bucket_model(order, idx2bucket, bucket2size, case["drop"])
        leftovers = sum(1 for b, ls in members.items() if len(ls) % bucket2size[b])
        if len(members) >= 2 and leftovers:
            cl.add("buckets_incomplete")
        return full, left
    batches = O.plain_model(order, case["B"], case["drop"])
    return batches, []


def _tie_at_boundary(lengths, K):
    N = len(lengths)
    m = N // K if K else 0
    if K < 2 or m < 1:
        return False
    s = sorted(lengths)
    return any((n + 1) * m < N and s[(n + 1) * m - 1] == s[(n + 1) * m] for n in range(K - 1))


def _same(a, b):
    """structural equality of batches (tensors, tuples, None)"""
    import torch

    if isinstance(a, torch.Tensor) or isinstance(b, torch.Tensor):
        return isinstance(a, torch.Tensor) and isinstance(b, torch.Tensor) and a.shape == b.shape and a.dtype == b.dtype \
            and bool((a == b).all())
    if isinstance(a, (tuple, list)):
        return isinstance(b, (tuple, list)) and len(a) == len(b) and all(_same(x, y) for x, y in zip(a, b))
    return a == b


def _show(batch):
    from ..core import jsonable

    return jsonable(batch)


def _run_epochs(case, make, lengths, verify_batch, cl):
    """Two epochs from one loader; len() agreement; reproducibility from a second loader and from
    setting .epoch; exact index batches. ``verify_batch(batch, idxs, ordered)`` checks collation.

    case["pattern"]: ["plain"] | ["abandon", k] (a pass given up after k batches before the judged ones) |
    ["held", k] (an iterator advanced k batches, held open across the judged passes, finished and judged after
    them).  A pass belongs to the epoch ``loader.epoch`` shows right before its first batch is drawn."""
    N = len(lengths)
    e0 = case["init_epoch"]
    pat = case.get("pattern") or ["plain"]

    def judge(loader, e, got):
        full, left = _expected_batches(case, loader, lengths, e, cl)
        require(len(got) == len(full) + len(left), "number of batches in epoch %d" % e, len(got), len(full) + len(left))
        seen = []
        for j, batch in enumerate(got):
            if j < len(full):
                idxs = full[j]
            else:
                # leftovers come in no documented order: pick the one whose members match
                idxs = None
                for cand in left:
                    if cand is not None and verify_batch(batch, cand, probe=True):
                        idxs = cand
                        left[left.index(cand)] = None
                        break
                require(idxs is not None, "trailing batch %d of epoch %d is none of the expected leftover batches" % (j, e),
                        _show(batch), [c for c in left if c is not None])
            verify_batch(batch, idxs, probe=False)
            seen.extend(idxs)
        # coverage, stated directly
        if not case["drop"]:
            require(sorted(seen) == list(range(N)), "epoch %d does not deliver every utterance exactly once" % e, sorted(seen), N)
        else:
            require(len(set(seen)) == len(seen), "an utterance delivered twice", sorted(seen), None)

    with dirs.quiet():
        first = make(e0)
        declared = len(first)
        held_it, held_first, e_held = None, [], None
        if pat[0] == "abandon":
            it = iter(first)
            for _ in range(pat[1]):
                if next(it, None) is None:
                    break
            del it
            cl.add("after_abandoned_pass")
        elif pat[0] == "held" and pat[1] > 0:
            e_held = first.epoch
            held_it = iter(first)
            for _ in range(pat[1]):
                b = next(held_it, None)
                if b is None:
                    break
                held_first.append(b)
        e1 = first.epoch
        epochs = []
        for e in (e1, e1 + 1):
            require(first.epoch == e, "loader.epoch before the pass", first.epoch, e)
            n_decl = len(first)
            got = list(first)
            require(n_decl == len(got), "len(loader) != number of batches yielded (epoch %d)" % e, n_decl, len(got))
            epochs.append(got)
        require(declared == len(epochs[0]), "len(loader) before iterating", declared, len(epochs[0]))
        # reproducibility
        second = make(e1)
        again = list(second)
        require(_same(again, epochs[0]), "two loaders with equal (seed, epoch=%d) deliver different batches" % e1,
                _show(again), _show(epochs[0]))
        third = make(0)
        third.epoch = e1 + 1
        again = list(third)
        require(_same(again, epochs[1]), "loader with .epoch set to %d differs from the loader that iterated up to it" % (e1 + 1),
                _show(again), _show(epochs[1]))
        for e, got in zip((e1, e1 + 1), epochs):
            judge(first, e, got)
        if held_it is not None:
            # the iterator opened before the judged passes is finished now: it is the pass of the epoch it started in
            got = held_first + list(held_it)
            require(len(got) == declared, "len(loader) != number of batches of a pass that was held open", declared, len(got))
            judge(first, e_held, got)
            if held_first:
                cl.add("iterator_held_open")
    if case.get("share_ds"):
        cl.add("shared_data_set_object")
    if N == 0:
        cl.add("empty_set")
    if len(epochs[0]) != len(epochs[1]):
        cl.add("len_differs_between_epochs")
    return epochs


# ---------------------------------------------------------------- 2. SpectDataLoader


@st.composite
def _spect_case(draw, tier):
    lens = draw(_lengths(1, 7, 12 if tier == "quick" else 20))
    c = _loader_common(draw, tier)
    c.update({
        "kind": "spect",
        "lens": lens,
        "F": draw(st.integers(1, 2)),
        "rlens": [draw(st.integers(0, 3)) for _ in lens],
        "ref_2d": draw(st.booleans()),
        "with_ali": draw(st.booleans()),
        "with_ref": draw(st.sampled_from([True, True, False])),
        "suppress_alis": draw(st.booleans()),
    })
    return c


def _layouts(case, cl=None):
    """stored-tensor layouts (feat, ali, ref) of a loader case; utterance i uses them rotated by i"""
    lay = case.get("layouts") or ["own", "own", "own"]
    if cl is not None:
        for x in set(lay):
            if x != "own":
                cl.add("stored_as_view")
                cl.add("layout_" + x)
    return lay


def _write_spect(data_dir, case):
    dcase = {"prefix": "", "suffix": ".pt", "ali_dir": case["with_ali"], "ref_dir": case["with_ref"], "utts": []}
    lay = _layouts(case)
    for i, T in enumerate(case["lens"]):
        dcase["utts"].append({
            "id": _uid(i),
            "feat": {"T": T, "F": case["F"], "dtype": case.get("fdt", "float32"), "rank": 2, "base": 32 * i,
                     "layout": lay[i % 3]},
            "ali": {"dtype": "int64", "rank": 1, "vals": [(i + t) % 5 for t in range(T)], "layout": lay[(i + 1) % 3]},
            "ref": {"dtype": "int64", "dim": 2 if case["ref_2d"] else 1, "width": 3, "rows": _ref_rows(i, case["rlens"][i], T),
                    "layout": lay[(i + 2) % 3]},
        })
    dirs.write_dir(data_dir, dcase)


def _pad_rows(rows, n, fill):
    return rows + [fill] * (n - len(rows))


def _spect_items(case):
    items = []
    for i, T in enumerate(case["lens"]):
        feat = _feat_list(i, T, case["F"])
        ali = [(i + t) % 5 for t in range(T)] if case["with_ali"] else None
        ref = None
        if case["with_ref"]:
            rows = _ref_rows(i, case["rlens"][i], T)
            ref = rows if (case["ref_2d"] and not case["tokens_only"]) else [r[0] for r in rows]
        items.append({"feat": feat, "ali": ali, "ref": ref, "uid": _uid(i)})
    return items


def _check_spect_batch(batch, items, F, batch_first, sort, has_alis, has_uttids, ref_width, probe=False, fdt=None,
                       canon=None):
    """``items``: the utterances in sampler order. Collation must be lossless.
    ``fdt``: dtype name the features were given in (the batch must keep it); ``canon``: applied to the feature
    batch before comparing (used to make NaN comparable)."""
    def fail(what, obs=None, exp=None):
        if probe:
            return False
        raise Violation(what, obs, exp)

    want_len = 4 + bool(has_alis) + bool(has_uttids)
    if not (isinstance(batch, tuple) and len(batch) == want_len):
        return fail("batch tuple layout", len(batch) if isinstance(batch, tuple) else repr(type(batch)), want_len)
    pos = 0
    feats = batch[pos]; pos += 1
    alis = None
    if has_alis:
        alis = batch[pos]; pos += 1
    refs, feat_sizes, ref_sizes = batch[pos], batch[pos + 1], batch[pos + 2]
    uttids = batch[pos + 3] if has_uttids else None
    n = len(items)
    sizes = feat_sizes.tolist()
    if len(sizes) != n:
        return fail("number of rows in the batch", len(sizes), n)
    if fdt is not None and feats.dtype != dirs.DTYPES[fdt]:
        return fail("the feature batch does not keep the dtype of the features", str(feats.dtype), fdt)
    if canon is not None:
        feats = canon(feats)
    if batch_first:
        rows_of = lambda t: t  # noqa: E731
    else:
        rows_of = lambda t: t.transpose(0, 1)  # noqa: E731
    # which utterance is in which row
    if sort:
        if sizes != sorted(sizes, reverse=True):
            return fail("sort_batch: rows not in descending order of length", sizes, None)
        remaining = list(range(n))
        assign = []
        frows = rows_of(feats).tolist()
        for r in range(n):
            hit = None
            for k in remaining:
                T = len(items[k]["feat"])
                if sizes[r] == T and frows[r][:T] == items[k]["feat"] and (uttids is None or uttids[r] == items[k]["uid"]):
                    hit = k
                    break
            if hit is None:
                return fail("row %d of the batch is none of the utterances that belong to it" % r, frows[r], [it["uid"] for it in items])
            remaining.remove(hit)
            assign.append(hit)
    else:
        assign = list(range(n))
    maxT = max((len(it["feat"]) for it in items), default=0)
    exp_feats = [_pad_rows(items[k]["feat"], maxT, [0.0] * F) for k in assign]
    if list(rows_of(feats).shape) != [n, maxT, F] or rows_of(feats).tolist() != exp_feats:
        return fail("feats: cutting rows back to feat_sizes does not give the utterances / padding is not zero",
                    rows_of(feats).tolist(), exp_feats)
    if sizes != [len(items[k]["feat"]) for k in assign]:
        return fail("feat_sizes", sizes, [len(items[k]["feat"]) for k in assign])
    if has_alis:
        if all(it["ali"] is not None for it in items):
            exp = [_pad_rows(items[k]["ali"], maxT, PAD) for k in assign]
            if alis is None or rows_of(alis).tolist() != exp:
                return fail("alis: rows / padding with INDEX_PAD_VALUE", None if alis is None else rows_of(alis).tolist(), exp)
        elif alis is not None:
            return fail("alis without alignments", alis.tolist(), None)
    if all(it["ref"] is not None for it in items):
        maxR = max((len(it["ref"]) for it in items), default=0)
        fill = [PAD] * ref_width if ref_width else PAD
        exp = [_pad_rows(items[k]["ref"], maxR, fill) for k in assign]
        exp_shape = [n, maxR] + ([ref_width] if ref_width else [])
        if refs is None or list(rows_of(refs).shape) != exp_shape or rows_of(refs).tolist() != exp:
            return fail("refs: rows / padding with INDEX_PAD_VALUE", None if refs is None else rows_of(refs).tolist(), exp)
        if ref_sizes is None or ref_sizes.tolist() != [len(items[k]["ref"]) for k in assign]:
            return fail("ref_sizes", None if ref_sizes is None else ref_sizes.tolist(), [len(items[k]["ref"]) for k in assign])
    elif refs is not None or ref_sizes is not None:
        return fail("refs without references", _show(refs), None)
    if has_uttids and list(uttids) != [items[k]["uid"] for k in assign]:
        return fail("utterance ids are not attached to their rows", list(uttids), [items[k]["uid"] for k in assign])
    return True


@subcheck("C14", "spect_loader", _spect_case, quick=700, thorough=6000,
          doc="SpectDataLoader over a real temporary directory (0..12 utterances, ties, buckets smaller than a batch), every "
              "flag combination, 2 epochs: len == batches yielded; equal (seed, epoch) => equal batches; batches == documented "
              "bucketing of the epoch order; declared buckets are length classes; dynamic sizes by the documented formula; "
              "collation lossless",
          required_classes=["buckets_ge_2", "buckets_incomplete", "tie_at_boundary", "empty_set", "dynamic_sizes_differ",
                            "shuffle", "drop", "after_abandoned_pass", "iterator_held_open", "shared_data_set_object",
                            "stored_as_view", "layout_transposed", "layout_offset", "length_ge_10", "length_ge_100",
                            "batch_size_ge_15", "features_float16", "features_float64", "more_buckets_than_utterances"])
def _spect_check(case):
    from pydrobert.torch import data

    cl = set()
    _layouts(case, cl)
    items = _spect_items(case)
    lengths = list(case["lens"])
    ref_width = 3 if (case["ref_2d"] and not case["tokens_only"]) else 0
    with dirs.scratch_root() as root:
        data_dir = os.path.join(root, "data")
        _write_spect(data_dir, case)

        shared = []

        def make(init_epoch):
            params = data.SpectDataLoaderParams(batch_size=case["B"], num_length_buckets=case["K"],
                                                size_batch_by_length=case["dyn"], drop_last=case["drop"])
            src = data_dir
            if case.get("share_ds"):
                if not shared:
                    shared.append(data.SpectDataSet(data_dir, params=params, suppress_alis=case["suppress_alis"],
                                                    suppress_uttids=case["suppress_uttids"], tokens_only=case["tokens_only"],
                                                    warn_on_missing=False))
                src = shared[0]
            return data.SpectDataLoader(src, params, shuffle=case["shuffle"], batch_first=case["batch_first"],
                                        sort_batch=case["sort"], init_epoch=init_epoch, seed=case["seed"],
                                        suppress_alis=case["suppress_alis"], suppress_uttids=case["suppress_uttids"],
                                        tokens_only=case["tokens_only"], warn_on_missing=False)

        def verify(batch, idxs, probe):
            return _check_spect_batch(batch, [items[i] for i in idxs], case["F"], case["batch_first"], case["sort"],
                                      not case["suppress_alis"], not case["suppress_uttids"], ref_width, probe=probe,
                                      fdt=case.get("fdt", "float32"))

        _run_epochs(case, make, lengths, verify, cl)
    if case.get("fdt", "float32") != "float32":
        cl.add("features_" + case["fdt"])
    return _loader_info(case, lengths, cl)


def _loader_info(case, lengths, cl):
    if case["K"] > 1 and _tie_at_boundary(lengths, case["K"]):
        cl.add("tie_at_boundary")
    for lim in (10, 100, 1023):
        if lengths and max(lengths) >= lim:
            cl.add("length_ge_%d" % lim)
    for lim in (15, 127):
        if len(lengths) >= lim:
            cl.add("utterances_ge_%d" % lim)
    if case["B"] >= 15:
        cl.add("batch_size_ge_15")
    if case["K"] >= 15:
        cl.add("buckets_requested_ge_15")
    if case["K"] > len(lengths) > 0:
        cl.add("more_buckets_than_utterances")
    cl.add("shuffle" if case["shuffle"] else "sequential")
    if case["drop"]:
        cl.add("drop")
    if case["K"] > 1 and len(lengths) // case["K"] < case["B"]:
        cl.add("bucket_smaller_than_batch")
    nontrivial = "buckets_incomplete" in cl or "tie_at_boundary" in cl or not lengths
    return Info(nontrivial=nontrivial, classes=sorted(cl))


# ---------------------------------------------------------------- 3. LangDataLoader


@st.composite
def _lang_case(draw, tier):
    c = _loader_common(draw, tier)
    lo = 1 if (c["dyn"] and c["K"] > 1) else 0  # batch size "x * y <= Y * batch_size" is undefined for y = 0
    lens = draw(_lengths(lo, 6, 12 if tier == "quick" else 20))
    c.update({"kind": "lang", "lens": lens, "ref_2d": draw(st.booleans())})
    return c


def _check_lang_batch(batch, items, batch_first, sort, has_uttids, ref_width, probe=False):
    def fail(what, obs=None, exp=None):
        if probe:
            return False
        raise Violation(what, obs, exp)

    want_len = 2 + bool(has_uttids)
    if not (isinstance(batch, tuple) and len(batch) == want_len):
        return fail("batch tuple layout", len(batch) if isinstance(batch, tuple) else repr(type(batch)), want_len)
    refs, ref_sizes = batch[0], batch[1]
    uttids = batch[2] if has_uttids else None
    n = len(items)
    sizes = ref_sizes.tolist()
    if len(sizes) != n:
        return fail("number of rows in the batch", len(sizes), n)
    rows = refs if batch_first else refs.transpose(0, 1)
    if sort:
        if sizes != sorted(sizes, reverse=True):
            return fail("sort_batch: rows not in descending order of length", sizes, None)
        remaining, assign = list(range(n)), []
        rl = rows.tolist()
        for r in range(n):
            hit = None
            for k in remaining:
                R = len(items[k]["ref"])
                if sizes[r] == R and rl[r][:R] == items[k]["ref"] and (uttids is None or uttids[r] == items[k]["uid"]):
                    hit = k
                    break
            if hit is None:
                return fail("row %d of the batch is none of the utterances that belong to it" % r, rl[r], [it["uid"] for it in items])
            remaining.remove(hit)
            assign.append(hit)
    else:
        assign = list(range(n))
    maxR = max((len(it["ref"]) for it in items), default=0)
    fill = [PAD] * ref_width if ref_width else PAD
    exp = [_pad_rows(items[k]["ref"], maxR, fill) for k in assign]
    exp_shape = [n, maxR] + ([ref_width] if ref_width else [])
    if list(rows.shape) != exp_shape or rows.tolist() != exp:
        return fail("refs: cutting rows back to ref_sizes does not give the utterances / padding is not INDEX_PAD_VALUE",
                    rows.tolist(), exp)
    if sizes != [len(items[k]["ref"]) for k in assign]:
        return fail("ref_sizes", sizes, [len(items[k]["ref"]) for k in assign])
    if has_uttids and list(uttids) != [items[k]["uid"] for k in assign]:
        return fail("utterance ids are not attached to their rows", list(uttids), [items[k]["uid"] for k in assign])
    return True


@subcheck("C14", "lang_loader", _lang_case, quick=700, thorough=6000,
          doc="LangDataLoader over a real reference directory (lengths 0..6 incl. empty), suppress_uttids / tokens_only / 2-D "
              "references, buckets, dynamic sizes, 2 epochs: same laws as spect_loader, length = reference length R",
          required_classes=["buckets_ge_2", "buckets_incomplete", "tie_at_boundary", "empty_set", "buckets_without_uttids",
                            "buckets_2d_without_uttids", "after_abandoned_pass", "iterator_held_open",
                            "shared_data_set_object", "stored_as_view", "layout_transposed", "layout_colslice",
                            "length_ge_10", "length_ge_100", "batch_size_ge_15"])
def _lang_check(case):
    from pydrobert.torch import data

    cl = set()
    lay = _layouts(case, cl)
    lengths = list(case["lens"])
    two_d = case["ref_2d"] and not case["tokens_only"]
    items = []
    for i, R in enumerate(lengths):
        rows = _ref_rows(i, R, 9)
        items.append({"ref": rows if two_d else [r[0] for r in rows], "uid": _uid(i)})
    with dirs.scratch_root() as root:
        data_dir = os.path.join(root, "data")
        dcase = {"prefix": "", "suffix": ".pt", "ali_dir": False, "ref_dir": True, "utts": []}
        for i, R in enumerate(lengths):
            dcase["utts"].append({"id": _uid(i), "feat": None,
                                  "ref": {"dtype": "int64", "dim": 2 if case["ref_2d"] else 1, "width": 3,
                                          "rows": _ref_rows(i, R, 9), "layout": lay[i % 3]}})
        dirs.write_dir(data_dir, dcase)
        shared = []

        def make(init_epoch):
            params = data.LangDataLoaderParams(batch_size=case["B"], num_length_buckets=case["K"],
                                               size_batch_by_length=case["dyn"], drop_last=case["drop"])
            src = os.path.join(data_dir, "ref")
            if case.get("share_ds"):
                if not shared:
                    shared.append(data.LangDataSet(src, params, suppress_uttids=case["suppress_uttids"],
                                                   tokens_only=case["tokens_only"]))
                src = shared[0]
            return data.LangDataLoader(src, params, shuffle=case["shuffle"],
                                       batch_first=case["batch_first"], sort_batch=case["sort"], init_epoch=init_epoch,
                                       seed=case["seed"], suppress_uttids=case["suppress_uttids"],
                                       tokens_only=case["tokens_only"])

        def verify(batch, idxs, probe):
            return _check_lang_batch(batch, [items[i] for i in idxs], case["batch_first"], case["sort"],
                                     not case["suppress_uttids"], 3 if two_d else 0, probe=probe)

        _run_epochs(case, make, lengths, verify, cl)
    if case["K"] > 1 and case["suppress_uttids"] and lengths:
        cl.add("buckets_without_uttids")
        if two_d:
            cl.add("buckets_2d_without_uttids")
    if 0 in lengths:
        cl.add("empty_reference")
    return _loader_info(case, lengths, cl)


# ---------------------------------------------------------------- 4. ContextWindowDataLoader


@st.composite
def _window_case(draw, tier):
    lens = draw(_lengths(0, 6, 10))  # (an utterance may have no frame at all: it still has an id and a size)
    return {
        "kind": "window", "lens": lens, "F": draw(st.integers(1, 2)),
        "B": draw(st.integers(1, 5)), "K": 1, "K_ignored": True, "dyn": False,
        "drop": draw(st.booleans()), "shuffle": draw(st.booleans()),
        "left": draw(_pick([0, 1, 2, 3, 4] * 3 + [15, 16, 17, 33])), "right": draw(_pick([0, 1, 2, 3, 4] * 3 + [15, 16, 17, 33])),
        "reverse": draw(st.booleans()),
        "with_ali": draw(st.booleans()), "suppress_uttids": draw(st.booleans()),
        "pattern": _pattern(draw), "share_ds": draw(st.booleans()),
        "layouts": [draw(st.sampled_from(LAYOUT_POOL)) for _ in range(3)],
        "fdt": draw(st.sampled_from(["float32", "float32", "float64"])),
        "seed": draw(st.one_of(st.integers(0, 5), st.integers(0, 2**31 - 1))),
        "init_epoch": draw(st.integers(0, 3)),
    }


@subcheck("C14", "window_loader", _window_case, quick=500, thorough=3000,
          doc="ContextWindowDataLoader over a real directory: len == batches yielded, reproducible by (seed, epoch), batches "
              "== consecutive groups of the epoch order; windows == concatenated index-clamped windows of the stored "
              "features (left/right/reverse), alis concatenated, window_sizes and ids attached",
          required_classes=["window_wider_than_utterance", "empty_set", "drop", "after_abandoned_pass", "iterator_held_open",
                            "shared_data_set_object", "stored_as_view", "layout_transposed", "layout_offset",
                            "context_ge_15", "length_ge_10", "zero_frame_utterance_with_ids"])
def _window_check(case):
    from pydrobert.torch import data

    cl = set()
    _layouts(case, cl)
    lengths = list(case["lens"])
    C = 1 + case["left"] + case["right"]
    feats = [_feat_list(i, T, case["F"]) for i, T in enumerate(lengths)]
    wins = [[O.clamp_window(f, t, case["left"], case["right"], case["reverse"]) for t in range(len(f))] for f in feats]
    alis = [[(i + t) % 5 for t in range(T)] for i, T in enumerate(lengths)]

    def verify(batch, idxs, probe):
        has_ids = not case["suppress_uttids"]
        want_len = 4 if has_ids else 2
        require(isinstance(batch, tuple) and len(batch) == want_len, "batch tuple layout", len(batch), want_len)
        exp_w = [w for i in idxs for w in wins[i]]
        require(list(batch[0].shape) == [len(exp_w), C, case["F"]] and batch[0].tolist() == exp_w,
                "windows are not the concatenated edge-replicated windows of the utterances", batch[0].tolist(), exp_w)
        if case["with_ali"]:
            exp_a = [a for i in idxs for a in alis[i]]
            require(batch[1] is not None and batch[1].tolist() == exp_a, "alis are not the concatenated alignments",
                    None if batch[1] is None else batch[1].tolist(), exp_a)
        else:
            require(batch[1] is None, "alis without alignments", _show(batch[1]), None)
        if has_ids:
            require(batch[2].tolist() == [lengths[i] for i in idxs], "window_sizes", batch[2].tolist(), [lengths[i] for i in idxs])
            require(list(batch[3]) == [_uid(i) for i in idxs], "utterance ids", list(batch[3]), [_uid(i) for i in idxs])
        return True

    with dirs.scratch_root() as root:
        data_dir = os.path.join(root, "data")
        wcase = dict(case, with_ref=False, ref_2d=False, rlens=[0] * len(lengths))
        _write_spect(data_dir, wcase)

        shared = []

        def make(init_epoch):
            params = data.ContextWindowDataLoaderParams(batch_size=case["B"], drop_last=case["drop"],
                                                        context_left=case["left"], context_right=case["right"],
                                                        reverse=case["reverse"])
            src = data_dir
            if case.get("share_ds"):
                if not shared:
                    shared.append(data.ContextWindowDataSet(data_dir, params=params, suppress_uttids=case["suppress_uttids"],
                                                            warn_on_missing=False))
                src = shared[0]
            return data.ContextWindowDataLoader(src, params, shuffle=case["shuffle"], init_epoch=init_epoch,
                                                seed=case["seed"], suppress_uttids=case["suppress_uttids"],
                                                warn_on_missing=False)

        _run_epochs(case, make, lengths, verify, cl)
    if any(T < C for T in lengths):
        cl.add("window_wider_than_utterance")
    if any(T == 0 for T in lengths) and any(T > 0 for T in lengths) and not case["suppress_uttids"]:
        cl.add("zero_frame_utterance_with_ids")
    if max(case["left"], case["right"]) >= 15:
        cl.add("context_ge_15")
    if lengths and max(lengths) >= 10:
        cl.add("length_ge_10")
    if case["drop"]:
        cl.add("drop")
    if case["reverse"]:
        cl.add("reverse")
    return Info(nontrivial=(not lengths) or (len(lengths) % case["B"] != 0), classes=sorted(cl))


# ---------------------------------------------------------------- 5. collation functions, directly


@st.composite
def _collate_case(draw, tier):
    kind = draw(st.sampled_from(["spect", "spect", "lang", "window"]))
    lo = 0  # (zero-frame utterances too, also for context windows)
    size = draw(_pick(["small"] * 5 + ["many", "long"]))
    if size == "many":
        # many items of small length / a few very long items: lengths expanded from two integers
        n = draw(_pick(SIZES[:9] * 2 + SIZES[9:12]))
        a, b = draw(st.integers(1, 7)), draw(st.integers(0, 7))
        lens = [lo + (a * i + b) % 6 for i in range(n)]
        rlens = [(b * i + a) % 5 for i in range(n)]
    elif size == "long":
        n = draw(st.integers(1, 3))
        lens = [draw(_pick(SIZES[:15] + SIZES)) for _ in range(n)]
        rlens = [draw(_pick([0, 1, 2] + SIZES[:15] + SIZES)) for _ in range(n)]
    else:
        n = draw(st.integers(1, 5))
        lens = [draw(st.integers(lo, 5)) for _ in range(n)]
        rlens = [draw(st.integers(0, 4)) for _ in range(n)]
    return {
        "kind": kind,
        "lens": lens,
        "rlens": rlens,
        # memory layout of the feature / alignment / reference tensors (item i uses them rotated by i)
        "layouts": [draw(st.sampled_from(LAYOUT_POOL)) for _ in range(3)],
        "fdt": draw(st.sampled_from(["float32", "float32", "float64", "float16"])) if size == "small" else "float32",
        # value class: some feature cells replaced by +-inf, NaN, the largest / smallest float32 magnitudes
        "extreme": draw(st.sampled_from([None, None, None, 1, 2, 3])),
        "F": draw(st.integers(1, 3)),
        "C": draw(st.integers(1, 3)),
        "has_alis": draw(st.booleans()), "alis_none": draw(st.booleans()),
        "refs_none": draw(st.sampled_from([False, False, True])),
        "ref_2d": draw(st.booleans()),
        "has_uttids": draw(st.booleans()),
        "sort": draw(st.booleans()),
        "batch_first": draw(st.booleans()),
        "perm": draw(st.permutations(list(range(n)))),
    }


@subcheck("C14", "collation", _collate_case, quick=1500, thorough=25000,
          doc="spect_seq_to_batch / lang_seq_to_batch / context_window_seq_to_batch on generated tensor lists (zero lengths, "
              "None alignments/references, 1-D/2-D references, every flag): rows cut back to the reported sizes == inputs, "
              "padding == 0 / INDEX_PAD_VALUE, ids stay on their rows",
          required_classes=["spect", "lang", "window", "zero_length", "refs_none", "sorted", "time_major",
                            "views", "layout_offset", "layout_colslice", "layout_transposed", "layout_strided",
                            "non_finite_features", "items_ge_15", "items_ge_64", "length_ge_255", "length_ge_1023",
                            "features_float16", "features_float64"])
def _collate_check(case):
    import torch
    from pydrobert.torch import data

    kind, n = case["kind"], len(case["lens"])
    ids = [_uid(i) for i in case["perm"]] if len(case["perm"]) == n else [_uid((7 * i + 3) % n) for i in range(n)]
    cl = {kind}
    lay = case.get("layouts") or ["own"] * 3
    fdt = case.get("fdt", "float32")
    for x in set(lay):
        if x != "own":
            cl.update(["views", "layout_" + x])
    if n >= 15:
        cl.add("items_ge_15")
    if n >= 64:
        cl.add("items_ge_64")
    longest = max(case["lens"] + (case["rlens"] if kind != "window" else []))
    for lim in (255, 1023):
        if longest >= lim:
            cl.add("length_ge_%d" % lim)
    if fdt != "float32" and kind == "spect":
        cl.add("features_" + fdt)
    SENT = 12345.25  # stands for NaN wherever feature values are compared

    def canon(t):
        return torch.where(t != t, torch.full_like(t, SENT), t)

    def spoil(t, i):
        """value class ``extreme``: cells of item i replaced by non-finite / extreme values (a pure function)"""
        k = case.get("extreme")
        if not k or t.numel() == 0:
            return t
        vals = [float("inf"), float("-inf"), float("nan"), 3.0e38, -3.0e38, 1.0e-45, -0.0]
        if t.dtype == torch.float16:
            vals = [float("inf"), float("-inf"), float("nan"), 65504.0, -65504.0, 6.0e-8, -0.0]
        flat = t.reshape(-1).clone()
        for j in range(k):
            flat[(i * 5 + j * 3) % flat.numel()] = vals[(i + j + k) % len(vals)]
        cl.add("non_finite_features")
        return flat.reshape(t.shape)

    if kind == "window":
        C, F = case["C"], case["F"]
        wins = [dirs.with_layout(spoil((torch.arange(T * C * F, dtype=torch.float32).reshape(T, C, F) + 100 * i) / 4, i), lay[i % 3])
                for i, T in enumerate(case["lens"])]
        alis = [None if case["alis_none"] else
                dirs.with_layout(torch.tensor([(i + t) % 5 for t in range(T)], dtype=torch.long), lay[(i + 1) % 3])
                for i, T in enumerate(case["lens"])]
        seq = [(w, a, u) if case["has_uttids"] else (w, a) for w, a, u in zip(wins, alis, ids)]
        out = data.context_window_seq_to_batch(seq, case["has_uttids"])
        require(isinstance(out, tuple) and len(out) == (4 if case["has_uttids"] else 2), "tuple layout", len(out), None)
        exp = [row for w in wins for row in canon(w).tolist()]
        require(canon(out[0]).tolist() == exp and list(out[0].shape) == [len(exp), C, F], "windows not concatenated in order",
                out[0].tolist(), exp)
        if case["alis_none"]:
            require(out[1] is None, "alis must be None when an element has none", _show(out[1]), None)
        else:
            expa = [x for a in alis for x in a.tolist()]
            require(out[1] is not None and out[1].tolist() == expa, "alis not concatenated in order", _show(out[1]), expa)
        if case["has_uttids"]:
            require(out[2].tolist() == case["lens"], "window_sizes", out[2].tolist(), case["lens"])
            require(list(out[3]) == ids, "utterance ids", list(out[3]), ids)
        return Info(nontrivial=n >= 2, classes=sorted(cl))
    two_d = case["ref_2d"]
    items = []
    for i, T in enumerate(case["lens"]):
        R = case["rlens"][i]
        rows = _ref_rows(i, R, T)
        items.append({
            "feat": _feat_list(i, T, case["F"]),
            "ali": None if case["alis_none"] else [(i + t) % 5 for t in range(T)],
            "ref": None if (case["refs_none"] and kind == "spect") else (rows if two_d else [r[0] for r in rows]),
            "uid": ids[i],
        })

    def tens(it, i):
        feat = torch.tensor(it["feat"], dtype=dirs.DTYPES[fdt]).reshape(len(it["feat"]), case["F"])
        feat = dirs.with_layout(spoil(feat, i), lay[i % 3])
        it["feat"] = canon(feat).tolist()
        ali = None if it["ali"] is None else dirs.with_layout(torch.tensor(it["ali"], dtype=torch.long), lay[(i + 1) % 3])
        ref = None
        if it["ref"] is not None:
            ref = torch.tensor(it["ref"], dtype=torch.long).reshape([len(it["ref"])] + ([3] if two_d else []))
            ref = dirs.with_layout(ref, lay[(i + 2) % 3])
        return feat, ali, ref

    if kind == "spect":
        seq = []
        for i, it in enumerate(items):
            feat, ali, ref = tens(it, i)
            tup = (feat,) + ((ali,) if case["has_alis"] else ()) + (ref,) + ((it["uid"],) if case["has_uttids"] else ())
            seq.append(tup)
        out = data.spect_seq_to_batch(seq, case["batch_first"], case["sort"], case["has_alis"], case["has_uttids"])
        _check_spect_batch(out, items, case["F"], case["batch_first"], case["sort"], case["has_alis"], case["has_uttids"],
                           3 if two_d else 0, fdt=fdt, canon=canon)
        if case["refs_none"]:
            cl.add("refs_none")
        if 0 in case["lens"]:
            cl.add("zero_length")
    else:
        seq = []
        for i, it in enumerate(items):
            ref = tens(it, i)[2]
            seq.append((ref, it["uid"]) if case["has_uttids"] else ref)
        out = data.lang_seq_to_batch(seq, case["batch_first"], case["sort"], case["has_uttids"])
        _check_lang_batch(out, items, case["batch_first"], case["sort"], case["has_uttids"], 3 if two_d else 0)
        if 0 in case["rlens"]:
            cl.add("zero_length")
    if case["sort"]:
        cl.add("sorted")
    if not case["batch_first"]:
        cl.add("time_major")
    return Info(nontrivial=n >= 2 and len(set(case["lens"] if kind == "spect" else case["rlens"])) >= 2, classes=sorted(cl))


# ---------------------------------------------------------------- 6. extract_window, exhaustively


def _extract_enum(tier):
    maxT, maxC = (6, 4) if tier == "quick" else (9, 7)
    out = []
    for T in range(1, maxT + 1):
        for left in range(0, maxC + 1):
            for right in range(0, maxC + 1):
                for t in range(T):
                    for reverse in (False, True):
                        for layout in dirs.LAYOUTS:
                            out.append({"T": T, "F": 1 + (T + left) % 2, "left": left, "right": right, "t": t, "reverse": reverse,
                                        "layout": layout, "fdt": "float64" if (T + right + t) % 3 == 0 else "float32"})
    return out


def _extract_run(case):
    import torch
    from pydrobert.torch import data

    T, F = case["T"], case["F"]
    fdt = case.get("fdt", "float32")
    feat_l = _feat_list(0, T, F)
    if case.get("inf"):
        # value class: +-inf among the frames (a window is a selection of frames, never an arithmetic combination)
        for j in range(0, T, 3):
            feat_l[j][j % F] = float("inf") if j % 2 else float("-inf")
    own = torch.tensor(feat_l, dtype=dirs.DTYPES[fdt]).reshape(T, F)
    feat = dirs.with_layout(own, case.get("layout"))
    out = data.extract_window(feat, case["t"], case["left"], case["right"], case["reverse"])
    exp = O.clamp_window(feat_l, case["t"], case["left"], case["right"], case["reverse"])
    require(list(out.shape) == [1 + case["left"] + case["right"], F] and out.tolist() == exp,
            "extract_window differs from index clamping", out.tolist(), exp)
    require(out.dtype == feat.dtype, "extract_window changes the dtype", str(out.dtype), str(feat.dtype))
    require(feat.tolist() == feat_l, "extract_window modified its input", feat.tolist(), feat_l)
    lo, hi = case["t"] - case["left"] < 0, case["t"] + case["right"] > T - 1
    cl = ["both_edges" if lo and hi else "left_edge" if lo else "right_edge" if hi else "inside"]
    if case.get("layout", "own") != "own":
        cl += ["view", "layout_" + case["layout"]]
    if fdt != "float32":
        cl.append("features_" + fdt)
    if case.get("inf"):
        cl.append("non_finite_frames")
    return lo, hi, cl


@subcheck("C14", "extract_window_enum", _extract_enum, 0, 0, exhaustive=True,
          doc="every (T<=6|9, left<=4|7, right<=4|7, frame, reverse, memory layout of the feature matrix): extract_window == "
              "frame indices clamped to [0, T-1], same dtype (float32 / float64), input unchanged",
          required_classes=["both_edges", "inside", "layout_offset", "layout_colslice", "layout_transposed", "layout_strided",
                            "features_float64"])
def _extract_check(case):
    lo, hi, cl = _extract_run(case)
    return Info(nontrivial=lo or hi, classes=cl)


def _extract_sizes(tier):
    """T and the context widths on both sides of 16 / 32 / ... / 1024 / 2048; frames at the edges and in the middle"""
    ctx = [0, 1, 15, 16, 17, 33, 64, 65, 1024, 1025]
    Ts = SIZES if tier == "thorough" else [15, 16, 17, 32, 33, 64, 65, 128, 129, 256, 257, 1023, 1024, 1025, 2049]
    out = []
    for i, T in enumerate(Ts):
        for j, left in enumerate(ctx):
            for k, right in enumerate(ctx):
                if tier == "quick" and (i + j + k) % 3:
                    continue  # a third of the grid in the quick tier
                for t in sorted({0, 1, 16, T // 2, T - 2, T - 1}):
                    if not 0 <= t < T:
                        continue
                    out.append({"T": T, "F": 1 + (i + j) % 2, "left": left, "right": right, "t": t, "reverse": bool((j + k + t) % 2),
                                "layout": dirs.LAYOUTS[(i + j + k + t) % len(dirs.LAYOUTS)],
                                "fdt": "float64" if (i + k) % 4 == 0 else "float32", "inf": (j + k + t) % 5 == 0})
    return out


@subcheck("C14", "extract_window_sizes", _extract_sizes, 0, 0, exhaustive=True,
          doc="the grid T in 15..2049 x left, right in {0,1,15,16,17,33,64,65,1024,1025} x frame in {0,1,16,T/2,T-2,T-1} "
              "(quick: a third of it), layouts / dtype / reverse / +-inf frames rotating over the grid: extract_window == "
              "index clamping",
          required_classes=["both_edges", "inside", "left_edge", "right_edge", "view", "non_finite_frames"])
def _extract_sizes_check(case):
    lo, hi, cl = _extract_run(case)
    if case["T"] >= 1023:
        cl.append("T_ge_1023")
    if max(case["left"], case["right"]) >= 1024:
        cl.append("context_ge_1024")
    return Info(nontrivial=lo or hi, classes=cl)


# ---------------------------------------------------------------- 7. loaders at sizes across thresholds


@st.composite
def _loader_sizes_case(draw, tier):
    kind = draw(_pick(["spect", "lang", "window", "spect", "lang", "window", "spect"]))
    mode = draw(_pick(["many", "long", "many", "long", "many"]))
    heavy = kind != "lang"   # three files per utterance
    if mode == "many":
        if tier == "quick":
            table = SIZES[:9] * 3 + SIZES[9:12] + (SIZES[12:15] if not heavy else [])
        else:
            table = SIZES[:9] + SIZES[9:12] * 2 + SIZES[12:15] * 2 + (SIZES[15:] if not heavy else [])
        N = draw(_pick(table))
    else:
        N = draw(st.integers(2, 6))
    c = {
        "kind": kind, "gen": {"mode": mode, "N": N, "L": draw(_pick([3, 7, 12])), "s0": draw(st.integers(0, len(SIZES) - 1)),
                              "a": draw(st.integers(1, 7)), "b": draw(st.integers(0, 7)), "c": draw(st.integers(0, 5))},
        "B": draw(_pick([1, 2, 3, 5, 15, 16, 17, 32, 33, 64, 65])),
        "K": draw(_pick([1, 2, 3, 4, 15, 16, 17, 33])) if kind != "window" else 1,
        "dyn": draw(st.booleans()) if kind != "window" else False,
        "drop": draw(st.booleans()), "shuffle": draw(st.booleans()), "sort": draw(st.booleans()),
        "batch_first": draw(st.booleans()), "suppress_uttids": draw(st.booleans()), "tokens_only": draw(st.booleans()),
        "seed": draw(st.integers(0, 2 ** 31 - 1)), "init_epoch": draw(st.integers(0, 3)),
        "pattern": ["plain"], "share_ds": draw(st.booleans()),
        "layouts": [draw(st.sampled_from(LAYOUT_POOL)) for _ in range(3)], "fdt": draw(_pick(["float32", "float64"])),
        "F": draw(st.integers(1, 2)), "ref_2d": draw(st.booleans()), "with_ali": draw(st.booleans()),
        "with_ref": draw(_pick([True, True, False])), "suppress_alis": draw(st.booleans()),
        "left": draw(_pick([0, 1, 2, 15, 16, 17])), "right": draw(_pick([0, 1, 2, 15, 16, 17])), "reverse": draw(st.booleans()),
    }
    if kind == "window":
        c["K_ignored"] = True
    return c


def _expand_loader_sizes(case):
    """lens / rlens of a generated-size loader case (a pure function of case["gen"])"""
    g = case["gen"]
    N, a, b, cc = g["N"], g["a"], g["b"], g["c"]
    lo = 0 if (case["kind"] == "lang" and not (case["dyn"] and case["K"] > 1)) else 1
    if g["mode"] == "many":
        lens = [lo + (a * i + b) % g["L"] for i in range(N)]
        rlens = [(cc * i + a) % 4 for i in range(N)]
    else:
        lens = [SIZES[(g["s0"] + a * i) % len(SIZES)] - (b if i % 2 else 0) for i in range(N)]
        rlens = [SIZES[(g["s0"] + cc * i) % 15] for i in range(N)]
    out = dict(case, lens=lens, rlens=rlens)
    return out


@subcheck("C14", "loader_sizes", _loader_sizes_case, quick=100, thorough=800,
          doc="the three loaders over directories of 15..257 utterances (lang: ..2049 in the thorough tier) or of 2..6 "
              "utterances 15..2049 frames / tokens long, batch sizes up to 65, up to 33 length buckets (lengths expanded "
              "from a few integers by a pure function): the same laws as spect_loader / lang_loader / window_loader",
          required_classes=["utterances_ge_15", "length_ge_100", "length_ge_1023", "batch_size_ge_15",
                            "buckets_requested_ge_15", "buckets_ge_2", "spect", "lang", "window"])
def _loader_sizes_check(case):
    full = _expand_loader_sizes(case)
    info = {"spect": _spect_check, "lang": _lang_check, "window": _window_check}[case["kind"]](full)
    cl = set(info.classes) | {case["kind"]}
    if case["kind"] == "window":
        for lim in (10, 100, 1023):
            if max(full["lens"]) >= lim:
                cl.add("length_ge_%d" % lim)
        if len(full["lens"]) >= 15:
            cl.add("utterances_ge_15")
        if case["B"] >= 15:
            cl.add("batch_size_ge_15")
    return Info(nontrivial=info.nontrivial, classes=sorted(cl))


# ---------------------------------------------------------------- 8. the deprecated training / evaluation loaders

# SpectTrainingDataLoader / SpectEvaluationDataLoader could not be constructed before /repo commits 6a7ea58 / 5dcccbf
# (they handed ``seed`` to SpectDataLoader in the position of ``on_uneven_distributed``; the evaluation loader's
# ``file_prefix`` defaulted to the *suffix*). The switch below kept the class out of the default path until those
# repairs were merged; it is on now.
ENABLE_DEPRECATED_LOADERS = True


def _deprecated_on():
    return ENABLE_DEPRECATED_LOADERS or os.environ.get("VERIF_ENABLE_DEPRECATED_LOADERS") == "1"


@st.composite
def _deprecated_case(draw, tier):
    if not _deprecated_on():
        return {"which": draw(st.sampled_from(["spect_train", "spect_eval"])), "disabled_when_generated": True}
    which = draw(st.sampled_from(["spect_train", "spect_eval", "window_train", "window_eval"]))
    c = _loader_common(draw, tier)
    c.update({
        "which": which, "lens": draw(_lengths(1, 7, 12)), "F": draw(st.integers(1, 2)),
        "ref_2d": draw(st.booleans()), "with_ali": draw(st.booleans()), "with_ref": draw(st.sampled_from([True, True, False])),
        "left": draw(st.integers(0, 3)), "right": draw(st.integers(0, 3)), "reverse": draw(st.booleans()),
        "pass_seed": draw(st.booleans()),
    })
    c["rlens"] = [draw(st.integers(0, 3)) for _ in c["lens"]]
    # what these classes fix by default (everything else is as generated)
    train = which.endswith("train")
    c.update({"shuffle": train, "sort": True, "suppress_alis": False, "tokens_only": False,
              "suppress_uttids": train, "share_ds": False, "fdt": "float32"})
    if which.startswith("window"):
        c.update({"K": 1, "K_ignored": True, "dyn": False})
    return c


@subcheck("C14", "deprecated_loaders", _deprecated_case, quick=300, thorough=3000,
          doc="SpectTrainingDataLoader / SpectEvaluationDataLoader / ContextWindowTrainingDataLoader / "
              "ContextWindowEvaluationDataLoader with their own defaults (train: shuffled, ids suppressed; evaluation: "
              "sequential, ids kept; sorted batches, alignments kept): the same laws as the loaders they wrap")
def _deprecated_check(case):
    from pydrobert.torch import data

    if not _deprecated_on():
        return Info(nontrivial=False, classes=["switched_off"])
    if "lens" not in case:
        return Info(nontrivial=False, classes=["generated_while_switched_off"])
    cl = {case["which"]}
    lengths = list(case["lens"])
    window = case["which"].startswith("window")
    train = case["which"].endswith("train")
    with dirs.scratch_root() as root:
        data_dir = os.path.join(root, "data")
        _write_spect(data_dir, dict(case, with_ref=case["with_ref"] and not window))

        def make(init_epoch):
            extra = {"init_epoch": init_epoch, "warn_on_missing": False}
            if case["pass_seed"] or train:
                extra["seed"] = case["seed"]
            if window:
                params = data.ContextWindowDataLoaderParams(batch_size=case["B"], drop_last=case["drop"],
                                                            context_left=case["left"], context_right=case["right"],
                                                            reverse=case["reverse"])
                klass = data.ContextWindowTrainingDataLoader if train else data.ContextWindowEvaluationDataLoader
                return klass(data_dir, params, **extra)
            params = data.SpectDataLoaderParams(batch_size=case["B"], num_length_buckets=case["K"],
                                                size_batch_by_length=case["dyn"], drop_last=case["drop"])
            klass = data.SpectTrainingDataLoader if train else data.SpectEvaluationDataLoader
            return klass(data_dir, params, batch_first=case["batch_first"], **extra)

        if window:
            C = 1 + case["left"] + case["right"]
            feats = [_feat_list(i, T, case["F"]) for i, T in enumerate(lengths)]
            wins = [[O.clamp_window(f, t, case["left"], case["right"], case["reverse"]) for t in range(len(f))] for f in feats]
            alis = [[(i + t) % 5 for t in range(T)] for i, T in enumerate(lengths)]

            def verify(batch, idxs, probe):
                want_len = 2 if train else 4
                require(isinstance(batch, tuple) and len(batch) == want_len, "batch tuple layout", len(batch), want_len)
                exp_w = [w for i in idxs for w in wins[i]]
                require(list(batch[0].shape) == [len(exp_w), C, case["F"]] and batch[0].tolist() == exp_w,
                        "windows are not the concatenated edge-replicated windows of the utterances", batch[0].tolist(), exp_w)
                if case["with_ali"]:
                    exp_a = [a for i in idxs for a in alis[i]]
                    require(batch[1] is not None and batch[1].tolist() == exp_a, "alis are not the concatenated alignments",
                            None if batch[1] is None else batch[1].tolist(), exp_a)
                if not train:
                    require(list(batch[3]) == [_uid(i) for i in idxs], "utterance ids", list(batch[3]), [_uid(i) for i in idxs])
                return True
        else:
            items = _spect_items(case)

            def verify(batch, idxs, probe):
                return _check_spect_batch(batch, [items[i] for i in idxs], case["F"], case["batch_first"], True, True,
                                          not train, 3 if case["ref_2d"] else 0, probe=probe, fdt="float32")

        _run_epochs(case, make, lengths, verify, cl)
    return Info(nontrivial=len(lengths) >= 2, classes=sorted(cl))
