"""Generators and helpers shared by C01, C02, C03 (batches of reference/hypothesis rows)."""
from __future__ import annotations

from hypothesis import strategies as st

from ..oracles import strings as O

# ---------------------------------------------------------------- costs

_Q = st.integers(1, 12).map(lambda k: k / 4)  # dyadic(4, 0.25, 3)


@st.composite
def dyadic_costs(draw, force_ties=False):
    """(ins, del, sub) on the 1/4 grid, by class."""
    classes = ["unit", "equal", "two_equal", "distinct", "sub_big", "ins_small", "sub_eq_sum", "sub_eq_2ins", "extreme", "near_tie"]
    if force_ties:
        classes = classes + ["sub_eq_sum", "sub_eq_2ins", "sub_eq_sum"]
    c = draw(st.sampled_from(classes))
    if c == "unit":
        return [1.0, 1.0, 1.0]
    if c == "near_tie":
        # costs that differ by 2^-15 .. 2^-13, or are all tiny: still exact in float32 for the generated sizes
        return draw(st.sampled_from([[1.0, 1.0, 1.0 + 2.0 ** -15], [1.0 + 2.0 ** -14, 1.0, 1.0], [1.0, 1.0 + 2.0 ** -13, 1.0],
                                     [2.0 ** -17, 2.0 ** -17, 2.0 ** -16], [2.0 ** -16, 2.0 ** -17, 2.0 ** -17],
                                     [1.0, 1.0, 2.0 - 2.0 ** -14], [0.5, 0.5 + 2.0 ** -15, 1.0]]))
    if c == "extreme":
        # powers of two far apart: sums stay exact in float32 (<= 13 terms of at most 11 significant bits)
        pool = [2.0 ** -8, 2.0 ** -4, 1.0, 16.0, 256.0]
        return [draw(st.sampled_from(pool)), draw(st.sampled_from(pool)), draw(st.sampled_from(pool))]
    if c == "equal":
        v = draw(_Q)
        return [v, v, v]
    if c == "two_equal":
        a, b = draw(_Q), draw(_Q)
        which = draw(st.integers(0, 2))
        t = [a, a, a]
        t[which] = b
        return t
    if c == "distinct":
        return [draw(_Q), draw(_Q), draw(_Q)]
    if c == "sub_big":
        i, d = draw(_Q), draw(_Q)
        return [i, d, i + d + draw(_Q)]
    if c == "ins_small":
        return [0.25, draw(st.integers(4, 12)) / 4, draw(_Q)]
    if c == "sub_eq_sum":
        i, d = draw(st.integers(1, 6)) / 4, draw(st.integers(1, 6)) / 4
        return [i, d, i + d]
    i = draw(st.integers(1, 6)) / 4
    return [i, draw(_Q), 2 * i]


def nondyadic_costs():
    v = st.sampled_from([0.1, 0.3, 0.7, 1.1, 1.7, 2.3, 0.9, 1.0 / 3.0])
    return st.tuples(v, v, v).map(list)


def cost_class(costs):
    i, d, s = costs
    if i == d == s:
        return "costs_equal"
    return "costs_unequal"


# ---------------------------------------------------------------- rows


@st.composite
def row(draw, width, alphabet, eos, len_class=None):
    """One full-width row; when eos is set it may be planted at a chosen position, and whatever
    follows is arbitrary filler (further eos copies, negative values, real tokens)."""
    filler_lo = -2
    filler = st.one_of(st.integers(filler_lo, alphabet - 1), st.integers(filler_lo, alphabet - 1),
                       st.sampled_from([2 ** 40, -2 ** 40, 2 ** 31, -2 ** 31 - 1]))
    toks = draw(st.lists(filler if eos is not None else st.integers(0, alphabet - 1),
                         min_size=width, max_size=width))
    if eos is None or width == 0:
        return toks
    # real tokens before the planted eos: keep them non-negative most of the time
    cls = len_class or draw(st.sampled_from(["zero", "one", "full", "interior", "interior", "free"]))
    if cls == "free":
        return toks
    if cls == "zero":
        pos = 0
    elif cls == "one":
        pos = min(1, width)
    elif cls == "full":
        pos = width
    else:
        pos = draw(st.integers(0, width))
    body = draw(st.lists(st.integers(0, alphabet - 1), min_size=pos, max_size=pos))
    toks = body + toks[pos:]
    if pos < width:
        toks[pos] = eos
    return toks


@st.composite
def batch(draw, tier, max_n=5, max_len=None, min_h=0, min_alpha=1, max_alpha=4, eos_required=False,
          allow_zero_dim=False):
    big = tier == "thorough"
    max_len = max_len or (12 if big else 7)
    N = draw(st.integers(1, max_n))
    lo = 0 if allow_zero_dim else 1
    R = draw(st.integers(lo, max_len))
    H = draw(st.integers(max(lo, min_h), max_len))
    A = draw(st.integers(min_alpha, max_alpha))
    eos_kind = draw(st.sampled_from(["none", "outside", "inside", "outside", "negative"] if not eos_required
                                    else ["outside", "inside", "negative"]))
    if eos_kind == "none":
        eos = None
    elif eos_kind == "outside":
        eos = A + draw(st.integers(0, 2))
    elif eos_kind == "inside":
        eos = draw(st.integers(0, A - 1))
    else:
        eos = -1
    refs = [draw(row(R, A, eos)) for _ in range(N)]
    hyps = [draw(row(H, A, eos)) for _ in range(N)]
    return {"N": N, "R": R, "H": H, "A": A, "eos": eos, "eos_kind": eos_kind, "refs": refs, "hyps": hyps}


def lens_of(case_batch, include_eos):
    eos = case_batch["eos"]
    rl = [O.counted_len(r, eos, include_eos) for r in case_batch["refs"]]
    hl = [O.counted_len(h, eos, include_eos) for h in case_batch["hyps"]]
    return rl, hl


def has_post_eos_garbage(case_batch):
    eos = case_batch["eos"]
    if eos is None:
        return False
    for rowv in case_batch["refs"] + case_batch["hyps"]:
        if eos in rowv and rowv.index(eos) < len(rowv) - 1:
            return True
    return False


LAYOUTS = ["contiguous", "contiguous", "transposed_view", "offset_view", "strided_view"]


def _lay(x, batch_first, layout):
    """x is (N, L) contiguous; returns the tensor handed to the library in the requested memory layout:
    its own contiguous storage, a transposed view of the other layout, or a slice of a larger tensor."""
    import torch

    if layout == "transposed_view":
        return x.t().contiguous().t() if batch_first else x.t()
    y = x if batch_first else x.t().contiguous()
    if layout == "strided_view":
        # every second row of a tensor twice as tall (stride 2 along the first dimension)
        big = torch.full((2 * y.shape[0],) + tuple(y.shape[1:]), 7, dtype=y.dtype)
        big[::2] = y
        return big[::2]
    if layout == "offset_view":
        junk = torch.full((2,) + tuple(y.shape[1:]), 9, dtype=y.dtype)
        y = torch.cat([junk, y, junk], 0)[2:2 + y.shape[0]]
    return y


def to_tensors(case_batch, batch_first, layout="contiguous"):
    import torch

    N, R, H = case_batch["N"], case_batch["R"], case_batch["H"]
    ref = torch.tensor(case_batch["refs"], dtype=torch.long).reshape(N, R)
    hyp = torch.tensor(case_batch["hyps"], dtype=torch.long).reshape(N, H)
    return _lay(ref, batch_first, layout), _lay(hyp, batch_first, layout)


def common_classes(b, rl, hl, costs):
    cl = ["eos_" + b["eos_kind"], cost_class(costs)]
    if len(set(rl)) > 1 or len(set(hl)) > 1:
        cl.append("ragged")
    if b["eos"] is not None and (0 in rl):
        cl.append("empty_ref_with_eos")
    if b["eos"] is not None and (0 in hl):
        cl.append("empty_hyp_with_eos")
    if has_post_eos_garbage(b):
        cl.append("post_eos_garbage")
    return cl


# ---------------------------------------------------------------- long, structured pairs


@st.composite
def edited_pair(draw, max_len, alphabet):
    """A reference and a hypothesis derived from it by runs of deletions, insertions and
    substitutions at generated positions (so optimal alignments contain long edit runs
    anywhere, including across internal block boundaries of an implementation)."""
    L = draw(st.integers(max_len // 2, max_len))
    ref = draw(st.lists(st.integers(0, alphabet - 1), min_size=L, max_size=L))
    hyp = []
    i = 0
    nops = draw(st.integers(0, 6))
    ops = sorted(draw(st.lists(st.tuples(st.integers(0, max(L - 1, 0)), st.sampled_from(["del", "del", "ins", "sub"]),
                                         st.integers(1, 5)), min_size=nops, max_size=nops)))
    k = 0
    while i < L:
        if k < len(ops) and ops[k][0] <= i:
            _, kind, n = ops[k]
            k += 1
            if kind == "del":
                i += n
            elif kind == "ins":
                hyp.extend(draw(st.lists(st.integers(0, alphabet - 1), min_size=n, max_size=n)))
            else:
                for _ in range(n):
                    if i < L:
                        hyp.append((ref[i] + 1) % max(alphabet, 2))
                        i += 1
            continue
        hyp.append(ref[i])
        i += 1
    return ref, hyp[: max_len + 8]


@st.composite
def long_batch(draw, tier, max_n=3):
    big = tier == "thorough"
    max_len = draw(st.sampled_from([20, 40, 17, 33] if not big else [20, 40, 70, 100, 17, 33, 65, 129]))
    N = draw(st.integers(1, max_n))
    A = draw(st.integers(2, 5))
    eos_kind = draw(st.sampled_from(["none", "outside", "outside"]))
    pairs = [draw(edited_pair(max_len, A)) for _ in range(N)]
    if eos_kind == "none":
        # without eos every row is counted in full: equalise lengths by repeating the pair structure
        R = max(len(p[0]) for p in pairs)
        H = max(len(p[1]) for p in pairs)
        H = max(H, 1)
        refs = [p[0] + draw(st.lists(st.integers(0, A - 1), min_size=R - len(p[0]), max_size=R - len(p[0]))) for p in pairs]
        hyps = [p[1] + draw(st.lists(st.integers(0, A - 1), min_size=H - len(p[1]), max_size=H - len(p[1]))) for p in pairs]
        eos = None
    else:
        eos = A
        R = max(len(p[0]) for p in pairs) + draw(st.integers(0, 2))
        H = max(max(len(p[1]) for p in pairs) + draw(st.integers(0, 2)), 1)
        refs, hyps = [], []
        for r, h in pairs:
            rr = list(r)
            if len(rr) < R:
                rr.append(eos)
                rr += draw(st.lists(st.integers(-1, A), min_size=R - len(rr), max_size=R - len(rr)))
            hh = list(h)
            if len(hh) < H:
                hh.append(eos)
                hh += draw(st.lists(st.integers(-1, A), min_size=H - len(hh), max_size=H - len(hh)))
            refs.append(rr)
            hyps.append(hh)
    return {"N": N, "R": R, "H": H, "A": A, "eos": eos, "eos_kind": eos_kind, "refs": refs, "hyps": hyps}


@st.composite
def eos_padded_wide_batch(draw, tier, max_n=3):
    """Short transcripts sitting in very wide tensors that are padded with copies of eos (hundreds of eos tokens per
    row), as batching code produces them."""
    big = tier == "thorough"
    N = draw(st.integers(1, max_n))
    A = draw(st.integers(1, 3))
    eos = draw(st.sampled_from([A, 0, -1]))
    widths = [257, 300, 530] + ([1025, 2049] if big else [])
    # one side wide, the other short (the cost of the library's row-by-row programme is R * H steps)
    wide, short = draw(st.sampled_from(widths)), draw(st.sampled_from([8, 12, 20]))
    R, H = (wide, short) if draw(st.booleans()) else (short, wide)
    body = st.lists(st.integers(0, A - 1).filter(lambda t: t != eos) if A > 1 or eos != 0 else st.just(A), max_size=6)
    refs = [(draw(body) + [eos] * R)[:R] for _ in range(N)]
    hyps = [(draw(body) + [eos] * H)[:H] for _ in range(N)]
    return {"N": N, "R": R, "H": H, "A": A, "eos": eos, "eos_kind": "padded", "refs": refs, "hyps": hyps}
