"""C20 Attention is a masked convex combination of values, blind to masked positions."""
from __future__ import annotations

from hypothesis import strategies as st

import os

from .. import lmlay
from ..core import Info, require, subcheck
from ..gen import weighted
from ..oracles import c20_ref as R

# Values at masked positions that are inf or nan make the output nan on the current tree (the weight of a
# masked position is 0, and 0 * inf = nan): fixes/C20-masked-values-non-finite.diff,
# replays/C20/masked-value-*.json.  Non-finite garbage is written over masked *values* only when this
# switch is on (masked keys are always covered); turn it on once the fix is merged.
ENABLE_NONFINITE_MASKED_VALUES = True  # repaired in /repo by fcfe38d

SIZES = [15, 16, 17, 31, 32, 33, 63, 64, 65, 127, 128, 129, 255, 256, 257, 1023, 1024, 1025, 2049]
LAYOUTS = lmlay.LAYOUTS

PQ = 4    # queries, keys and parameters are integers / 4
VQ = 16   # values are distinct integers / 16


def _prod(shape):
    n = 1
    for s in shape:
        n *= s
    return n


def _ints(n, lo, hi):
    return st.lists(st.integers(lo, hi), min_size=n, max_size=n)


# ------------------------------------------------------------------ shapes shared by both sub-checks


@st.composite
def _layout(draw, allow_negative_dim):
    K = draw(st.sampled_from([3, 4, 3, 2]))              # rank of key
    p = draw(st.integers(0, K - 2))                      # sequence axis of key
    neg = allow_negative_dim and p >= 1 and draw(st.sampled_from([False, False, True]))
    batch = [draw(st.sampled_from([2, 1, 3])) for _ in range(K - 2)]
    T = draw(st.sampled_from([3, 4, 2, 3, 1]))
    flags = st.lists(st.sampled_from([False, False, True]), min_size=K - 2, max_size=K - 2)
    single = {k: draw(flags) for k in ("k", "v", "m")}
    single["q"] = draw(st.lists(st.booleans(), min_size=K - 2, max_size=K - 2))
    has_mask = draw(st.sampled_from([True, True, True, False]))
    nfib = _prod(batch)
    mask_bits = draw(st.lists(st.integers(1, 2 ** T - 1), min_size=nfib, max_size=nfib))
    return {"K": K, "p": p, "neg": bool(neg), "batch": batch, "T": T, "single": single, "has_mask": has_mask,
            "mask_bits": mask_bits, "perm": draw(st.permutations(list(range(T)))),
            "dtype": draw(st.sampled_from(["float32", "float64", "float32"])),
            # how the arguments of the judged call are presented (none of it changes the expected output):
            # memory layouts, singleton axes passed as stride-0 expansions, what is written over masked
            # positions, key and value being one tensor object, module state
            "lay": {k: draw(st.sampled_from(LAYOUTS + ["own"])) for k in ("q", "k", "v", "m")},
            "garbage_kind": draw(st.sampled_from(["finite", "huge", "nonfinite", "nonfinite"])),
            "nonfinite": draw(st.lists(st.sampled_from(["inf", "-inf", "nan"]), min_size=1, max_size=3)),
            "kv_same": draw(st.sampled_from([False, False, True])),
            "calls": sorted(set(draw(st.lists(st.sampled_from(["warm_other_shape", "eval_mode", "no_grad"]), max_size=2))))}


def _shapes(case):
    """Actual (possibly singleton) batch shapes of query / key / value / mask."""
    batch, p, T = list(case["batch"]), case["p"], case["T"]
    s = {k: [bool(x) for x in v] for k, v in case["single"].items()}
    def shp(flags, with_T):
        b = [1 if f else n for f, n in zip(flags, batch)]
        return b[:p] + [T] + b[p:] if with_T else b

    return {"q": shp(s["q"], False), "k": shp(s["k"], True), "v": shp(s["v"], True), "m": shp(s["m"], True),
            "full": batch[:p] + [T] + batch[p:]}


def _take(full_arr, shape):
    """Slice index 0 along the axes where ``shape`` is 1 (keeps dims)."""
    import numpy as np

    idx = tuple(slice(0, 1) if (s == 1 and f != 1) else slice(None) for s, f in zip(shape, full_arr.shape))
    return np.ascontiguousarray(full_arr[idx])


def _mask_full(case):
    import numpy as np

    batch, p, T = list(case["batch"]), case["p"], case["T"]
    bits = np.array(list(case["mask_bits"]), dtype=np.int64).reshape(batch + [1])
    m = ((bits >> np.arange(T)) & 1).astype(bool)           # batch + [T]
    return np.moveaxis(m, -1, p)


def _arrays(case, Q, Kf, D):
    """float64 arrays q, k, v (+ mask or None) with their possibly-singleton shapes."""
    import numpy as np

    sh = _shapes(case)
    full_q = list(case["batch"])
    q = np.array(case["q_vals"], dtype=np.float64).reshape(full_q + [Q]) / PQ
    k = np.array(case["k_vals"], dtype=np.float64).reshape(sh["full"] + [Kf]) / PQ
    v = np.array(case["v_vals"], dtype=np.float64).reshape(sh["full"] + [D]) / VQ
    q = _take(q, sh["q"] + [Q])
    k = _take(k, sh["k"] + [Kf])
    v = _take(v, sh["v"] + [D])
    m = _take(_mask_full(case), sh["m"]) if case["has_mask"] else None
    return q, k, v, m, sh


def _t(a, dtype):
    import torch

    if a is None:
        return None
    if a.dtype == bool:
        return torch.tensor(a.tolist(), dtype=torch.bool).reshape(a.shape)
    return torch.tensor(a.tolist(), dtype=torch.float64).reshape(a.shape).to(getattr(torch, dtype))


def _set(param, ints, shape=None):
    import torch

    with torch.no_grad():
        t = torch.tensor(list(ints), dtype=torch.float64) / PQ
        param.copy_(t.reshape(param.shape).to(param.dtype))


def _np(param):
    return None if param is None else param.detach().double().numpy()


def _close(what, obs, exp, tol):
    import numpy as np

    obs = np.asarray(obs, dtype=np.float64)
    exp = np.asarray(exp, dtype=np.float64)
    require(list(obs.shape) == list(exp.shape), what + ": shape", list(obs.shape), list(exp.shape))
    bad = np.argwhere(~(np.abs(obs - exp) <= tol))
    if len(bad):
        i = tuple(int(x) for x in bad[0])
        require(False, "%s (at %r)" % (what, i), float(obs[i]), float(exp[i]))


def _garbage_kind(case):
    kind = case.get("garbage_kind")
    if kind is None:                       # cases stored before the non-finite class existed
        kind = "huge" if case.get("huge") else "finite"
    return kind


def _garbage(case, arr, dropped, which):
    """arr with the entries at ``dropped`` positions replaced by generated garbage: small numbers, huge
    numbers, or inf / -inf / nan (for values only with ENABLE_NONFINITE_MASKED_VALUES)."""
    import numpy as np

    g = np.array(case["garbage_" + which], dtype=np.float64)
    g = np.resize(g, arr.shape)
    kind = _garbage_kind(case)
    if kind == "huge" or (kind == "nonfinite" and which == "v" and not ENABLE_NONFINITE_MASKED_VALUES):
        g = g * 1e28
    elif kind == "nonfinite":
        nf = np.array([float(x) for x in case.get("nonfinite") or ["nan"]], dtype=np.float64)
        g = np.resize(nf, arr.shape)
    return np.where(dropped[..., None], g, arr)


def _tl(case, a, dtype, which, salt=0):
    """The tensor of array ``a`` in the memory layout the case asks for argument ``which``."""
    if a is None:
        return None
    kind = (case.get("lay") or {}).get(which, "own")
    return lmlay.relayout(_t(a, dtype), kind, 1 + salt)


def _same_tensor(t, keep):
    import torch

    if t is None:
        return True
    if t.dtype == torch.bool:
        return torch.equal(t, keep)
    return bool(((t == keep) | (t.isnan() & keep.isnan())).all())


def _tols(dtype, vs):
    if dtype == "float32":
        return {"formula": 2e-4 * vs, "same": 2e-6 * vs, "perm": 1e-5 * vs}
    return {"formula": 1e-9 * vs, "same": 1e-13 * vs, "perm": 1e-12 * vs}


def _invariances(case, att, q, k, v, m, sh, out, tol, ref_fn):
    """masked-content, permutation and broadcasting relations of one attention module."""
    import numpy as np

    dtype, p = case["dtype"], case["p"]
    classes = []
    e_shape = np.broadcast_shapes(tuple(sh["q"][:p] + [1] + sh["q"][p:]), tuple(sh["k"]))
    obs = out.detach().double().numpy()
    # masked-content invariance
    if m is not None and not m.all():
        dk = R.dropped_everywhere(m, sh["k"], e_shape)
        dv = R.dropped_everywhere(m, sh["v"], e_shape)
        if dk.any() or dv.any():
            k2 = _garbage(case, k, dk, "k")
            v2 = _garbage(case, v, dv, "v")
            out2 = att(_t(q, dtype), _t(k2, dtype), _t(v2, dtype), _t(m, dtype))
            _close("output changed when keys/values at masked positions were replaced", out2.detach().double().numpy(),
                   obs, tol["same"])
            classes.append("masked_content_replaced")
            require(bool(np.isfinite(out2.detach().double().numpy()).all()),
                    "output not finite after keys/values at masked positions were replaced", None, None)
            kind = _garbage_kind(case)
            if kind == "huge":
                classes.append("huge_garbage")
            if kind == "nonfinite":
                if dk.any():
                    classes.append("nonfinite_masked_keys")
                if dv.any() and ENABLE_NONFINITE_MASKED_VALUES:
                    classes.append("nonfinite_masked_values")
    # permutation of the sequence positions
    perm = list(case["perm"])
    if perm != sorted(perm):
        kp = np.take(k, perm, axis=p)
        vp = np.take(v, perm, axis=p)
        mp = None if m is None else np.take(m, perm, axis=p)
        out3 = att(_t(q, dtype), _t(kp, dtype), _t(vp, dtype), _t(mp, dtype))
        _close("output changed under a consistent permutation of the sequence positions",
               out3.detach().double().numpy(), obs, tol["perm"])
        classes.append("permuted")
    # broadcasting == explicit expansion
    full = sh["full"]
    fq = list(case["batch"])
    if sh["q"] != fq or sh["k"] != full or sh["v"] != full or (m is not None and sh["m"] != full):
        qx = np.broadcast_to(q, fq + [q.shape[-1]])
        kx = np.broadcast_to(k, full + [k.shape[-1]])
        vx = np.broadcast_to(v, full + [v.shape[-1]])
        mx = None if m is None else np.broadcast_to(m, full)
        out4 = att(_t(np.ascontiguousarray(qx), dtype), _t(np.ascontiguousarray(kx), dtype),
                   _t(np.ascontiguousarray(vx), dtype), _t(None if mx is None else np.ascontiguousarray(mx), dtype))
        o4 = out4.detach().double().numpy()
        _close("broadcast call differs from the explicitly expanded call", np.broadcast_to(obs, o4.shape), o4, tol["same"])
        classes.append("broadcast")
        if sh["q"] != fq:
            classes.append("broadcast_query")
        # the same expansion as stride-0 views (no copy)
        tq, tk, tv = _t(q, dtype), _t(k, dtype), _t(v, dtype)
        tm = _t(m, dtype)
        out5 = att(tq.expand(fq + [q.shape[-1]]), tk.expand(full + [k.shape[-1]]), tv.expand(full + [v.shape[-1]]),
                   None if tm is None else tm.expand(full))
        _close("call with stride-0 expanded views differs from the explicitly expanded call",
               out5.detach().double().numpy(), o4, tol["same"])
        classes.append("expanded_views")
    return classes


def _judged_call(case, att, q, k, v, m, sh, dtype):
    """The call whose output is compared with the formula: arguments in the case's memory layouts, optionally
    key and value as one tensor object, after a call on another shape, in eval mode, under no_grad.
    Returns (out, {"classes": [...], "v": the value array actually used, "sh": shapes})."""
    import numpy as np
    import torch

    calls = set(case.get("calls") or [])
    classes = []
    tq, tk, tm = _tl(case, q, dtype, "q"), _tl(case, k, dtype, "k", 1), _tl(case, m, dtype, "m", 2)
    if case.get("kv_same") and k.shape[-1] == v.shape[-1]:
        # the documentation's own example passes the encoder output as key and as value
        v, tv = k, tk
        sh = dict(sh, v=list(sh["k"]))
        classes.append("key_is_value_object")
    else:
        tv = _tl(case, v, dtype, "v", 1)
    for t in (tq, tk, tv, tm):
        if t is not None:
            classes += lmlay.describe(t)
    if "warm_other_shape" in calls:
        # the module has already attended over a longer sequence with another batch
        kw = torch.ones([d + 1 for d in k.shape[:-1]] + [k.shape[-1]], dtype=tk.dtype)
        vw = torch.ones([d + 1 for d in k.shape[:-1]] + [v.shape[-1]], dtype=tk.dtype)
        qw = torch.ones([d for i, d in enumerate(kw.shape[:-1]) if i != case["p"]] + [q.shape[-1]], dtype=tk.dtype)
        att(qw, kw, vw, None)
        classes.append("warm_other_shape")
    if "eval_mode" in calls:
        att.eval()
        classes.append("eval_mode")
    keeps = [None if t is None else t.clone() for t in (tq, tk, tv, tm)]
    if "no_grad" in calls:
        with torch.no_grad():
            out = att(tq, tk, tv, tm)
        classes.append("no_grad")
    else:
        out = att(tq, tk, tv, tm)
    for name, t, keep in zip(("query", "key", "value", "mask"), (tq, tk, tv, tm), keeps):
        require(_same_tensor(t, keep), "the %s tensor was modified by the call" % name, None, None)
    return out, {"classes": sorted(set(classes)), "v": v, "sh": sh}




def _reuse_patterns(case, att, q, k, v, m, tol):
    """The same tensor objects handed in again after their contents (or the module's parameters) were changed in
    place - a reused input buffer, an optimizer step, load_state_dict - in eval and in train mode: the output must be
    that of the current contents, i.e. equal to the call on fresh copies of the same data."""
    import torch

    dtype = case["dtype"]
    tq, tk, tv, tm = _t(q, dtype), _t(k, dtype), _t(v, dtype), _t(m, dtype)
    was_training = att.training
    for mode in ("eval", "train"):
        getattr(att, mode)()
        att(tq, tk, tv, tm)
        with torch.no_grad():
            tk.mul_(-1.0).add_(0.25)
            tv.add_(1.0)
        second = att(tq, tk, tv, tm)
        fresh = att(tq, tk.clone(), tv.clone(), tm)
        _close("%s mode: output after the key/value buffers were refilled in place differs from the same content in fresh tensors" % mode,
               second.detach().double().numpy(), fresh.detach().double().numpy(), tol["same"])
        params = [p_ for p_ in att.parameters()]
        if params:
            with torch.no_grad():
                for p_ in params:
                    p_.mul_(0.5).add_(0.125)
            third = att(tq, tk, tv, tm)
            fresh = att(tq, tk.clone(), tv.clone(), tm)
            _close("%s mode: output after the parameters were changed in place differs from the call on fresh tensors" % mode,
                   third.detach().double().numpy(), fresh.detach().double().numpy(), tol["same"])
    att.train(was_training)
    return ["inputs_refilled_in_place"]


# ------------------------------------------------------------------ single-head flavours


@st.composite
def _single_case(draw, tier):
    case = draw(_layout(True))
    flavour = draw(st.sampled_from(["dot", "general", "concat"]))
    Q = draw(st.sampled_from([2, 1, 3, 4]))
    Kf = Q if flavour == "dot" else draw(st.sampled_from([2, 1, 3, 4]))
    D = draw(st.sampled_from([2, 1, 3]))
    nq, nfull = _prod(case["batch"]), _prod(case["batch"]) * case["T"]
    case.update({
        "flavour": flavour, "Q": Q, "Kf": Kf, "D": D,
        "q_vals": draw(_ints(nq * Q, -2 * PQ, 2 * PQ)),
        "k_vals": draw(_ints(nfull * Kf, -2 * PQ, 2 * PQ)),
        "v_vals": draw(st.lists(st.integers(-512, 512), min_size=nfull * D, max_size=nfull * D, unique=True)),
        "garbage_k": draw(_ints(5, -40, 40)), "garbage_v": draw(_ints(5, -4000, 4000)),
        "huge": draw(st.sampled_from([False, True])),
        # keys times 2**k: scores of huge magnitude (exactly representable, see the check)
        "key_scale_exp": draw(st.sampled_from([0, 0, 0, 10, 40, 100])) if flavour != "concat" else 0,
    })
    if flavour == "dot":
        case["params"] = {"scale": draw(st.sampled_from([4, 2, 1, 8, -4, 0]))}
    elif flavour == "general":
        bias = draw(st.booleans()) and not case["key_scale_exp"]
        case["params"] = {"weight": draw(_ints(Q * Kf, -2 * PQ, 2 * PQ)),
                          "bias": draw(_ints(Q, -2 * PQ, 2 * PQ)) if bias else None}
    else:
        bias = draw(st.booleans())
        hidden = draw(st.sampled_from([2, 1, 3, 4]))
        case["params"] = {"hidden": hidden, "weight": draw(_ints(hidden * (Q + Kf), -2 * PQ, 2 * PQ)),
                          "bias": draw(_ints(hidden, -2 * PQ, 2 * PQ)) if bias else None,
                          "v": draw(_ints(hidden, -2 * PQ, 2 * PQ))}
    return case


def _make_single(flavour, params, Q, Kf, dim, dtype):
    import torch
    from pydrobert.torch.modules import (ConcatSoftAttention, DotProductSoftAttention,
                                         GeneralizedDotProductSoftAttention)

    if flavour == "dot":
        att = DotProductSoftAttention(Q, dim, params["scale"] / PQ)
        ref = {"scale": params["scale"] / PQ}
    elif flavour == "general":
        att = GeneralizedDotProductSoftAttention(Q, Kf, dim, params["bias"] is not None)
        _set(att.weight, params["weight"])
        if params["bias"] is not None:
            _set(att.bias, params["bias"])
        ref = {"weight": _np(att.weight), "bias": _np(att.bias)}
    else:
        att = ConcatSoftAttention(Q, Kf, dim, params["bias"] is not None, params["hidden"])
        _set(att.weight, params["weight"])
        _set(att.v, params["v"])
        if params["bias"] is not None:
            _set(att.bias, params["bias"])
        ref = {"weight": _np(att.weight), "bias": _np(att.bias), "v": _np(att.v)}
    att = att.to(getattr(torch, dtype))
    return att, ref


@subcheck("C20", "single_head", _single_case, 1200, 30000,
          doc="dot-product / generalised / concat attention, key rank 2..4, sequence axis anywhere (also given as a "
              "negative index), singleton (broadcast) batch axes in query/key/value/mask, masks with >=1 kept position: "
              "documented formula (NumPy float64), convexity, masked-content / permutation invariance, broadcast == expanded",
          required_classes=["mask_mixed_group>=3", "broadcast_query", "masked_content_replaced", "permuted",
                            "negative_dim", "dot", "general", "concat", "no_mask", "nonfinite_masked_keys",
                            "expanded_views", "huge_scores", "key_is_value_object", "warm_other_shape", "eval_mode",
                            "no_grad", "storage_offset", "non_contiguous"])
def _single_check(case):
    import numpy as np

    flavour, Q, Kf, D, dtype = case["flavour"], case["Q"], case["Kf"], case["D"], case["dtype"]
    K, p = case["K"], case["p"]
    q, k, v, m, sh = _arrays(case, Q, Kf, D)
    dim = p - K if case["neg"] else p
    att, ref = _make_single(flavour, case["params"], Q, Kf, dim, dtype)
    kse = case.get("key_scale_exp", 0)
    if kse:
        # q, k and the parameters are small multiples of 1/4, so every score is a small integer multiple of a
        # power of two: exact in float32 and float64 alike, also after this scaling (no bias in that case)
        k = k * 2.0 ** kse
    out, call_classes = _judged_call(case, att, q, k, v, m, sh, dtype)
    obs = out.detach().double().numpy()
    v = call_classes.pop("v")
    sh = call_classes.pop("sh")
    vs = 1.0 + float(np.abs(v).max())
    tol = _tols(dtype, vs)
    # the documented computation
    exp = R.single_head(flavour, ref, q, k, v, m, p)
    _close("output differs from softmax(masked score) weighted sum of values", obs, exp, tol["formula"])
    # convexity
    e_shape = np.broadcast_shapes(tuple(sh["q"][:p] + [1] + sh["q"][p:]), tuple(sh["k"]))
    lo, hi = R.kept_bounds(v, m, e_shape, p)
    require(list(obs.shape) == list(lo.shape), "output shape", list(obs.shape), list(lo.shape))
    slack = tol["same"] * 4
    bad = np.argwhere(~((obs >= lo - slack) & (obs <= hi + slack)))
    if len(bad):
        i = tuple(int(x) for x in bad[0])
        require(False, "output coordinate %r lies outside [min, max] of the kept values" % (i,), float(obs[i]),
                [float(lo[i]), float(hi[i])])
    classes = [flavour, dtype, "key_rank_%d" % K] + call_classes["classes"]
    classes += _invariances(case, att, q, k, v, m, sh, out, tol, None)
    if kse:
        classes.append("huge_scores")
    if case["neg"]:
        classes.append("negative_dim")
    mixed = False
    if m is None:
        classes.append("no_mask")
    else:
        kept = m.sum(axis=p)
        mixed = case["T"] >= 3 and bool(((kept > 0) & (kept < case["T"])).any())
        if mixed:
            classes.append("mask_mixed_group>=3")
    nontrivial = mixed and "broadcast_query" in classes
    if not kse:
        classes += _reuse_patterns(case, att, q, k, v, m, tol)
    return Info(nontrivial=nontrivial, classes=classes)


# ------------------------------------------------------------------ multi-headed attention


@st.composite
def _multi_case(draw, tier):
    case = draw(_layout(False))
    inner = draw(st.sampled_from(["general", "dot", "concat"]))
    H = draw(st.sampled_from([2, 1, 3]))
    Q = draw(st.sampled_from([2, 1, 3]))
    Kf = draw(st.sampled_from([2, 1, 3]))
    D = draw(st.sampled_from([2, 1, 3]))           # value_size
    d_q = draw(st.sampled_from([2, 1, 3]))
    d_k = d_q if inner == "dot" else draw(st.sampled_from([2, 1, 3]))
    d_v = draw(st.sampled_from([None, 1, 2, 3]))
    out_size = draw(st.sampled_from([None, 1, 2, 3]))
    dv = max(1, D // H) if d_v is None else d_v
    osz = D if out_size is None else out_size
    nq, nfull = _prod(case["batch"]), _prod(case["batch"]) * case["T"]
    flags = [draw(st.booleans()) for _ in range(4)]
    case.update({
        "inner": inner, "H": H, "Q": Q, "Kf": Kf, "D": D, "d_q": d_q, "d_k": d_k, "d_v": d_v, "out_size": out_size,
        "bias_flags": flags,
        "q_vals": draw(_ints(nq * Q, -2 * PQ, 2 * PQ)),
        "k_vals": draw(_ints(nfull * Kf, -2 * PQ, 2 * PQ)),
        "v_vals": draw(st.lists(st.integers(-512, 512), min_size=nfull * D, max_size=nfull * D, unique=True)),
        "garbage_k": draw(_ints(5, -40, 40)), "garbage_v": draw(_ints(5, -4000, 4000)),
        "huge": draw(st.sampled_from([False, True])),
        "WQ": draw(_ints(H * d_q * Q, -PQ, PQ)), "WK": draw(_ints(H * d_k * Kf, -PQ, PQ)),
        "WV": draw(_ints(H * dv * D, -PQ, PQ)), "WC": draw(_ints(osz * H * dv, -PQ, PQ)),
        "bQ": draw(_ints(H * d_q, -PQ, PQ)), "bK": draw(_ints(H * d_k, -PQ, PQ)),
        "bV": draw(_ints(H * dv, -2 * PQ, 2 * PQ)), "bC": draw(_ints(osz, -2 * PQ, 2 * PQ)),
    })
    if inner == "dot":
        case["params"] = {"scale": draw(st.sampled_from([4, 2, 1, 8]))}
    elif inner == "general":
        bias = draw(st.booleans())
        case["params"] = {"weight": draw(_ints(d_q * d_k, -2 * PQ, 2 * PQ)),
                          "bias": draw(_ints(d_q, -2 * PQ, 2 * PQ)) if bias else None}
    else:
        bias = draw(st.booleans())
        hidden = draw(st.sampled_from([2, 1, 3]))
        case["params"] = {"hidden": hidden, "weight": draw(_ints(hidden * (d_q + d_k), -2 * PQ, 2 * PQ)),
                          "bias": draw(_ints(hidden, -2 * PQ, 2 * PQ)) if bias else None,
                          "v": draw(_ints(hidden, -2 * PQ, 2 * PQ))}
    return case


@subcheck("C20", "multi_head", _multi_case, 900, 20000,
          doc="MultiHeadedAttention over dot / generalised / concat heads, 1..3 heads, d_v / out_size given or defaulted, the "
              "four bias flags drawn independently, masks and broadcast axes: bias exactly where requested; output == "
              "WC(concat_h head_h(WQ q, WK k, WV v, mask)) computed head by head in NumPy with the module's weights; "
              "masked-content / permutation invariance, broadcast == expanded",
          required_classes=["mask", "unequal_bias_flags", "heads>=2", "masked_content_replaced", "batch_equals_heads",
                            "nonfinite_masked_keys", "expanded_views", "key_is_value_object", "warm_other_shape",
                            "storage_offset", "non_contiguous"])
def _multi_check(case):
    import numpy as np
    import torch
    from pydrobert.torch.modules import MultiHeadedAttention

    inner, H, Q, Kf, D, dtype = case["inner"], case["H"], case["Q"], case["Kf"], case["D"], case["dtype"]
    p = case["p"]
    q, k, v, m, sh = _arrays(case, Q, Kf, D)
    single, ref = _make_single(inner, case["params"], case["d_q"], case["d_k"], p, dtype)
    fq, fk, fv, fc = (bool(f) for f in case["bias_flags"])
    att = MultiHeadedAttention(Q, Kf, D, H, single, out_size=case["out_size"], d_v=case["d_v"],
                               bias_WQ=fq, bias_WK=fk, bias_WV=fv, bias_WC=fc)
    for name, flag in (("WQ", fq), ("WK", fk), ("WV", fv), ("WC", fc)):
        has = getattr(att, name).bias is not None
        require(has == flag, "%s has a bias term iff bias_%s was requested" % (name, name), has, flag)
    dv = max(1, D // H) if case["d_v"] is None else case["d_v"]
    osz = D if case["out_size"] is None else case["out_size"]
    require(att.d_v == dv, "d_v (documented default max(1, value_size // num_heads))", att.d_v, dv)
    require(att.out_size == osz, "out_size (documented default value_size)", att.out_size, osz)
    shapes = {"WQ": (H * case["d_q"], Q), "WK": (H * case["d_k"], Kf), "WV": (H * dv, D), "WC": (osz, H * dv)}
    for name, shp in shapes.items():
        require(tuple(getattr(att, name).weight.shape) == shp, "shape of the %s projection" % name,
                tuple(getattr(att, name).weight.shape), shp)
    # the constructor re-initialises the wrapped attention: set all parameters now
    _make_params = {"general": ("weight", "bias"), "concat": ("weight", "bias", "v"), "dot": ()}[inner]
    for name in _make_params:
        if case["params"].get(name) is not None:
            _set(getattr(single, name), case["params"][name])
    for name in ("WQ", "WK", "WV", "WC"):
        lin = getattr(att, name)
        _set(lin.weight, case[name])
        if lin.bias is not None:
            _set(lin.bias, case["b" + name[1]])
    att = att.to(getattr(torch, dtype))
    if inner != "dot":
        ref = {n: _np(getattr(single, n)) for n in _make_params}
    W = {"WQ": _np(att.WQ.weight), "WK": _np(att.WK.weight), "WV": _np(att.WV.weight), "WC": _np(att.WC.weight),
         "bQ": _np(att.WQ.bias), "bK": _np(att.WK.bias), "bV": _np(att.WV.bias), "bC": _np(att.WC.bias)}
    if Kf != D:
        case = dict(case, kv_same=False)
    out, call_classes = _judged_call(case, att, q, k, v, m, sh, dtype)
    v, sh = call_classes.pop("v"), call_classes.pop("sh")
    obs = out.detach().double().numpy()
    exp = R.multi_head(inner, ref, W, q, k, v, m, p, H)
    vs = 1.0 + float(np.abs(exp).max()) + float(np.abs(v).max()) * (1.0 + float(np.abs(W["WV"]).sum()))
    tol = _tols(dtype, vs)
    _close("output differs from WC(concat_h head_h(WQ q, WK k, WV v, mask))", obs, exp, tol["formula"])
    classes = ["inner_" + inner, dtype, "heads_%d" % H] + call_classes["classes"]
    classes += _invariances(case, att, q, k, v, m, sh, out, tol, None)
    if m is not None:
        classes.append("mask")
        if m.shape[-1] == H and H > 1:
            classes.append("batch_equals_heads")
    if len({fq, fk, fv, fc}) > 1:
        classes.append("unequal_bias_flags")
    if len({fq, fk, fv}) > 1:
        classes.append("unequal_projection_bias_flags")
    if H >= 2:
        classes.append("heads>=2")
    nontrivial = m is not None and not m.all() and len({fq, fk, fv, fc}) > 1
    classes += _reuse_patterns(case, att, q, k, v, m, tol)
    return Info(nontrivial=nontrivial, classes=classes)


# ------------------------------------------------------------------ long sequences


@st.composite
def _long_case(draw, tier):
    big = tier == "thorough"
    T = draw(st.sampled_from([1500, 1025, 2500, 200, 1024, 2047, 777, 4099] + ([8193, 10007, 3000, 5000] if big else [])))
    return {
        "T": T, "B": draw(st.sampled_from([1, 2, 3])), "p": draw(st.sampled_from([0, 1])),
        "neg": draw(st.booleans()),
        "flavour": draw(st.sampled_from(["dot", "general"])),
        "Q": draw(st.sampled_from([1, 2, 3])), "D": draw(st.sampled_from([1, 2])),
        # keys / values / mask are deterministic expansions of a few generated integers
        "ka": draw(st.integers(1, 97)), "kb": draw(st.integers(0, 50)), "km": draw(st.sampled_from([7, 11, 13, 17])),
        "va": draw(st.integers(1, 4000)),
        "mask_mod": draw(st.sampled_from([0, 2, 3, 5, 64])), "mask_keep_tail": draw(st.booleans()),
        "q_vals": draw(_ints(9, -2 * PQ, 2 * PQ)),
        "weight": draw(_ints(9, -PQ, PQ)),
        "scale": draw(st.sampled_from([4, 1, 2, 0])),
        "rot": draw(st.integers(1, 5000)),
        "dtype": draw(st.sampled_from(["float32", "float64"])),
        "multi": draw(st.booleans()),
    }


@subcheck("C20", "long_sequence", _long_case, 120, 2000,
          doc="sequence lengths of hundreds to thousands (1024 +- 1, 1500, 2500, 4099, ...): documented formula in NumPy float64, "
              "convexity, rotation of the sequence positions; single-head dot / generalised and multi-headed over dot heads",
          required_classes=["T>1024", "T<=1024", "mask", "multi"])
def _long_check(case):
    import numpy as np
    import torch
    from pydrobert.torch.modules import (DotProductSoftAttention, GeneralizedDotProductSoftAttention,
                                         MultiHeadedAttention)

    T, B, p, Q, D, dtype = case["T"], case["B"], case["p"], case["Q"], case["D"], case["dtype"]
    t = np.arange(T, dtype=np.int64)
    P = 10007 if T < 10007 else 20011
    kq = np.stack([((case["ka"] * (t + 3 * j) + case["kb"] * b) % case["km"]) - case["km"] // 2
                   for b in range(B) for j in range(Q)], 0).reshape(B, Q, T).transpose(0, 2, 1) / PQ      # (B, T, Q)
    vv = np.stack([((case["va"] * (t + 1) + 131 * b + 17 * j) % P) for b in range(B) for j in range(D)], 0)
    vv = vv.reshape(B, D, T).transpose(0, 2, 1).astype(np.float64) / VQ                                      # (B, T, D)
    if case["mask_mod"]:
        m = ((t[None, :] + np.arange(B)[:, None]) % case["mask_mod"]) != 0
        if case["mask_keep_tail"]:
            m[:, : T // 2] = False
        m[:, -1] = True
    else:
        m = None
    q = np.array(case["q_vals"][: Q], dtype=np.float64)[None, :].repeat(B, 0) / PQ                           # (B, Q)
    if p == 0:
        kq, vv = kq.transpose(1, 0, 2), vv.transpose(1, 0, 2)
        m = None if m is None else m.T
    kq, vv = np.ascontiguousarray(kq), np.ascontiguousarray(vv)
    m = None if m is None else np.ascontiguousarray(m)
    dim = p - 3 if (case["neg"] and p >= 1 and not case["multi"]) else p
    if case["flavour"] == "dot":
        single = DotProductSoftAttention(Q, dim, case["scale"] / PQ)
        ref = {"scale": case["scale"] / PQ}
        flav = "dot"
    else:
        single = GeneralizedDotProductSoftAttention(Q, Q, dim, False)
        _set(single.weight, case["weight"][: Q * Q])
        ref = {"weight": _np(single.weight), "bias": None}
        flav = "general"
    classes = ["T>1024" if T > 1024 else "T<=1024", flav, dtype]
    if m is not None:
        classes.append("mask")
    if case["multi"]:
        classes.append("multi")
        att = MultiHeadedAttention(Q, Q, D, 1, single, bias_WQ=False, bias_WK=False, bias_WV=False, bias_WC=False)
        if flav == "general":
            _set(single.weight, case["weight"][: Q * Q])
            ref = {"weight": _np(single.weight), "bias": None}
        for name, n_in in (("WQ", Q), ("WK", Q), ("WV", D), ("WC", att.WC.weight.shape[1])):
            lin = getattr(att, name)
            with torch.no_grad():
                lin.weight.copy_(torch.eye(lin.weight.shape[0], lin.weight.shape[1]))
        att = att.to(getattr(torch, dtype))
        if att.WV.weight.shape != (D, D) or att.WC.weight.shape != (D, D):
            return Info(nontrivial=False, classes=classes + ["skipped_projection_shape"])
    else:
        att = single.to(getattr(torch, dtype))
    out = att(_t(q, dtype), _t(kq, dtype), _t(vv, dtype), _t(m, dtype))
    obs = out.detach().double().numpy()
    exp = R.single_head(flav, ref, q, kq, vv, m, p)
    vs = 1.0 + float(np.abs(vv).max())
    tol = (5e-4 if dtype == "float32" else 1e-9) * vs
    _close("long sequence: output differs from softmax(masked score) weighted sum of values", obs, exp, tol)
    e_shape = np.broadcast_shapes(tuple(list(q.shape[:p]) + [1] + list(q.shape[p:-1])), kq.shape[:-1])
    lo, hi = R.kept_bounds(vv, m, e_shape, p)
    slack = (1e-4 if dtype == "float32" else 1e-10) * vs
    require(bool(((obs >= lo - slack) & (obs <= hi + slack)).all()), "long sequence: output outside [min, max] of the kept values",
            [float(obs.min()), float(obs.max())], [float(lo.min()), float(hi.max())])
    r = case["rot"] % T
    if r:
        out2 = att(_t(q, dtype), _t(np.roll(kq, r, axis=p), dtype), _t(np.roll(vv, r, axis=p), dtype),
                   _t(None if m is None else np.roll(m, r, axis=p), dtype))
        _close("long sequence: output changed under a rotation of the sequence positions", out2.detach().double().numpy(), obs,
               (2e-4 if dtype == "float32" else 1e-10) * vs)
    return Info(nontrivial=T > 1024, classes=classes)


# ------------------------------------------------------------------ sizes across implementation thresholds
#
# One dimension (sequence length, batch, query/key size, value size, number of heads) is taken through
# SIZES inside every case, as prefixes of tensors expanded deterministically from a few generated integers.

HEAD_SIZES = [15, 16, 17, 31, 32, 33, 63, 64, 65]


@st.composite
def _large_case(draw, tier, which):
    sizes = HEAD_SIZES if which == "H" else SIZES + ([4099] if tier == "thorough" and which == "T" else [])
    return {
        "which": which,
        "sizes": draw(weighted((1, st.lists(st.sampled_from(sizes), min_size=1, max_size=4, unique=True)), (9, st.just(sizes)))),
        "B": draw(st.sampled_from([1, 2, 3])), "T": draw(st.sampled_from([3, 4, 5])), "p": draw(st.sampled_from([0, 1])),
        "neg": draw(st.booleans()), "flavour": draw(st.sampled_from(["dot", "general"])),
        "Q": draw(st.sampled_from([1, 2, 3])), "D": draw(st.sampled_from([1, 2])),
        "ka": draw(st.integers(1, 97)), "kb": draw(st.integers(0, 50)), "km": draw(st.sampled_from([7, 11, 13, 17])),
        "va": draw(st.integers(1, 4000)), "wa": draw(st.integers(1, 50)), "wb": draw(st.integers(1, 50)),
        "mask_mod": draw(st.sampled_from([0, 2, 3, 5, 64])),
        "q3": draw(_ints(3, -2 * PQ, 2 * PQ)), "scale": draw(st.sampled_from([4, 1, 2, 8])),
        "d": draw(st.sampled_from([1, 2])), "bias_flags": [draw(st.booleans()) for _ in range(4)],
        "dtype": draw(st.sampled_from(["float32", "float64"])),
        "lay": {k: draw(st.sampled_from(LAYOUTS + ["own"])) for k in ("q", "k", "v", "m")},
    }


def _large_check(case):
    import numpy as np
    import torch
    from pydrobert.torch.modules import (DotProductSoftAttention, GeneralizedDotProductSoftAttention,
                                         MultiHeadedAttention)

    which, sizes, dtype, p = case["which"], sorted(case["sizes"]), case["dtype"], case["p"]
    nmax = max(sizes)
    B, T, Q, D = case["B"], case["T"], case["Q"], case["D"]
    if which == "T":
        T = nmax
    elif which == "B":
        B = nmax
    elif which == "Q":
        Q = nmax
    elif which == "D":
        D = nmax
    t = np.arange(T, dtype=np.int64)[None, :, None]
    b = np.arange(B, dtype=np.int64)[:, None, None]
    P = 10007
    km = case["km"]
    jq = np.arange(Q, dtype=np.int64)[None, None, :]
    jd = np.arange(D, dtype=np.int64)[None, None, :]
    kq = (((case["ka"] * (t + 3 * jq) + case["kb"] * b) % km) - km // 2) / PQ                 # (B, T, Q)
    vv = ((case["va"] * (t + 1) + 131 * b + 17 * jd) % P).astype(np.float64) / VQ             # (B, T, D)
    if case["mask_mod"]:
        mm = ((t[..., 0] + b[..., 0]) % case["mask_mod"]) != 0                                 # (B, T)
    else:
        mm = None
    # the query is zero except at (up to) three coordinates, among them the first and the last: scores stay
    # small and exactly representable whatever the size of the feature axis
    def query(n):
        qv = np.zeros((B, n), dtype=np.float64)
        for pos, val in zip((0, n // 2, n - 1), case["q3"]):
            qv[:, pos] = val / PQ
        return qv
    # generalised flavour: a sparse dyadic matrix (one entry in seven non-zero)
    ii, jj = np.arange(Q, dtype=np.int64)[:, None], np.arange(Q, dtype=np.int64)[None, :]
    Wfull = np.where((ii + 2 * jj) % 7 == 0, ((case["wa"] * ii + case["wb"] * jj) % 5 - 2) / PQ, 0.0)
    if p == 0:
        kq, vv = kq.transpose(1, 0, 2), vv.transpose(1, 0, 2)
        mm = None if mm is None else mm.T
    tk, tv = _tl(case, np.ascontiguousarray(kq), dtype, "k"), _tl(case, np.ascontiguousarray(vv), dtype, "v", 1)
    tm = None if mm is None else _tl(case, np.ascontiguousarray(mm), dtype, "m", 2)
    keeps = [tk.clone(), tv.clone(), None if tm is None else tm.clone()]
    classes = set(["p_%d" % p, dtype])
    for x in (tk, tv, tm):
        if x is not None:
            classes.update(lmlay.describe(x))
    tdt = getattr(torch, dtype)

    def cut(arr, n_t=None, n_b=None, n_f=None):
        """prefix along the sequence / batch / feature axis (works for ndarrays and tensors alike)"""
        sl = [slice(None)] * 3
        if n_t is not None:
            sl[p] = slice(0, n_t)
        if n_b is not None:
            sl[1 - p] = slice(0, n_b)
        if n_f is not None:
            sl[2] = slice(0, n_f)
        return arr[tuple(sl[:arr.ndim])]

    for n in sizes:
        n_t = n if which == "T" else None
        n_b = n if which == "B" else None
        k_n, v_n = cut(kq, n_t, n_b, n if which == "Q" else None), cut(vv, n_t, n_b, n if which == "D" else None)
        tk_n, tv_n = cut(tk, n_t, n_b, n if which == "Q" else None), cut(tv, n_t, n_b, n if which == "D" else None)
        m_n = tm_n = None
        if mm is not None:
            m_n = np.array(cut(mm, n_t, n_b))
            idx = [slice(None)] * 2
            idx[p] = -1
            m_n[tuple(idx)] = True                       # at least one kept position per group
            tm_n = lmlay.relayout(_t(m_n, dtype), (case.get("lay") or {}).get("m", "own"), 2)
            classes.add("mask")
        Qn = k_n.shape[-1]
        Bn = k_n.shape[1 - p]
        q_n = query(Qn)[:Bn]
        tq_n = _tl(case, q_n, dtype, "q")
        dim = p - 3 if (case["neg"] and p >= 1 and which != "H") else p
        if which == "H":
            d, H = case["d"], n
            single = DotProductSoftAttention(d, p, case["scale"] / PQ)
            fq, fk, fv, fc = (bool(f) for f in case["bias_flags"])
            att = MultiHeadedAttention(Qn, Qn, v_n.shape[-1], H, single, d_v=d, bias_WQ=fq, bias_WK=fk, bias_WV=fv, bias_WC=fc)
            with torch.no_grad():
                for name, lin in (("WQ", att.WQ), ("WK", att.WK), ("WV", att.WV), ("WC", att.WC)):
                    r_, c_ = lin.weight.shape
                    w = ((case["wa"] * torch.arange(r_)[:, None] + case["wb"] * torch.arange(c_)[None, :] + len(name)) % 5 - 2) / PQ
                    lin.weight.copy_(w)
                    if lin.bias is not None:
                        lin.bias.copy_(((torch.arange(r_) * 3 + 1) % 5 - 2) / PQ)
            att = att.to(tdt)
            W = {"WQ": _np(att.WQ.weight), "WK": _np(att.WK.weight), "WV": _np(att.WV.weight), "WC": _np(att.WC.weight),
                 "bQ": _np(att.WQ.bias), "bK": _np(att.WK.bias), "bV": _np(att.WV.bias), "bC": _np(att.WC.bias)}
            exp = R.multi_head("dot", {"scale": case["scale"] / PQ}, W, q_n, k_n, v_n, m_n, p, H)
            vs = 1.0 + float(np.abs(exp).max()) + float(np.abs(v_n).max()) * (1.0 + float(np.abs(W["WV"]).sum(1).max()) * float(np.abs(W["WC"]).sum(1).max()))
            lo = hi = None
        else:
            if case["flavour"] == "dot":
                att = DotProductSoftAttention(Qn, dim, case["scale"] / PQ)
                ref, flav = {"scale": case["scale"] / PQ}, "dot"
            else:
                att = GeneralizedDotProductSoftAttention(Qn, Qn, dim, False)
                with torch.no_grad():
                    att.weight.copy_(torch.tensor(Wfull[:Qn, :Qn].tolist(), dtype=torch.float64))
                ref, flav = {"weight": _np(att.weight), "bias": None}, "general"
            att = att.to(tdt)
            classes.add(flav)
            exp = R.single_head(flav, ref, q_n, k_n, v_n, m_n, p)
            vs = 1.0 + float(np.abs(v_n).max())
            e_shape = np.broadcast_shapes(tuple(list(q_n.shape[:p]) + [1] + list(q_n.shape[p:-1])), k_n.shape[:-1])
            lo, hi = R.kept_bounds(v_n, m_n, e_shape, p)
        out = att(tq_n, tk_n, tv_n, tm_n)
        obs = out.detach().double().numpy()
        _close("%s=%d: output differs from softmax(masked score) weighted sum of values" % (which, n), obs, exp,
               (5e-4 if dtype == "float32" else 1e-9) * vs)
        if lo is not None:
            slack = (1e-4 if dtype == "float32" else 1e-10) * vs
            require(bool(((obs >= lo - slack) & (obs <= hi + slack)).all()),
                    "%s=%d: output outside [min, max] of the kept values" % (which, n),
                    [float(obs.min()), float(obs.max())], [float(lo.min()), float(hi.max())])
        classes.add("%s=%d" % (which, n))
    for name, x, keep in zip(("key", "value", "mask"), (tk, tv, tm), keeps):
        require(_same_tensor(x, keep), "the %s tensor was modified by the call" % name, None, None)
    return Info(nontrivial=nmax >= 1024 or which == "H", classes=sorted(classes))


_LARGE = [
    ("T", 12, 100, "sequence lengths 15..2049 (thorough: ..4099), prefixes of one key/value/mask"),
    ("B", 12, 100, "batch sizes 15..2049, prefixes of one key/value/mask"),
    ("Q", 12, 100, "query/key sizes 15..2049 (query non-zero at the first, middle and last coordinate; generalised flavour with "
                 "a sparse dyadic matrix)"),
    ("D", 12, 100, "value sizes 15..2049"),
    ("H", 12, 100, "multi-headed attention with 15..65 heads over dot-product heads, bias flags generated"),
]
for _k, _nq, _nt, _doc in _LARGE:
    _req = [15, 16, 17, 63, 64, 65] if _k == "H" else [15, 16, 17, 1023, 1024, 1025, 2049]
    subcheck("C20", "attn_large_" + _k, (lambda tier, _k=_k: _large_case(tier, _k)), _nq, _nt,
             doc=_doc + "; every size inside each case, inputs expanded from a few integers, arguments in generated memory "
                        "layouts; == documented formula in NumPy float64 (+ convexity for the single-head flavours)",
             required_classes=["%s=%d" % (_k, n) for n in _req])(_large_check)


# ------------------------------------------------------------------ a value shared by several queries, masked for only some of them


@st.composite
def _shared_value_case(draw, tier):
    N, Lk, Lq = draw(st.integers(1, 2)), draw(st.integers(2, 5)), draw(st.integers(2, 4))
    Q, D = draw(st.integers(1, 3)), draw(st.integers(1, 2))
    return {
        "N": N, "Lk": Lk, "Lq": Lq, "Q": Q, "D": D,
        "q_vals": draw(_ints(N * Lq * Q, -2 * PQ, 2 * PQ)), "k_vals": draw(_ints(N * Lk * Q, -2 * PQ, 2 * PQ)),
        "v_vals": draw(st.lists(st.integers(-512, 512), min_size=N * Lk * D, max_size=N * Lk * D, unique=True)),
        # per query: how many leading positions it keeps (a causal-style mask that differs between queries)
        "keep": draw(st.lists(st.integers(1, Lk), min_size=N * Lq, max_size=N * Lq)),
        "garbage": draw(st.sampled_from(["inf", "-inf", "nan", 3e38])),
        "multi": draw(st.booleans()), "dtype": draw(st.sampled_from(["float32", "float64"])),
    }


@subcheck("C20", "shared_value_partial_mask", _shared_value_case, 300, 5000,
          doc="transformer layout - key/value (N, Lk, 1, .) shared by Lq queries, mask (N, Lk, Lq) differing per query: a position "
              "kept by some queries and masked by others is overwritten with inf / NaN / 3e38 in the shared value; the outputs of the "
              "queries that mask it must not change (single-head dot-product and multi-headed)",
          required_classes=["position_masked_for_some_queries_only", "multi"])
def _shared_value_check(case):
    import numpy as np
    import torch
    from pydrobert.torch.modules import DotProductSoftAttention, MultiHeadedAttention

    N, Lk, Lq, Q, D, dtype = case["N"], case["Lk"], case["Lq"], case["Q"], case["D"], case["dtype"]
    q = np.array(case["q_vals"], dtype=np.float64).reshape(N, Lq, Q) / PQ
    k = np.array(case["k_vals"], dtype=np.float64).reshape(N, Lk, 1, Q) / PQ
    v = np.array(case["v_vals"], dtype=np.float64).reshape(N, Lk, 1, D) / VQ
    keep = np.array(case["keep"]).reshape(N, 1, Lq)
    m = np.arange(Lk).reshape(1, Lk, 1) < keep                       # (N, Lk, Lq)
    single = DotProductSoftAttention(Q, 1, 0.5)
    classes = [dtype]
    if case["multi"]:
        att = MultiHeadedAttention(Q, Q, D, 1, single, bias_WQ=False, bias_WK=False, bias_WV=False, bias_WC=False)
        with torch.no_grad():
            for name in ("WQ", "WK", "WV", "WC"):
                lin = getattr(att, name)
                lin.weight.copy_(torch.eye(lin.weight.shape[0], lin.weight.shape[1]))
        classes.append("multi")
    else:
        att = single
    att = att.to(getattr(torch, dtype))
    clean = att(_t(q, dtype), _t(k, dtype), _t(v, dtype), _t(m, dtype)).detach().double().numpy()    # (N, Lq, D)
    g = {"inf": np.inf, "-inf": -np.inf, "nan": np.nan}.get(case["garbage"], case["garbage"])
    partial = False
    for n in range(N):
        kept_by = m[n].sum(axis=1)                                   # per position: number of queries keeping it
        for t in range(Lk):
            if 0 < kept_by[t] < Lq:
                partial = True
                v2 = v.copy()
                v2[n, t, 0, :] = g
                out = att(_t(q, dtype), _t(k, dtype), _t(v2, dtype), _t(m, dtype)).detach().double().numpy()
                for i in range(Lq):
                    if not m[n, t, i]:
                        ok = np.allclose(out[n, i], clean[n, i], rtol=1e-5, atol=1e-5 * (1 + np.abs(v).max()), equal_nan=False)
                        require(bool(ok), "output of query %d (batch %d) changed when the value at position %d - masked for this "
                                "query, kept by others - was overwritten with %r" % (i, n, t, case["garbage"]),
                                out[n, i].tolist(), clean[n, i].tolist())
    if partial:
        classes.append("position_masked_for_some_queries_only")
    return Info(nontrivial=partial, classes=classes)
