"""C19 Estimators are unbiased where promised; relaxed distributions are consistent.

Discrete estimators (direct, importance sampling, enumeration) are decided *exactly*: the
proposal's ``sample`` is replaced by a stub that returns every tuple of the (small) sample
space in turn, and the probability-weighted sum of the returned values - and of their autograd
gradients - is compared with the exact expectation and its exact gradient computed in pure
Python (vf/oracles/c19_exact.py). No sampling noise is involved anywhere in this module.
"""
from __future__ import annotations

import itertools
import math

from hypothesis import strategies as st

from ..core import Info, expect_raises, require, subcheck
from .. import fakes
from ..gen import dyadic
from ..oracles import c19_exact as ex

TWO24 = 1 << 24
KINDS = ["bern_joint", "bern_batch", "cat_index", "cat_onehot"]


# ------------------------------------------------------------------ building blocks


def _dt(case):
    import torch

    return torch.float64 if case.get("dtype") == "float64" else torch.float32


def _tol(case, scale, f32=3e-5, f64=1e-9):
    return (f64 if case.get("dtype") == "float64" else f32) * scale


def _nspace(kind, size):
    return len(ex.space_points(kind, size))


def _make_dist(kind, theta):
    import torch

    D = torch.distributions
    if kind == "bern_joint":
        return D.Independent(D.Bernoulli(logits=theta), 1)
    if kind == "bern_batch":
        return D.Bernoulli(logits=theta)
    if kind == "cat_index":
        return D.Categorical(logits=theta)
    return D.OneHotCategorical(logits=theta)


def _points_tensor(kind, size, dtype):
    """(S, *event) tensor holding every point of the sample space in index order."""
    import torch

    pts = ex.space_points(kind, size)
    if kind == "bern_joint":
        return torch.tensor(pts, dtype=dtype)
    if kind == "bern_batch":
        return torch.tensor([p[0] for p in pts], dtype=dtype)
    if kind == "cat_index":
        return torch.tensor([p[0] for p in pts], dtype=torch.long)
    return torch.eye(size, dtype=dtype)


def _sample_for(points, idx_rows, B):
    """idx_rows: list (mc) of point indices, or list (mc) of lists (B) of point indices."""
    import torch

    rows = []
    for r in idx_rows:
        if isinstance(r, int):
            r = [r] * B
        rows.append(torch.stack([points[i] for i in r], 0))
    return torch.stack(rows, 0)  # (mc, B, *event)


def _index_of(kind, size, b):
    """sample tensor (..., *event) -> long index into S of shape (...)."""
    import torch

    if kind == "bern_joint":
        w = torch.tensor([2 ** i for i in range(size)], dtype=b.dtype)
        return (b * w).sum(-1).round().long()
    if kind == "bern_batch":
        return b.round().long()
    if kind == "cat_index":
        return b.long()
    return b.argmax(-1)


def _table_func(tab, kind, size, calls=None):
    """f(b)[m, n] = tab[n, index(b[m, n])]; tab is a (B, S) tensor (possibly requiring grad)."""

    def func(b):
        idx = _index_of(kind, size, b)  # (mc, B)
        if calls is not None:
            calls.append(tuple(idx.shape))
        return tab.unsqueeze(0).expand(idx.shape[0], -1, -1).gather(2, idx.unsqueeze(-1)).squeeze(-1)

    return func


def _point_probs_torch(kind, size, theta):
    """(B, S) probabilities as a differentiable function of theta, written out with elementary ops."""
    import torch

    if kind in ("bern_joint", "bern_batch"):
        th = theta if kind == "bern_joint" else theta.unsqueeze(-1)
        p = torch.sigmoid(th)  # (B, n)
        pts = torch.tensor(ex.space_points(kind, size), dtype=theta.dtype)  # (S, n)
        pr = p.unsqueeze(1) * pts.unsqueeze(0) + (1 - p.unsqueeze(1)) * (1 - pts.unsqueeze(0))  # (B, S, n)
        return pr.prod(-1)
    return torch.softmax(theta, -1)


def _stub_sample(dist, queue, log):
    """Replace dist.sample by a stub popping pre-computed tensors from queue."""

    def sample(sample_shape=()):
        require(len(queue) > 0, "the estimator drew more samples than the oracle scripted", None, None, kind="harness")
        s = queue.pop(0)
        log.append(tuple(int(x) for x in sample_shape))
        return s

    dist.sample = sample


def _logits_strategy(kind, B, size):
    val = st.one_of(dyadic(4, -2, 2), dyadic(4, -2, 2), st.sampled_from([0.0, -3.0, 3.0]))
    if kind == "bern_batch":
        return st.lists(val, min_size=B, max_size=B)
    return st.lists(st.lists(val, min_size=size, max_size=size), min_size=B, max_size=B)


def _table_strategy(B, S, lo=-2, hi=2):
    val = st.one_of(dyadic(4, lo, hi), st.sampled_from([0.0, 1.0]))
    return st.lists(st.lists(val, min_size=S, max_size=S), min_size=B, max_size=B)


@st.composite
def _space(draw, kinds=KINDS):
    kind = draw(st.sampled_from(kinds))
    B = draw(st.integers(1, 2))
    if kind == "bern_joint":
        size = draw(st.integers(1, 3))
    elif kind == "bern_batch":
        size = 1
        B = draw(st.integers(1, 3))
    else:
        size = draw(st.integers(2, 4))
    return kind, B, size


def _row(case, b):
    return case["logits"][b]


def _nonuniform(case):
    flat = list(itertools.chain.from_iterable(x if isinstance(x, list) else [x] for x in case["logits"]))
    if case["kind"].startswith("cat"):
        return any(len(set(r)) > 1 for r in case["logits"])
    return any(x != 0 for x in flat)


def _nonconstant(tab):
    return any(len(set(str(x) for x in r)) > 1 for r in tab)


def _lin(case, tab):
    """Values of F in linear space (tables are log F when is_log)."""
    if case["is_log"]:
        return [[math.exp(x) if x != "-inf" else 0.0 for x in r] for r in tab]
    return [[float(x) for x in r] for r in tab]


def _tab_tensor(tab, dtype):
    import torch

    return torch.tensor([[float("-inf") if x == "-inf" else float(x) for x in r] for r in tab], dtype=dtype)


def _compare(case, what, got, exp, scale):
    tol = _tol(case, scale)
    require(abs(got - exp) <= tol, what, got, exp)


# ------------------------------------------------------------------ A. DirectEstimator


def _direct_strategy(tier):
    @st.composite
    def build(draw):
        kind, B, size = draw(_space())
        S = _nspace(kind, size)
        is_log = draw(st.booleans())
        case = {"kind": kind, "B": B, "size": size, "is_log": is_log,
                "mc": draw(st.sampled_from([1, 2, 2] if S <= 8 else [1, 2])),
                "dtype": draw(st.sampled_from(["float32", "float32", "float64"])),
                "logits": draw(_logits_strategy(kind, B, size)),
                "f": draw(_table_strategy(B, S))}
        if tier == "thorough" and S <= 4 and draw(st.integers(0, 4)) == 0:
            case["mc"] = 3
        cvk = draw(st.sampled_from(["none", "table", "table", "const"]))
        if is_log and draw(st.integers(0, 3)) == 0:
            # f = 0 at some points (log f = -inf), as in the repository's own LogFunc
            zero = draw(st.lists(st.lists(st.booleans(), min_size=S, max_size=S), min_size=B, max_size=B))
            case["f"] = [["-inf" if z else x for x, z in zip(r, zr)] for r, zr in zip(case["f"], zero)]
            cvk = "none"
        if cvk == "none":
            case["cv"] = None
        elif is_log:
            # log space: c <= f pointwise keeps every control-variated sample mean positive
            # (its logarithm is what the estimator returns)
            off = draw(_table_strategy(B, S, 0, 2)) if cvk == "table" else [[draw(dyadic(4, 0, 2))] * S for _ in range(B)]
            if cvk == "const":
                lo = [min(r) for r in case["f"]]
                case["cv"] = [[lo[b] - abs(off[b][0])] * S for b in range(B)]
            else:
                case["cv"] = [[case["f"][b][s] - abs(off[b][s]) for s in range(S)] for b in range(B)]
        else:
            case["cv"] = draw(_table_strategy(B, S)) if cvk == "table" else [[draw(dyadic(4, -2, 2))] * S for _ in range(B)]
        return case

    return build()


def _exact(case, tab_lin):
    kind, B, size = case["kind"], case["B"], case["size"]
    E = [ex.expectation(kind, size, _row(case, b), tab_lin[b]) for b in range(B)]
    G = [ex.expectation_grad(kind, size, _row(case, b), tab_lin[b]) for b in range(B)]
    P = [ex.point_probs(kind, size, _row(case, b)) for b in range(B)]
    return E, G, P


def _flat(x):
    return x if isinstance(x, list) else [x]


def _accumulate(case, run_one, nprop_params):
    """Probability-weighted sums of value and gradients over all mc-tuples of the sample space.

    run_one(tuple) -> (value tensor (B,), [grad tensors...]); weights are products of the
    *proposal's* point probabilities of each batch element."""
    kind, B, size = case["kind"], case["B"], case["size"]
    S = _nspace(kind, size)
    Q = [ex.point_probs(kind, size, case[nprop_params][b]) for b in range(B)]
    Ev = [0.0] * B
    Eg = None
    for tup in ex.tuples(S, case["mc"]):
        val, grads = run_one(tup)
        # the statement is about values: a leading singleton dimension (DirectEstimator in log space
        # returns (1,) + batch_shape although the documentation says batch_shape) is tolerated here
        require(val.numel() == B, "estimate must have one value per batch element", list(val.shape), [B])
        val = val.reshape(-1)
        for b in range(B):
            w = 1.0
            for s in tup:
                w *= Q[b][s]
            Ev[b] += w * float(val[b])
            if Eg is None:
                Eg = [[None] * B for _ in grads]
            for k, g in enumerate(grads):
                row = [float(x) for x in g[b].reshape(-1)]
                if Eg[k][b] is None:
                    Eg[k][b] = [0.0] * len(row)
                for i, x in enumerate(row):
                    Eg[k][b][i] += w * x
    return Ev, Eg


def _check_against_exact(case, name, Ev, Eg_theta, Eg_tab, tab_lin, scale, target="logits", const=1.0):
    kind, B, size = case["kind"], case["B"], case["size"]
    E = [const * ex.expectation(kind, size, case[target][b], tab_lin[b]) for b in range(B)]
    for b in range(B):
        _compare(case, "%s: mean of the estimate over the whole sample space != exact expectation (batch %d)" % (name, b),
                 Ev[b], E[b], scale)
    for b in range(B):
        g = [const * x for x in _flat(ex.expectation_grad(kind, size, case[target][b], tab_lin[b]))]
        for i, x in enumerate(g):
            _compare(case, "%s: mean of the gradient w.r.t. parameter %d of batch %d != exact gradient" % (name, i, b),
                     Eg_theta[b][i], x, scale)
    if Eg_tab is not None:
        for b in range(B):
            P = ex.point_probs(kind, size, case[target][b])
            for s in range(len(P)):
                # d E / d tab[b][s] = P(s)  (times F(s) when the table holds log F)
                e = const * P[s] * (tab_lin[b][s] if case["is_log"] else 1.0)
                _compare(case, "%s: mean of the gradient w.r.t. f's table entry %d of batch %d != exact" % (name, s, b),
                         Eg_tab[b][s], e, scale)


@subcheck("C19", "direct_exact", _direct_strategy, 500, 12000,
          doc="DirectEstimator over 1-3 joint Bernoulli variables / a Bernoulli batch / one categorical (index or one-hot), f and control variate = generated tables, differentiable cv mean, mc 1-2 (3), log and linear space: sum over all sample tuples of P(tuple)*estimate and of P(tuple)*grad == exact expectation and exact gradient (pure Python)",
          required_classes=["cv_nonconstant", "mc_2", "is_log", "no_cv", "kind_bern_joint", "kind_cat_index", "kind_cat_onehot", "kind_bern_batch"])
def _direct_check(case):
    import torch
    from pydrobert.torch.estimators import DirectEstimator

    kind, B, size, mc, is_log = case["kind"], case["B"], case["size"], case["mc"], case["is_log"]
    dt = _dt(case)
    theta = torch.tensor(case["logits"], dtype=dt, requires_grad=True)
    tab = _tab_tensor(case["f"], dt).requires_grad_()
    points = _points_tensor(kind, size, dt)
    dist = _make_dist(kind, theta)
    func = _table_func(tab, kind, size)
    ctab = None if case["cv"] is None else _tab_tensor(case["cv"], dt)
    cvf = None if ctab is None else _table_func(ctab, kind, size)
    queue, log = [], []
    _stub_sample(dist, queue, log)

    def run_one(tup):
        queue.append(_sample_for(points, list(tup), B))
        cv_mean = None
        if ctab is not None:
            P = _point_probs_torch(kind, size, theta)
            cv_mean = (P * ctab.exp()).sum(-1).log() if is_log else (P * ctab).sum(-1)
        est = DirectEstimator(dist, func, mc, cvf, cv_mean, is_log)
        v = est()
        require(log[-1] == (mc,), "estimator must request mc_samples samples", log[-1], [mc])
        val = v.exp() if is_log else v
        grads = torch.autograd.grad(val.sum(), [theta, tab], allow_unused=True, retain_graph=True)
        grads = [torch.zeros_like(p) if g is None else g for g, p in zip(grads, (theta, tab))]
        return val.detach(), grads

    Ev, Eg = _accumulate(case, run_one, "logits")
    tab_lin = _lin(case, case["f"])
    scale = 1.0 + max(abs(x) for r in tab_lin for x in r)
    if case["cv"] is not None:
        scale += max(abs(x) for r in _lin(case, case["cv"]) for x in r)
    _check_against_exact(case, "DirectEstimator", Ev, Eg[0], Eg[1], tab_lin, scale)
    classes = ["kind_" + kind, "mc_%d" % mc, "is_log" if is_log else "linear", case.get("dtype", "float32")]
    if any(x == "-inf" for r in case["f"] for x in r):
        classes.append("f_zero_somewhere")
    if case["cv"] is None:
        classes.append("no_cv")
    elif _nonconstant(case["cv"]):
        classes.append("cv_nonconstant")
    else:
        classes.append("cv_constant")
    return Info(nontrivial=_nonconstant(case["f"]) and _nonuniform(case), classes=classes)


# ------------------------------------------------------------------ B. ImportanceSamplingEstimator


def _is_strategy(tier):
    @st.composite
    def build(draw):
        kind, B, size = draw(_space())
        S = _nspace(kind, size)
        case = {"kind": kind, "B": B, "size": size, "is_log": draw(st.booleans()),
                "mc": draw(st.sampled_from([1, 2, 2] if S <= 8 else [1, 2])),
                "dtype": draw(st.sampled_from(["float32", "float32", "float64"])),
                "logits": draw(_logits_strategy(kind, B, size)),
                "q_logits": draw(_logits_strategy(kind, B, size)),
                "f": draw(_table_strategy(B, S)),
                "log_scale": draw(st.sampled_from([0.0, 0.0, -1.0, 0.5]))}
        # the target itself used as the proposal (one and the same distribution object)
        case["same_object"] = draw(st.sampled_from([False, False, False, True]))
        if case["same_object"]:
            case["q_logits"] = case["logits"]
        return case

    return build()


@subcheck("C19", "importance_exact", _is_strategy, 500, 12000,
          doc="ImportanceSamplingEstimator (not self-normalised), proposal Q != target P (both generated, Q dominating), optionally unnormalised P: sum over all Q-tuples of Q(tuple)*estimate and *grad == sum_b P(b) f(b) and its exact gradient w.r.t. P's parameters; gradient w.r.t. Q's parameters is 0 in every call (documented)",
          required_classes=["proposal_differs", "mc_2", "is_log", "unnormalised", "target_object_is_proposal"])
def _is_check(case):
    import torch
    from pydrobert.torch.estimators import ImportanceSamplingEstimator

    kind, B, size, mc, is_log = case["kind"], case["B"], case["size"], case["mc"], case["is_log"]
    dt = _dt(case)
    theta = torch.tensor(case["logits"], dtype=dt, requires_grad=True)
    phi = torch.tensor(case["q_logits"], dtype=dt, requires_grad=True)
    tab = _tab_tensor(case["f"], dt).requires_grad_()
    points = _points_tensor(kind, size, dt)
    target = _make_dist(kind, theta)
    same = bool(case.get("same_object"))
    proposal = target if same else _make_dist(kind, phi)
    k = case["log_scale"]

    class Shifted:
        def log_prob(self, value):
            return target.log_prob(value) + k

    density = target if k == 0.0 else Shifted()
    func = _table_func(tab, kind, size)
    queue, log = [], []
    _stub_sample(proposal, queue, log)

    def run_one(tup):
        queue.append(_sample_for(points, list(tup), B))
        est = ImportanceSamplingEstimator(proposal, func, mc, density, False, is_log)
        v = est()
        val = v.exp() if is_log else v
        grads = torch.autograd.grad(val.sum(), [theta, tab, phi], allow_unused=True, retain_graph=True)
        gphi = None if same else grads[2]
        if gphi is not None:
            require(bool((gphi == 0).all()), "gradient w.r.t. the proposal's parameters must be 0", gphi.tolist(), 0)
        grads = [torch.zeros_like(p) if g is None else g for g, p in zip(grads[:2], (theta, tab))]
        return val.detach(), grads

    Ev, Eg = _accumulate(case, run_one, "q_logits")
    tab_lin = _lin(case, case["f"])
    # importance weights P/Q can be large: the float error scales with them
    ratio = 1.0
    for b in range(B):
        P = ex.point_probs(kind, size, case["logits"][b])
        Q = ex.point_probs(kind, size, case["q_logits"][b])
        ratio = max(ratio, max(p / q for p, q in zip(P, Q)))
    scale = (1.0 + max(abs(x) for r in tab_lin for x in r)) * ratio * math.exp(max(k, 0.0))
    _check_against_exact(case, "ImportanceSamplingEstimator", Ev, Eg[0], Eg[1], tab_lin, scale, const=math.exp(k))
    classes = ["kind_" + kind, "mc_%d" % mc, "is_log" if is_log else "linear", case.get("dtype", "float32")]
    if case["logits"] != case["q_logits"]:
        classes.append("proposal_differs")
    if k != 0.0:
        classes.append("unnormalised")
    if same:
        classes.append("target_object_is_proposal")
    return Info(nontrivial=_nonconstant(case["f"]) and _nonuniform(case) and (same or case["logits"] != case["q_logits"]), classes=classes)


# ------------------------------------------------------------------ C. EnumerateEstimator


def _enum_strategy(tier):
    @st.composite
    def build(draw):
        if draw(st.integers(0, 3)) == 0:
            total = draw(st.integers(0, 4))
            given = draw(st.integers(0, total))
            out = draw(st.sampled_from([total, total, total + 1])) or 1
            B = draw(st.integers(1, 2))
            return {"kind": "srswor", "B": B, "total": total, "given": given, "out": out,
                    "batched": draw(st.booleans()), "is_log": draw(st.booleans()),
                    "dtype": "float32", "f": draw(_table_strategy(B, 2 ** out))}
        kind, B, size = draw(_space(["bern_batch", "cat_index", "cat_onehot"]))
        S = _nspace(kind, size)
        case = {"kind": kind, "B": B, "size": size, "is_log": draw(st.booleans()), "mc": 1,
                "dtype": draw(st.sampled_from(["float32", "float64"])),
                "logits": draw(_logits_strategy(kind, B, size)), "f": draw(_table_strategy(B, S))}
        if case["is_log"] and draw(st.integers(0, 3)) == 0:
            # f = 0 at some (not all) points of each row: the logarithm of a zero estimate has no gradient
            zero = draw(st.lists(st.lists(st.booleans(), min_size=S, max_size=S), min_size=B, max_size=B))
            case["f"] = [["-inf" if (z and i) else x for i, (x, z) in enumerate(zip(r, zr))] for r, zr in zip(case["f"], zero)]
        return case

    return build()


@subcheck("C19", "enumerate_exact", _enum_strategy, 400, 8000,
          doc="EnumerateEstimator over Bernoulli batches, categoricals (index / one-hot) and fixed-cardinality vectors with f = generated table: value and gradients (parameters, f's table) == exact expectation / gradient",
          required_classes=["kind_srswor", "kind_bern_batch", "kind_cat_index", "kind_cat_onehot", "is_log"])
def _enum_check(case):
    import torch
    from pydrobert.torch.estimators import EnumerateEstimator

    kind, B, is_log = case["kind"], case["B"], case["is_log"]
    dt = _dt(case)
    tab = _tab_tensor(case["f"], dt).requires_grad_()
    tab_lin = _lin(case, case["f"])
    scale = 1.0 + max(abs(x) for r in tab_lin for x in r)
    classes = ["kind_" + kind, "is_log" if is_log else "linear"]
    if kind == "srswor":
        from pydrobert.torch.distributions import SimpleRandomSamplingWithoutReplacement as SRS

        T, L, out = case["total"], case["given"], case["out"]
        if case["batched"]:
            dist = SRS(torch.tensor([L] * B), torch.tensor([T] * B), out)
        else:
            dist = SRS(L, T, out)
        func = _table_func(tab if case["batched"] else tab[:1], "bern_joint", out)
        est = EnumerateEstimator(dist, (lambda b: func(b.unsqueeze(1)).squeeze(1)) if not case["batched"] else func, is_log)
        v = est()
        nb = B if case["batched"] else 1
        require(tuple(v.shape) == ((B,) if case["batched"] else ()), "estimate must have the proposal's batch shape", list(v.shape), None)
        val = v.exp() if is_log else v
        (gtab,) = torch.autograd.grad(val.sum(), [tab], allow_unused=True)
        gtab = torch.zeros_like(tab) if gtab is None else gtab
        combos = [c for c in itertools.combinations(range(T), L)]
        idxs = [sum(2 ** i for i in c) for c in combos]
        for b in range(nb):
            e = sum(tab_lin[b][i] for i in idxs) / len(idxs)
            got = float(val.reshape(-1)[b])
            _compare(case, "EnumerateEstimator over fixed-cardinality vectors (total=%d, given=%d): value" % (T, L), got, e, scale)
            for s in range(2 ** out):
                eg = (1.0 / len(idxs)) * (tab_lin[b][s] if is_log else 1.0) if s in idxs else 0.0
                _compare(case, "EnumerateEstimator over fixed-cardinality vectors: gradient w.r.t. table entry %d" % s,
                         float(gtab[b][s]), eg, scale)
        return Info(nontrivial=_nonconstant(case["f"]) and len(idxs) > 1, classes=classes + ["out_gt_total"] if out > T else classes)
    size = case["size"]
    theta = torch.tensor(case["logits"], dtype=dt, requires_grad=True)
    dist = _make_dist(kind, theta)
    func = _table_func(tab, kind, size)
    v = EnumerateEstimator(dist, func, is_log)()
    require(tuple(v.shape) == (B,), "estimate must have the proposal's batch shape", list(v.shape), [B])
    val = v.exp() if is_log else v
    gth, gtab = torch.autograd.grad(val.sum(), [theta, tab], allow_unused=True)
    gth = torch.zeros_like(theta) if gth is None else gth  # no path to the parameters = zero gradient
    gtab = torch.zeros_like(tab) if gtab is None else gtab
    Ev = [float(x) for x in val]
    Eg = [[float(x) for x in gth[b].reshape(-1)] for b in range(B)]
    Et = [[float(x) for x in gtab[b]] for b in range(B)]
    _check_against_exact(case, "EnumerateEstimator", Ev, Eg, Et, tab_lin, scale)
    return Info(nontrivial=_nonconstant(case["f"]) and _nonuniform(case), classes=classes + [case["dtype"]])


# ------------------------------------------------------------------ D. relaxation-based estimators (quadrature)

K = 64  # probabilities are multiples of 1/K, so the threshold u = 1 - p is a cell boundary of every grid below
KR = 256  # cells per uniform variable for the two-dimensional RELAX grid (a multiple of K)


def _grid_rand(plan):
    """torch.rand / rand_like replacements: the i-th call returns plan[i](shape, dtype)."""
    import torch

    state = {"n": 0}

    def take(shape, dtype):
        require(state["n"] < len(plan), "more uniform draws than the quadrature plan provides", state["n"] + 1, len(plan), kind="harness")
        out = plan[state["n"]](tuple(shape), dtype)
        state["n"] += 1
        return out

    def rand(*size, **kw):
        if len(size) == 1 and isinstance(size[0], (tuple, list, torch.Size)):
            size = tuple(size[0])
        return take(size, kw.get("dtype") or torch.get_default_dtype())

    def rand_like(x, **kw):
        return take(x.shape, kw.get("dtype") or x.dtype)

    return rand, rand_like, state


def _midpoints(shape, dtype, which, K_):
    """(mc, B) tensor whose row m holds the midpoint (i + 1/2)/K with i = m // K ('outer'),
    m % K ('inner') or m ('single')."""
    import torch

    mc = shape[0]
    m = torch.arange(mc)
    i = {"outer": m // K_, "inner": m % K_, "single": m}[which]
    col = ((i.to(torch.float64) + 0.5) / K_).to(dtype)
    return col.view(mc, *([1] * (len(shape) - 1))).expand(shape).contiguous()


def _poly(h):
    return lambda x: h[0] + h[1] * x + h[2] * x * x


def _relaxed_strategy(tier):
    @st.composite
    def build(draw):
        B = draw(st.integers(1, 3))
        est = draw(st.sampled_from(["st", "relax", "relax", "rebar"]))
        is_log = draw(st.booleans())
        case = {"B": B, "estimator": est, "is_log": is_log,
                "dtype": draw(st.sampled_from(["float32", "float64"])),
                "param": draw(st.sampled_from(["probs", "logits"])),
                "j": draw(st.lists(st.one_of(st.integers(1, K - 1), st.sampled_from([1, K // 2, K - 1])), min_size=B, max_size=B)),
                "f": draw(_table_strategy(B, 2)),
                # control variate c(z) = eta * h(sigmoid(z / temp)), h(x) = h0 + h1 x + h2 x^2
                "h": [draw(dyadic(4, -1, 1)), draw(dyadic(4, -2, 2)), draw(dyadic(4, -1, 1))],
                "eta": draw(st.sampled_from([1.0, 0.5, -1.0, 2.0])),
                "temp": draw(st.sampled_from([1.0, 0.5]))}
        return case

    return build()


@subcheck("C19", "relaxed_quadrature", _relaxed_strategy, 250, 5000,
          doc="StraightThroughEstimator and RelaxEstimator (own control variate and the REBAR module) on LogisticBernoulli with p = j/64: the uniforms are replaced by the 64-point midpoint grid (256x256 for RELAX: relaxed x conditional draw) laid out along the Monte-Carlo dimension; returned mean == exact expectation within twice the midpoint-rule bound sum max|g''|/(24 K^2) (g'' bounded numerically in float64) + float noise",
          required_classes=["est_st", "est_relax", "est_rebar", "is_log", "p_extreme"])
def _relaxed_check(case):
    import torch
    from pydrobert.torch.distributions import LogisticBernoulli
    from pydrobert.torch.estimators import RelaxEstimator, StraightThroughEstimator
    from pydrobert.torch.modules import LogisticBernoulliRebarControlVariate

    B, is_log, which = case["B"], case["is_log"], case["estimator"]
    dt = _dt(case)
    ps = [j / K for j in case["j"]]
    if case["param"] == "probs":
        dist = LogisticBernoulli(probs=torch.tensor(ps, dtype=dt))
    else:
        dist = LogisticBernoulli(logits=torch.tensor([math.log(p) - math.log1p(-p) for p in ps], dtype=torch.float64).to(dt))
    tab = _tab_tensor(case["f"], dt)
    tab_lin = _lin(case, case["f"])
    func = _table_func(tab, "bern_batch", 1)
    exact = [(1 - ps[b]) * tab_lin[b][0] + ps[b] * tab_lin[b][1] for b in range(B)]
    scale = 1.0 + max(abs(x) for r in tab_lin for x in r)
    classes = ["est_" + which, "is_log" if is_log else "linear", case["dtype"], "param_" + case["param"]]
    if any(j in (1, K - 1) for j in case["j"]):
        classes.append("p_extreme")
    if which == "st":
        rand, rand_like, state = _grid_rand([lambda s, d: _midpoints(s, d, "single", K)])
        with fakes.patched(torch, rand=rand, rand_like=rand_like):
            v = StraightThroughEstimator(dist, func, K, is_log)()
        require(state["n"] == 1, "straight-through estimator must draw one block of uniforms", state["n"], 1)
        val = (v.exp() if is_log else v).reshape(-1)
        for b in range(B):
            _compare(case, "StraightThroughEstimator: mean over the quadrature grid != exact expectation (p=%d/64)" % case["j"][b],
                     float(val[b]), exact[b], scale)
        return Info(nontrivial=_nonconstant(case["f"]), classes=classes)
    h, eta, temp = _poly(case["h"]), case["eta"], case["temp"]

    def c_lin(z):  # value of the control variate in linear space, pure Python
        x = eta * h(ex.sigmoid(z / temp))
        return math.exp(x) if is_log else x

    if which == "rebar":
        # the module multiplies eta * func(sigmoid(z / temp)); func here is the polynomial h
        cv = LogisticBernoulliRebarControlVariate(lambda x: _poly(case["h"])(x), start_temp=temp, start_eta=eta).to(dt)
    else:
        def cv(z):
            return eta * _poly(case["h"])(torch.sigmoid(z / temp))

    plan = [lambda s, d: _midpoints(s, d, "outer", KR), lambda s, d: _midpoints(s, d, "inner", KR)]
    rand, rand_like, state = _grid_rand(plan)
    with fakes.patched(torch, rand=rand, rand_like=rand_like):
        v = RelaxEstimator(dist, func, KR * KR, cv, is_log=is_log)()
    require(state["n"] == 2, "RELAX must draw the relaxed and the conditional uniforms once each", state["n"], 2)
    val = (v.exp() if is_log else v).reshape(-1)
    cmax = 0.0
    for b in range(B):
        p = ps[b]
        theta = math.log(p) - math.log1p(-p)
        g = lambda u: c_lin(ex.logistic_z(theta, u))  # noqa: E731
        g1 = lambda u: c_lin(ex.logistic_zcond(p, 1, u))  # noqa: E731
        g0 = lambda u: c_lin(ex.logistic_zcond(p, 0, u))  # noqa: E731
        bound = (ex.second_derivative_bound(g) + p * ex.second_derivative_bound(g1)
                 + (1 - p) * ex.second_derivative_bound(g0)) / (24.0 * KR * KR)
        cmax = max(abs(g(0.001)), abs(g(0.5)), abs(g(0.999)), 1.0)
        tol = 2.0 * bound + _tol(case, scale + cmax, f32=2e-4, f64=1e-8)
        require(abs(float(val[b]) - exact[b]) <= tol,
                "RelaxEstimator (%s): mean over the quadrature grid != exact expectation (p=%d/64, tolerance %.3g)" % (which, case["j"][b], tol),
                float(val[b]), exact[b])
    return Info(nontrivial=_nonconstant(case["f"]) and any(case["h"][1:]), classes=classes)


def _gumbel_strategy(tier):
    return st.fixed_dictionaries({
        "logits": st.lists(dyadic(4, -2, 2), min_size=2, max_size=2),
        "f": st.lists(dyadic(4, -2, 2), min_size=2, max_size=2),
        "is_log": st.booleans(),
        "dtype": st.sampled_from(["float32", "float64"]),
    })


@subcheck("C19", "gumbel_st_coarse", _gumbel_strategy, 150, 2000,
          doc="StraightThroughEstimator on GumbelOneHotCategorical with 2 categories, uniforms on the 64x64 midpoint grid: |mean - exact| <= (2K-1)/K^2 * |f0 - f1| (the decision boundary u1 = u2^r is monotone, so it crosses at most 2K-1 cells)",
          required_classes=["nonuniform"])
def _gumbel_check(case):
    import torch
    from pydrobert.torch.distributions import GumbelOneHotCategorical
    from pydrobert.torch.estimators import StraightThroughEstimator

    dt = _dt(case)
    is_log = case["is_log"]
    dist = GumbelOneHotCategorical(logits=torch.tensor(case["logits"], dtype=dt))
    tab = _tab_tensor([case["f"]], dt)
    f_lin = _lin(case, [case["f"]])[0]

    def func(b):  # (mc, 2) one-hot (straight-through: values equal the one-hot exactly in the forward pass)
        return tab[0][b.argmax(-1)]

    def grid(shape, dtype):
        mc = shape[0]
        m = torch.arange(mc)
        u = torch.stack([(m // K).to(torch.float64), (m % K).to(torch.float64)], -1)
        return ((u + 0.5) / K).to(dtype).view(shape)

    rand, rand_like, state = _grid_rand([grid])
    with fakes.patched(torch, rand=rand, rand_like=rand_like):
        v = StraightThroughEstimator(dist, func, K * K, is_log)()
    val = float((v.exp() if is_log else v).reshape(-1)[0])
    p = ex.softmax(case["logits"])
    exact = p[0] * f_lin[0] + p[1] * f_lin[1]
    tol = (2 * K - 1) / (K * K) * abs(f_lin[0] - f_lin[1]) + _tol(case, 1.0 + max(abs(x) for x in f_lin))
    require(abs(val - exact) <= tol, "StraightThroughEstimator on a 2-category Gumbel relaxation: grid mean too far from the exact expectation (tolerance %.3g)" % tol,
            val, exact)
    classes = ["is_log" if is_log else "linear"]
    if case["logits"][0] != case["logits"][1]:
        classes.append("nonuniform")
    return Info(nontrivial=case["f"][0] != case["f"][1] and case["logits"][0] != case["logits"][1], classes=classes)


# ------------------------------------------------------------------ E. independent Metropolis-Hastings


def _imh_strategy(tier):
    @st.composite
    def build(draw):
        kind, B, size = draw(_space())
        S = _nspace(kind, size)
        mc = draw(st.integers(1, 6))
        burn = draw(st.integers(0, mc - 1))
        init = draw(st.sampled_from(["drawn", "given", "given_with_leading_1"]))
        ndraws = mc + (1 if init == "drawn" else 0)
        case = {"kind": kind, "B": B, "size": size, "mc": mc, "burn_in": burn, "init": init,
                "is_log": draw(st.booleans()), "dtype": "float32",
                "logits": draw(_logits_strategy(kind, B, size)),
                "f": draw(_table_strategy(B, S)),
                "proposals": draw(st.lists(st.lists(st.integers(0, S - 1), min_size=B, max_size=B), min_size=ndraws, max_size=ndraws)),
                "initial": draw(st.lists(st.integers(0, S - 1), min_size=B, max_size=B)),
                "uniforms": draw(st.lists(st.one_of(st.sampled_from([0, 1, TWO24 - 1, TWO24 // 2]), st.integers(0, TWO24 - 1)), min_size=1, max_size=8)),
                "same_object": draw(st.booleans())}
        return case

    return build()


@subcheck("C19", "imh_accepts_all", _imh_strategy, 500, 10000,
          doc="IndependentMetropolisHastingsEstimator with proposal == target (same object or equal parameters), scripted proposals and scripted uniforms of any value in [0, 1): result == plain average (log-mean-exp in log space) of f over the post-burn-in proposals; initial sample drawn or handed over (with / without leading singleton)",
          required_classes=["init_drawn", "init_given", "burn_in_positive", "is_log", "uniform_zero_or_max"])
def _imh_check(case):
    import torch
    from pydrobert.torch.estimators import IndependentMetropolisHastingsEstimator as IMH

    kind, B, size, mc, burn, is_log = case["kind"], case["B"], case["size"], case["mc"], case["burn_in"], case["is_log"]
    dt = _dt(case)
    theta = torch.tensor(case["logits"], dtype=dt)
    proposal = _make_dist(kind, theta)
    density = proposal if case["same_object"] else _make_dist(kind, theta.clone())
    tab = _tab_tensor(case["f"], dt)
    func = _table_func(tab, kind, size)
    points = _points_tensor(kind, size, dt)
    queue, log = [], []
    for row in case["proposals"]:
        queue.append(_sample_for(points, [row], B))
    _stub_sample(proposal, queue, log)
    kwargs = {}
    if case["init"] != "drawn":
        init = _sample_for(points, [case["initial"]], B)
        kwargs["initial_sample"] = init if case["init"] == "given_with_leading_1" else init[0]
    est = IMH(proposal, func, mc, density, burn_in=burn, is_log=is_log, **kwargs)
    with fakes.scripted_uniform([k / TWO24 for k in case["uniforms"]]):
        v = est()
    require(not queue, "estimator did not draw the expected number of proposals", len(case["proposals"]) - len(queue), len(case["proposals"]))
    used = case["proposals"][1:] if case["init"] == "drawn" else case["proposals"]
    kept = used[burn:]
    v = v.reshape(-1)
    require(v.numel() == B, "estimate must have one value per batch element", list(v.shape), [B])
    for b in range(B):
        vals = [case["f"][b][row[b]] for row in kept]
        if is_log:
            e = math.log(sum(math.exp(x) for x in vals) / len(vals))
        else:
            e = sum(vals) / len(vals)
        require(abs(float(v[b]) - e) <= 1e-5 * (1 + abs(e)),
                "IMH with proposal == target: result is not the plain average of f over the post-burn-in proposals (batch %d)" % b,
                float(v[b]), e)
    classes = ["init_drawn" if case["init"] == "drawn" else "init_given", "is_log" if is_log else "linear", "kind_" + kind]
    if burn:
        classes.append("burn_in_positive")
    if any(k in (0, TWO24 - 1) for k in case["uniforms"][:mc]):
        classes.append("uniform_zero_or_max")
    distinct = len({tuple(r) for r in used}) > 1
    return Info(nontrivial=distinct and _nonconstant(case["f"]), classes=classes)


# ------------------------------------------------------------------ F. relaxed distributions: identities


def _uniform_k():
    return st.one_of(st.sampled_from([0, 1, TWO24 // 2, TWO24 - 1]), st.integers(0, TWO24 - 1))


def _relaxed_dist_strategy(tier):
    @st.composite
    def build(draw):
        which = draw(st.sampled_from(["bernoulli", "categorical"]))
        B = draw(st.integers(1, 3))
        dtype = draw(st.sampled_from(["float32", "float64"]))
        param = draw(st.sampled_from(["logits", "probs"]))
        if which == "bernoulli":
            if param == "logits":
                params = draw(st.lists(st.one_of(dyadic(4, -3, 3), st.sampled_from([-8.0, 8.0, 0.0])), min_size=B, max_size=B))
            else:
                params = draw(st.lists(st.one_of(dyadic(64, 1 / 64, 63 / 64), st.sampled_from([2.0 ** -10, 1 - 2.0 ** -10])), min_size=B, max_size=B))
            n = B
            V = 1
        else:
            V = draw(st.integers(2, 4))
            if param == "logits":
                params = draw(st.lists(st.lists(dyadic(4, -3, 3), min_size=V, max_size=V), min_size=B, max_size=B))
            else:
                params = draw(st.lists(st.lists(st.integers(1, 16), min_size=V, max_size=V), min_size=B, max_size=B))
            n = B * V
        return {"which": which, "B": B, "V": V, "dtype": dtype, "param": param, "params": params,
                "mc": draw(st.integers(1, 4)),
                "u": draw(st.lists(_uniform_k(), min_size=1, max_size=4 * n)),
                "v": draw(st.lists(_uniform_k(), min_size=1, max_size=4 * n)),
                "validate": draw(st.booleans())}

    return build()


def _relaxed_dist(case):
    import torch
    from pydrobert.torch.distributions import GumbelOneHotCategorical, LogisticBernoulli

    dt = _dt(case)
    t = torch.tensor(case["params"], dtype=dt)
    kw = {"validate_args": case.get("validate", False)}
    if case["which"] == "bernoulli":
        d = LogisticBernoulli(**{case["param"]: t}, **kw)
        probs = [ex.sigmoid(x) for x in case["params"]] if case["param"] == "logits" else list(case["params"])
    else:
        d = GumbelOneHotCategorical(**{case["param"]: t}, **kw)
        if case["param"] == "logits":
            probs = [ex.softmax(r) for r in case["params"]]
        else:
            probs = [[x / sum(r) for x in r] for r in case["params"]]
    return d, probs


@subcheck("C19", "relaxed_identities", _relaxed_dist_strategy, 800, 20000,
          doc="LogisticBernoulli / GumbelOneHotCategorical, all parameterisations, uniforms scripted as k/2^24 incl. 0 and 1-2^-24: threshold(csample(b)) == b for every b; log_prob(z) == tlog_prob(H(z)) + clog_prob(z, H(z)); clog_prob(z, b) == -inf iff H(z) != b; tlog_prob == exact log P(b); samples lie in the (thresholded) support",
          required_classes=["bernoulli", "categorical", "boundary_uniform", "float32", "float64"])
def _relaxed_dist_check(case):
    import torch

    d, probs = _relaxed_dist(case)
    dt = _dt(case)
    B, V, mc = case["B"], case["V"], case["mc"]
    bern = case["which"] == "bernoulli"
    f32 = case["dtype"] == "float32"
    with fakes.scripted_uniform([k / TWO24 for k in case["u"]]):
        z = d.rsample([mc])
    want = (mc, B) if bern else (mc, B, V)
    require(tuple(z.shape) == want, "rsample shape", list(z.shape), list(want))
    require(bool(torch.isfinite(z).all()), "relaxed sample not finite", z.tolist(), None)
    require(bool(d.support.check(z).all()), "relaxed sample outside the distribution's support", z.tolist(), None)
    b = d.threshold(z)
    require(bool(d.thresholded_support.check(b).all()) if not bern else bool(((b == 0) | (b == 1)).all()),
            "thresholded sample outside the thresholded support", b.tolist(), None)
    # all discrete values
    if bern:
        all_b = [torch.full((mc, B), float(x), dtype=dt) for x in (0, 1)]
    else:
        all_b = [torch.eye(V, dtype=dt)[k].expand(mc, B, V).contiguous() for k in range(V)]
    # tlog_prob against exact probabilities
    for bi, bb in enumerate(all_b):
        lp = d.tlog_prob(bb)
        require(tuple(lp.shape) == (mc, B), "tlog_prob shape", list(lp.shape), [mc, B])
        for n in range(B):
            p = (probs[n] if bi else 1 - probs[n]) if bern else probs[n][bi]
            e = math.log(p)
            require(abs(float(lp[0, n]) - e) <= (2e-5 if f32 else 1e-9) * (1 + abs(e)), "tlog_prob != log P(b)", float(lp[0, n]), e)
    # conditional samples threshold back to the conditioning value
    zconds = []
    for bb in all_b:
        with fakes.scripted_uniform([k / TWO24 for k in case["v"]]):
            zc = d.csample(bb)
        require(tuple(zc.shape) == tuple(bb.shape), "csample shape", list(zc.shape), list(bb.shape))
        require(bool(torch.isfinite(zc).all()), "conditional relaxed sample not finite", zc.tolist(), None)
        back = d.threshold(zc)
        require(torch.equal(back, bb), "threshold(csample(b)) != b", back.tolist(), bb.tolist())
        zconds.append(zc)
    # factorisation of the relaxed density, on the unconditional and the conditional samples
    tol = 1e-4 if f32 else 1e-9
    for zz in [z] + zconds:
        hb = d.threshold(zz)
        lhs = d.log_prob(zz)
        rhs = d.tlog_prob(hb) + d.clog_prob(zz, hb)
        require(tuple(lhs.shape) == (mc, B) and tuple(rhs.shape) == (mc, B), "log-probability shapes", [list(lhs.shape), list(rhs.shape)], [mc, B])
        mag = 1 + lhs.abs().max().item() + zz.abs().max().item()
        if not bern:
            # log_prob sums exp(logits - z) over categories: the float error scales with those terms
            mag += float((d.logits - zz).exp().max())
        err = (lhs - rhs).abs().max().item()
        require(err <= tol * mag, "log_prob(z) != tlog_prob(H(z)) + clog_prob(z, H(z))", lhs.tolist(), rhs.tolist())
        for bb in all_b:
            cl = d.clog_prob(zz, bb)
            same = (hb == bb) if bern else (hb == bb).all(-1)
            isinf = cl == float("-inf")
            require(bool((isinf == ~same).all()), "clog_prob(z, b) must be -inf exactly where H(z) != b",
                    cl.tolist(), same.tolist())
    classes = [case["which"], case["dtype"], "param_" + case["param"]]
    if any(k in (0, 1, TWO24 - 1) for k in case["u"] + case["v"]):
        classes.append("boundary_uniform")
    if case["validate"]:
        classes.append("validate_args")
    return Info(nontrivial=True, classes=classes)


# ------------------------------------------------------------------ G. relaxed distributions: push-forward densities


def _pushforward_strategy(tier):
    @st.composite
    def build(draw):
        which = draw(st.sampled_from(["bernoulli", "categorical"]))
        V = 1 if which == "bernoulli" else draw(st.integers(2, 4))
        if which == "bernoulli":
            params = [draw(dyadic(4, -3, 3))]
        else:
            params = [draw(st.lists(dyadic(4, -3, 3), min_size=V, max_size=V))]
        return {"which": which, "B": 1, "V": V, "dtype": "float64", "param": "logits", "params": params,
                "u": draw(st.lists(st.integers(2, 62), min_size=V, max_size=V)),
                "v": draw(st.lists(st.integers(2, 62), min_size=V, max_size=V)),
                "k": draw(st.integers(0, V - 1)) if which == "categorical" else draw(st.integers(0, 1))}

    return build()


@subcheck("C19", "relaxed_pushforward", _pushforward_strategy, 400, 8000,
          doc="change of variables, float64, uniforms j/64 in the interior: the density of rsample's map u -> z (1/|det dz/du|, by autograd through the library's own sampler) equals exp(log_prob(z)); the density of csample's map v -> z~ equals exp(clog_prob(z~, b)) - i.e. the samplers draw from the densities that the factorisation speaks about (this is what makes RELAX exact in the mean for categoricals too)",
          required_classes=["bernoulli", "categorical"])
def _pushforward_check(case):
    import torch

    d, _ = _relaxed_dist(case)
    V = case["V"]
    bern = case["which"] == "bernoulli"
    shape = (1,) if bern else (1, V)
    u0 = torch.tensor([j / 64 for j in case["u"]], dtype=torch.float64).view(shape)
    v0 = torch.tensor([j / 64 for j in case["v"]], dtype=torch.float64).view(shape)

    def via(fn, x0):
        def f(x):
            def take(*a, **k):
                return x.view(shape)

            with fakes.patched(torch, rand=take, rand_like=take):
                return fn().reshape(-1)

        J = torch.autograd.functional.jacobian(f, x0.reshape(-1))
        return f(x0.reshape(-1)).detach(), J

    z, J = via(lambda: d.rsample(), u0)
    logdens = -torch.linalg.slogdet(J.view(V, V))[1]
    lp = d.log_prob(z.view(shape)).reshape(-1)[0]
    require(abs(float(logdens) - float(lp)) <= 1e-8 * (1 + abs(float(lp))),
            "density of rsample's output (change of variables) != exp(log_prob)", float(logdens), float(lp))
    if bern:
        b = torch.full(shape, float(case["k"]), dtype=torch.float64)
    else:
        b = torch.eye(V, dtype=torch.float64)[case["k"]].view(shape)
    zc, Jc = via(lambda: d.csample(b), v0)
    logdens = -torch.linalg.slogdet(Jc.view(V, V))[1]
    cl = d.clog_prob(zc.view(shape), b).reshape(-1)[0]
    require(abs(float(logdens) - float(cl)) <= 1e-8 * (1 + abs(float(cl))),
            "density of csample's output (change of variables) != exp(clog_prob)", float(logdens), float(cl))
    return Info(nontrivial=True, classes=[case["which"], "V_%d" % V])


# ------------------------------------------------------------------ H/I. fixed-cardinality sampling


def _srswor_enum(tier):
    seeds = 6 if tier == "quick" else 200
    out = []
    for total in range(0, 9):
        for given in range(0, total + 1):
            for extra in (None, 0, 1, 3):
                for s in range(seeds):
                    out.append({"total": total, "given": given, "out_extra": extra, "seed": 1000 * s + 17 * total + given,
                                "route": "dist" if (s + total) % 2 else "functional"})
    return out


def _srswor_one(total, given, out_size, seed, route, sample_shape=()):
    import torch
    from pydrobert.torch.distributions import SimpleRandomSamplingWithoutReplacement as SRS
    from pydrobert.torch.functional import simple_random_sampling_without_replacement as srs

    torch.manual_seed(seed)
    tt, gg = torch.as_tensor(total), torch.as_tensor(given)
    zero_length = (int(tt.max()) if out_size is None else out_size) == 0
    # the distribution's own support constraint demands a positive vector size (argcheck in
    # BinaryCardinalityConstraint), so zero-length vectors are in the domain of the function only
    if route == "functional" or zero_length:
        tt, gg = torch.broadcast_tensors(tt, gg)
        if sample_shape:
            tt, gg = tt.expand(tuple(sample_shape) + tt.shape), gg.expand(tuple(sample_shape) + gg.shape)
        return srs(tt, gg, out_size), None
    d = SRS(gg if gg.dim() else given, tt if tt.dim() else total, out_size)
    return d.sample(list(sample_shape)), d


def _srswor_laws(b, totals, givens, out_size, what):
    """b: (..., out_size) flattened against lists of totals / givens."""
    rows = b.reshape(-1, b.shape[-1]).tolist() if b.shape[-1] else [[] for _ in range(max(1, b.numel()))]
    require(b.shape[-1] == out_size, what + ": vector size", b.shape[-1], out_size)
    for i, row in enumerate(rows):
        T, L = totals[i % len(totals)], givens[i % len(givens)]
        require(all(x in (0.0, 1.0) for x in row), what + ": sample is not binary", row, None)
        require(sum(row) == L, what + ": number of ones != given_count (total=%d)" % T, row, L)
        require(sum(row[T:]) == 0, what + ": a one lies at or beyond position total_count=%d" % T, row, None)


@subcheck("C19", "srswor_enum", _srswor_enum, 0, 0, exhaustive=True,
          doc="every total 0..8, given <= total, out_size in {default, total, total+1, total+3}, 6 (quick) / 200 (thorough) seeds, distribution and functional form: exactly `given` ones, all before position `total`; sample satisfies support.check; exp(log_prob) summed over enumerate_support() == 1 and the support is the set of all C(total, given) vectors",
          required_classes=["given_0", "given_eq_total", "padded", "total_0"])
def _srswor_check(case):
    import torch

    T, L = case["total"], case["given"]
    out_size = None if case["out_extra"] is None else T + case["out_extra"]
    eff = T if out_size is None else out_size
    b, d = _srswor_one(T, L, out_size, case["seed"], case["route"], sample_shape=(3,))
    require(tuple(b.shape) == (3, eff), "sample shape", list(b.shape), [3, eff])
    _srswor_laws(b, [T], [L], eff, "SRSWOR")
    classes = []
    if d is not None:
        require(bool(d.support.check(b).all()), "sample fails the distribution's own support check", b.tolist(), None)
        require(bool(d.has_enumerate_support), "scalar counts must be enumerable", False, True)
        sup = d.enumerate_support()
        n = math.comb(T, L)
        require(tuple(sup.shape) == (n, eff), "enumerate_support shape", list(sup.shape), [n, eff])
        rows = {tuple(int(x) for x in r) for r in sup.tolist()}
        expect = {tuple(1 if i in c else 0 for i in range(eff)) for c in itertools.combinations(range(T), L)}
        require(rows == expect, "enumerate_support is not the set of all vectors with the given cardinality", sorted(rows), sorted(expect))
        require(bool(d.support.check(sup).all()), "enumerated vector fails the support check", None, None)
        mass = float(d.log_prob(sup).double().exp().sum())
        require(abs(mass - 1.0) <= 1e-5, "probabilities over the enumerated support do not sum to one (total=%d, given=%d)" % (T, L), mass, 1.0)
        classes.append("dist")
    if L == 0:
        classes.append("given_0")
    if L == T:
        classes.append("given_eq_total")
    if T == 0:
        classes.append("total_0")
    if eff > T:
        classes.append("padded")
    return Info(nontrivial=0 < L < T, classes=classes)


def _srswor_batch_strategy(tier):
    @st.composite
    def build(draw):
        B = draw(st.integers(1, 4))
        totals = draw(st.lists(st.integers(0, 8), min_size=B, max_size=B))
        givens = [draw(st.integers(0, t)) for t in totals]
        shape = draw(st.sampled_from(["vector", "vector", "total_scalar", "given_scalar", "matrix"]))
        if shape == "total_scalar":
            totals = [max(totals)] * B
        if shape == "given_scalar":
            givens = [min(g for g in givens)] * B
        return {"totals": totals, "givens": givens, "shape": shape,
                "out_extra": draw(st.sampled_from([None, 0, 1, 2])), "seed": draw(st.integers(0, 2 ** 31 - 1)),
                "route": draw(st.sampled_from(["dist", "functional"])), "ns": draw(st.integers(1, 3))}

    return build()


@subcheck("C19", "srswor_batch", _srswor_batch_strategy, 500, 10000,
          doc="batched / broadcast total and given counts (vector, scalar-vs-vector, 2-D), generated seeds: every row has exactly its given count of ones inside its first total positions; support check; mass over the enumerated support == 1 when enumerable",
          required_classes=["mixed_totals", "broadcast"])
def _srswor_batch_check(case):
    import torch

    totals, givens, B = case["totals"], case["givens"], len(case["totals"])
    tmax = max(totals)
    out_size = None if case["out_extra"] is None else tmax + case["out_extra"]
    eff = tmax if out_size is None else out_size
    tt, gg = torch.tensor(totals), torch.tensor(givens)
    classes = []
    if case["shape"] == "total_scalar":
        tt = torch.tensor(totals[0])
        classes.append("broadcast")
    elif case["shape"] == "given_scalar":
        gg = torch.tensor(givens[0])
        classes.append("broadcast")
    elif case["shape"] == "matrix":
        tt, gg = tt.view(1, B), gg.view(1, B)
    b, d = _srswor_one(tt, gg, out_size, case["seed"], case["route"], sample_shape=(case["ns"],))
    lead = (case["ns"],) + ((1, B) if case["shape"] == "matrix" else (B,))
    require(tuple(b.shape) == lead + (eff,), "sample shape", list(b.shape), list(lead + (eff,)))
    _srswor_laws(b, totals, givens, eff, "SRSWOR (batched)")
    if d is not None:
        require(bool(d.support.check(b).all()), "sample fails the distribution's own support check", b.tolist(), None)
        if d.has_enumerate_support:
            sup = d.enumerate_support()
            lp = d.log_prob(sup).double().exp()
            mass = lp.reshape(lp.shape[0], -1).sum(0)
            require(bool(((mass - 1).abs() <= 1e-5).all()), "probabilities over the enumerated support do not sum to one", mass.tolist(), 1.0)
            classes.append("enumerable")
    if len(set(totals)) > 1:
        classes.append("mixed_totals")
    return Info(nontrivial=any(0 < g < t for g, t in zip(givens, totals)), classes=classes)


# ------------------------------------------------------------------ J. combinatorics


def _comb_enum(tier):
    out = [{"what": "binom_row", "length": n} for n in range(0, 67)]
    out += [{"what": "vocab", "length": n, "vocab": v} for n in range(0, 5) for v in range(1, 5)]
    out += [{"what": "binary", "length": n} for n in range(0, 9 if tier == "quick" else 11)]
    out += [{"what": "card_int", "length": n, "count": c} for n in range(0, 8) for c in range(0, n + 2)]
    return out


@subcheck("C19", "combinatorics_enum", _comb_enum, 0, 0, exhaustive=True,
          doc="binomial_coefficient == math.comb for every length 0..66 and count 0..length+1; enumerate_vocab_sequences / enumerate_binary_sequences / ..._with_cardinality (int form) == itertools, including the documented prefix ordering",
          required_classes=["binom_recursion_branch", "binom_factorial_branch"])
def _comb_check(case):
    import torch
    from pydrobert.torch import functional as F

    w = case["what"]
    n = case["length"]
    if w == "binom_row":
        counts = list(range(0, n + 2))
        got = F.binomial_coefficient(torch.tensor([n] * len(counts)), torch.tensor(counts))
        exp = [math.comb(n, c) for c in counts]
        require(got.tolist() == exp, "binomial_coefficient(%d, 0..%d) != math.comb" % (n, n + 1), got.tolist(), exp)
        got1 = F.binomial_coefficient(torch.tensor(n), torch.tensor(n // 2))
        require(int(got1) == math.comb(n, n // 2), "binomial_coefficient scalar form", int(got1), math.comb(n, n // 2))
        return Info(nontrivial=n >= 2, classes=["binom_recursion_branch" if n > 20 else "binom_factorial_branch"])
    if w in ("vocab", "binary"):
        V = case.get("vocab", 2)
        got = F.enumerate_vocab_sequences(n, V) if w == "vocab" else F.enumerate_binary_sequences(n)
        require(tuple(got.shape) == (V ** n, n), "enumeration shape", list(got.shape), [V ** n, n])
        rows = [tuple(r) for r in got.tolist()]
        # documented order: position 0 varies fastest (all sequences of length n-x are support[:V**(n-x), :n-x])
        exp = [tuple(reversed(t)) for t in itertools.product(range(V), repeat=n)]
        require(rows == exp, "enumeration differs from itertools.product in the documented order", rows[:10], exp[:10])
        return Info(nontrivial=n >= 2 and V >= 2, classes=[w])
    c = case["count"]
    got = F.enumerate_binary_sequences_with_cardinality(n, c)
    exp = {tuple(1 if i in cc else 0 for i in range(n)) for cc in itertools.combinations(range(n), c)}
    rows = [tuple(r) for r in got.tolist()]
    require(len(rows) == len(set(rows)) == len(exp) and set(rows) == exp,
            "enumerate_binary_sequences_with_cardinality(%d, %d) is not the set of combinations" % (n, c), rows, sorted(exp))
    return Info(nontrivial=0 < c < n, classes=["card_int"])


def _comb_strategy(tier):
    @st.composite
    def build(draw):
        B = draw(st.integers(1, 5))
        big = draw(st.booleans())
        lengths = draw(st.lists(st.integers(0, 66 if big else 20), min_size=B, max_size=B))
        counts = [draw(st.one_of(st.integers(0, x), st.integers(0, x + 2))) for x in lengths]
        small = draw(st.lists(st.integers(0, 6), min_size=B, max_size=B))
        scount = [draw(st.integers(0, x)) for x in small]
        return {"lengths": lengths, "counts": counts, "small": small, "scount": scount,
                "broadcast": draw(st.sampled_from(["none", "length_scalar", "count_scalar"]))}

    return build()


@subcheck("C19", "combinatorics_mixed", _comb_strategy, 400, 8000,
          doc="binomial_coefficient on generated vectors of mixed lengths <= 66 (both internal branches, count possibly > length, scalar broadcasting) == math.comb; tensor form of enumerate_binary_sequences_with_cardinality: binom == math.comb and support[b, :binom[b], :length[b]] is the set of combinations",
          required_classes=["max_length_gt_20", "max_length_le_20", "count_gt_length"])
def _comb_mixed_check(case):
    import torch
    from pydrobert.torch import functional as F

    ln, ct = list(case["lengths"]), list(case["counts"])
    if case["broadcast"] == "length_scalar":
        ln = [ln[0]] * len(ln)
        L, C = torch.tensor(ln[0]), torch.tensor(ct)
    elif case["broadcast"] == "count_scalar":
        ct = [ct[0]] * len(ct)
        L, C = torch.tensor(ln), torch.tensor(ct[0])
    else:
        L, C = torch.tensor(ln), torch.tensor(ct)
    got = F.binomial_coefficient(L, C)
    exp = [math.comb(a, b) for a, b in zip(ln, ct)]
    require(got.reshape(-1).tolist() == exp, "binomial_coefficient != math.comb", got.tolist(), exp)
    sm, sc = case["small"], case["scount"]
    sup, binom = F.enumerate_binary_sequences_with_cardinality(torch.tensor(sm), torch.tensor(sc))
    expb = [math.comb(a, b) for a, b in zip(sm, sc)]
    require(binom.tolist() == expb, "tensor form: binom != math.comb", binom.tolist(), expb)
    require(tuple(sup.shape) == (len(sm), max(expb), max(sm)), "tensor form: support shape", list(sup.shape), [len(sm), max(expb), max(sm)])
    for i, (a, b) in enumerate(zip(sm, sc)):
        rows = [tuple(int(x) for x in r[:a]) for r in sup[i, :expb[i]].tolist()]
        expect = {tuple(1 if j in cc else 0 for j in range(a)) for cc in itertools.combinations(range(a), b)}
        require(len(rows) == len(set(rows)) and set(rows) == expect,
                "tensor form: support[%d, :binom, :length] is not the set of combinations (length=%d, count=%d)" % (i, a, b), rows, sorted(expect))
    classes = ["max_length_gt_20" if max(ln) > 20 else "max_length_le_20"]
    if any(b > a for a, b in zip(ln, ct)):
        classes.append("count_gt_length")
    return Info(nontrivial=max(ln) >= 2, classes=classes)
